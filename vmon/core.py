"""vmon core: repo import, monitor attachment, case/shard runner plumbing, verdicts, evidence, replay.

Architecture (see DESIGN.md section 2):
  * a property module (vmon.props.cXX) exposes
        ID, TITLE, RULE, LEVEL ("exploration" | "fault_enumeration"), ASSUMPTIONS
        plan(tier, seed)          -> list of JSON-able shard specs
        run_shard(spec, ctx)      -> drives the real code under monitors, reports into ctx
        replay(case, ctx)         -> re-judges one recorded case
  * the parent (vmon.cli) executes every shard in a fresh interpreter (subprocess, never a Pool),
    merges the shard reports, classifies violations against known_findings.txt, writes evidence.
  * three-valued verdict: violated (exit 1) / held (exit 0) / inconclusive (exit 2).
"""
import hashlib
import importlib
import json
import math
import os
import sys
import time
import traceback
import types
from collections import Counter

VERIF_ROOT = os.path.dirname(os.path.dirname(os.path.abspath(__file__)))
GUARD = 'GEODEPY_VERIF'


def repo_root():
    return os.path.realpath(os.environ.get('VERIF_REPO_ROOT', '/repo'))


def repo_method(cls, name):
    """The function `cls` answers `name` with, looked up along the MRO the way Python does - whether the class defines it
    itself or inherits it from a (private) base class or mixin of the tree under test.  -> (function, defined_in_cls) or
    (None, False) when the attribute is missing or is not a plain function of the tree (float's own operators, ...)."""
    import types
    for k in cls.__mro__:
        if name in k.__dict__:
            f = k.__dict__[name]
            if isinstance(f, types.FunctionType) and (getattr(f, '__module__', '') or '').split('.')[0] == 'geodepy':
                return f, (k is cls)
            return None, False
    return None, False


def restore_method(cls, name, fn, own):
    """undo setattr(cls, name, wrapper): put the class's own function back, or remove the shadow of an inherited one"""
    if own:
        setattr(cls, name, fn)
    elif name in cls.__dict__:
        delattr(cls, name)


class Inconclusive(Exception):
    """The harness could not decide (oracle self-check failed, monitor never reached, ...)."""


# --------------------------------------------------------------------------------------------
# importing the code under test from the working tree
# --------------------------------------------------------------------------------------------
_LOADED = {}


def load_repo(need_gnss=False, need_api=False, need_standalone=False):
    """Import the repository's modules from VERIF_REPO_ROOT (current working tree).

    Returns a namespace object with the modules as attributes.  Asserts that every module really comes
    from the tree under test (and not from an installed copy)."""
    root = repo_root()
    if sys.path[0] != root:
        sys.path.insert(0, root)
    for name in list(sys.modules):
        if name == 'geodepy' or name.startswith('geodepy.'):
            f = getattr(sys.modules[name], '__file__', None)
            if f and not os.path.realpath(f).startswith(root + os.sep):
                del sys.modules[name]
    os.environ.setdefault(GUARD, '1')
    ns = types.SimpleNamespace()
    names = ['constants', 'angles', 'convert', 'statistics', 'survey', 'geodesy', 'ntv2reader',
             'transform', 'coord']
    for n in names:
        m = importlib.import_module('geodepy.' + n)
        _assert_under(m, root)
        setattr(ns, n, m)
    if need_gnss:
        if 'pandas' not in sys.modules:
            try:
                import pandas  # noqa: F401
            except Exception:
                stub = types.ModuleType('pandas')
                stub.__verif_stub__ = True
                sys.modules['pandas'] = stub
        m = importlib.import_module('geodepy.gnss')
        _assert_under(m, root)
        ns.gnss = m
    if need_api:
        m = importlib.import_module('api.app')
        _assert_under(m, root)
        ns.app = m
    if need_standalone:
        path = os.path.join(root, 'Standalone', 'mga2gda.py')
        ns.standalone_path = path
    ns.root = root
    apply_ambient_state()
    return ns


def apply_ambient_state():
    """Process state a host program may have changed before it calls the library (only after the library is imported: a host
    changes such settings at run time): the precision of the thread's decimal context.  The harness's own oracles use
    explicit local contexts."""
    prec = os.environ.get('VERIF_DECIMAL_PREC')
    if prec:
        import decimal
        decimal.getcontext().prec = int(prec)


def _assert_under(mod, root):
    f = os.path.realpath(mod.__file__)
    if not f.startswith(root + os.sep):
        raise Inconclusive('module %s imported from %s, not from tree %s' % (mod.__name__, f, root))


def repo_namespaces():
    out = []
    for name, mod in list(sys.modules.items()):
        if mod is None:
            continue
        if name == 'geodepy' or name.startswith('geodepy.') or name in ('api.app', 'mga2gda') \
                or name.startswith('api.'):
            out.append(mod)
    return out


# --------------------------------------------------------------------------------------------
# monitors: wrap a callable and rebind it in every namespace that holds a reference
# --------------------------------------------------------------------------------------------
class Monitor:
    """Wraps `fn`; every call is counted and handed to `post(args, kwargs, result, exc)`.

    `attach()` rebinds the wrapper in every repo namespace holding a reference to the original (the
    repository uses `from x import f` everywhere), so internal calls are observed as well."""

    def __init__(self, fn, name, post=None, pre=None):
        self.fn = fn
        self.name = name
        self.post = post
        self.pre = pre
        self.calls = 0
        self.bound = 0
        self.enabled = True
        mon = self

        def wrapper(*a, **k):
            if not mon.enabled:
                return fn(*a, **k)
            mon.calls += 1
            if mon.pre is not None:
                mon.pre(a, k)
            try:
                r = fn(*a, **k)
            except BaseException as e:  # noqa
                if mon.post is not None:
                    mon.post(a, k, None, e)
                raise
            if mon.post is not None:
                mon.post(a, k, r, None)
            return r
        wrapper.__name__ = getattr(fn, '__name__', name)
        wrapper.__wrapped__ = fn
        wrapper.__doc__ = getattr(fn, '__doc__', None)
        self.wrapper = wrapper

    def attach(self):
        n = 0
        for mod in repo_namespaces():
            for k, v in list(vars(mod).items()):
                if v is self.fn:
                    setattr(mod, k, self.wrapper)
                    n += 1
        self.bound = n
        return self

    def attach_method(self, cls, attr):
        setattr(cls, attr, self.wrapper)
        self.bound += 1
        return self

    def detach(self):
        for mod in repo_namespaces():
            for k, v in list(vars(mod).items()):
                if v is self.wrapper:
                    setattr(mod, k, self.fn)


class LineReach:
    """sys.monitoring LINE events restricted to given code objects; each location disables itself
    after its first hit, so steady-state cost is nil.  Gives the set of (function, line) reached."""

    TOOL = 3

    def __init__(self):
        self.hit = set()
        self.codes = {}
        self.on = False

    def watch(self, fn, label=None):
        code = getattr(fn, '__code__', None)
        if code is None and hasattr(fn, '__wrapped__'):
            code = fn.__wrapped__.__code__
        if code is None:
            return
        self.codes[code] = label or code.co_qualname
        # nested code objects (closures such as sigma/ftn in grid2geo)
        for c in code.co_consts:
            if isinstance(c, types.CodeType):
                self.codes[c] = (label or code.co_qualname) + '.' + c.co_name

    def start(self):
        mon = sys.monitoring
        try:
            mon.use_tool_id(self.TOOL, 'vmon-reach')
        except ValueError:
            pass
        E = mon.events

        def on_line(code, line):
            lab = self.codes.get(code)
            if lab is not None:
                self.hit.add((lab, line))
            return mon.DISABLE
        mon.register_callback(self.TOOL, E.LINE, on_line)
        for code in self.codes:
            mon.set_local_events(self.TOOL, code, E.LINE)
        self.on = True

    def stop(self):
        if not self.on:
            return
        mon = sys.monitoring
        for code in self.codes:
            try:
                mon.set_local_events(self.TOOL, code, 0)
            except Exception:
                pass
        mon.register_callback(self.TOOL, mon.events.LINE, None)
        try:
            mon.free_tool_id(self.TOOL)
        except Exception:
            pass
        self.on = False

    def branch_hit(self, fn, marker):
        """True/False: was any statement line of `fn` whose source contains `marker` executed?  None if the marker
        does not occur in the source any more (then nothing can be required of it)."""
        import inspect
        f = getattr(fn, '__wrapped__', fn)
        try:
            src, start = inspect.getsourcelines(f)
        except (OSError, TypeError):
            return None
        lab = self.codes.get(f.__code__)
        want = [start + i for i, l in enumerate(src) if marker in l]
        if not want or lab is None:
            return None
        return any((lab, l) in self.hit for l in want)

    def lines(self, label):
        return sorted(l for (lab, l) in self.hit if lab == label)

    def summary(self):
        d = {}
        for lab, l in self.hit:
            d.setdefault(lab, []).append(l)
        return {k: sorted(v) for k, v in d.items()}


# --------------------------------------------------------------------------------------------
# shard context: counters, buckets, samples, violations
# --------------------------------------------------------------------------------------------
MAX_WITNESS = 3
MAX_SAMPLES = 6


def jsonable(x, depth=0):
    """Best-effort faithful JSON form of a case/witness."""
    import numpy as np
    if depth > 60:
        return repr(x)
    if x is None or isinstance(x, (bool, int, str)):
        return x
    if isinstance(x, float):
        if type(x) is not float:        # float subclasses (DECAngle) carry their own repr
            return {'float_subclass': type(x).__name__, 'value': jsonable(float(x), depth + 1)}
        if math.isnan(x) or math.isinf(x):
            return repr(x)
        return x
    if isinstance(x, (np.floating,)):
        return jsonable(float(x), depth)
    if isinstance(x, (np.integer,)):
        return int(x)
    if isinstance(x, np.ndarray):
        return jsonable(x.tolist(), depth + 1)
    if isinstance(x, dict):
        return {str(k): jsonable(v, depth + 1) for k, v in x.items()}
    if isinstance(x, (list, tuple, set, frozenset)):
        return [jsonable(v, depth + 1) for v in x]
    return repr(x)


class Ctx:
    def __init__(self, prop, tier, seed, shard):
        self.prop = prop
        self.tier = tier
        self.seed = seed
        self.shard = shard
        self.counters = Counter()
        self.buckets = set()
        self.samples = []
        self.viol = {}          # mechanism -> {count, witnesses:[...]}
        self.maxima = {}        # name -> max value observed
        self.info = {}          # free-form merged by 'last wins' / union for lists
        self.inconclusive = []
        self.monitors = []
        self.t0 = time.time()

    # evidence --------------------------------------------------------
    def count(self, name, n=1):
        self.counters[name] += n

    def judged(self, n=1):
        self.counters['judged'] += n

    def bucket(self, *key):
        self.buckets.add('|'.join(str(k) for k in key))

    def sample(self, case):
        if len(self.samples) < MAX_SAMPLES:
            self.samples.append(jsonable(case))

    def maxi(self, name, value):
        try:
            v = float(value)
        except Exception:
            return
        if math.isnan(v):
            return
        v = max(-1e300, min(1e300, v))       # keep the evidence valid JSON
        if v > self.maxima.get(name, -math.inf):
            self.maxima[name] = v

    def ratio(self, name, err, tol):
        """Record err/tol; returns True iff err <= tol (NaN counts as failure)."""
        if tol <= 0:
            r = math.inf if err > 0 else 0.0
        else:
            r = err / tol
        if r != r:
            r = math.inf
        self.maxi('ratio:' + name, r)
        return r <= 1.0

    # verdicts --------------------------------------------------------
    def violation(self, mechanism, case, detail):
        """Record a violation.  `mechanism` names the refuting event class (stable, value-free key);
        `case` is the JSON-able input that replays it; `detail` what was observed vs expected."""
        v = self.viol.setdefault(mechanism, {'count': 0, 'witnesses': []})
        v['count'] += 1
        if len(v['witnesses']) < MAX_WITNESS:
            v['witnesses'].append({'case': jsonable(case), 'detail': jsonable(detail), 'env': call_environment()})

    def inconc(self, reason):
        if reason not in self.inconclusive:
            self.inconclusive.append(reason)

    def monitor(self, fn, name, post=None, pre=None):
        m = Monitor(fn, name, post, pre)
        self.monitors.append(m)
        return m

    def report(self):
        mon = {}
        for m in self.monitors:
            mon[m.name] = {'calls': m.calls, 'bound': m.bound}
        return {
            'shard': self.shard, 'counters': dict(self.counters), 'buckets': sorted(self.buckets),
            'samples': self.samples, 'viol': self.viol, 'maxima': self.maxima, 'info': self.info,
            'inconclusive': self.inconclusive, 'monitors': mon, 'wall_s': time.time() - self.t0,
        }


def merge_reports(reports):
    out = {'counters': Counter(), 'buckets': set(), 'samples': [], 'viol': {}, 'maxima': {}, 'info': {},
           'inconclusive': [], 'monitors': {}, 'shards': len(reports), 'cpu_s': 0.0}
    for r in sorted(reports, key=lambda r: str(r.get('shard'))):
        out['counters'].update(r['counters'])
        out['buckets'].update(r['buckets'])
        for s in r['samples']:
            if len(out['samples']) < 12:
                out['samples'].append(s)
        for mech, v in r['viol'].items():
            o = out['viol'].setdefault(mech, {'count': 0, 'witnesses': []})
            o['count'] += v['count']
            for w in v['witnesses']:
                if len(o['witnesses']) < MAX_WITNESS:
                    o['witnesses'].append(w)
        for k, v in r['maxima'].items():
            if not isinstance(v, (int, float)):
                v = 1e300
            if v > out['maxima'].get(k, -math.inf):
                out['maxima'][k] = v
        for k, v in r['info'].items():
            if isinstance(v, list):
                cur = out['info'].setdefault(k, [])
                for x in v:
                    if x not in cur:
                        cur.append(x)
            elif isinstance(v, dict):
                cur = out['info'].setdefault(k, {})
                for kk, vv in v.items():
                    if isinstance(vv, list):
                        c2 = cur.setdefault(kk, [])
                        for x in vv:
                            if x not in c2:
                                c2.append(x)
                        c2.sort(key=str)
                    elif isinstance(vv, (int, float)) and not isinstance(vv, bool) and isinstance(cur.get(kk), (int, float)):
                        cur[kk] = cur[kk] + vv
                    else:
                        cur[kk] = vv
            elif isinstance(v, (int, float)) and not isinstance(v, bool) and isinstance(out['info'].get(k), (int, float)):
                out['info'][k] += v
            else:
                out['info'][k] = v
        for x in r['inconclusive']:
            if x not in out['inconclusive']:
                out['inconclusive'].append(x)
        for k, v in r['monitors'].items():
            o = out['monitors'].setdefault(k, {'calls': 0, 'bound': 0})
            o['calls'] += v['calls']
            o['bound'] = max(o['bound'], v['bound'])
        out['cpu_s'] += r.get('wall_s', 0.0)
    return out


# --------------------------------------------------------------------------------------------
# known findings
# --------------------------------------------------------------------------------------------
def load_known():
    """known_findings.txt (committed, never written at run time):
         known: property=<id> mechanism=<key> <what fails>
         fixed: property=<id> <commit> <what failed>
       Only `known:` lines suppress anything."""
    path = os.path.join(VERIF_ROOT, 'known_findings.txt')
    known = {}
    if os.path.exists(path):
        for line in open(path):
            line = line.strip()
            if not line.startswith('known:'):
                continue
            parts = line[len('known:'):].split()
            kv = dict(p.split('=', 1) for p in parts[:2] if '=' in p)
            if 'property' in kv and 'mechanism' in kv:
                known[(kv['property'], kv['mechanism'])] = ' '.join(parts[2:])
    return known


def stable_hash(obj):
    return hashlib.sha1(json.dumps(obj, sort_keys=True, default=repr).encode()).hexdigest()[:12]


# small numeric helpers used by several properties ------------------------------------------
def ulp(x):
    return math.ulp(x)


def wrap180(d):
    return (d + 180.0) % 360.0 - 180.0


def angdiff(a, b):
    return abs(wrap180(a - b))


# --------------------------------------------------------------------------------------------
# non-termination detector for library calls that contain an uncapped loop
# --------------------------------------------------------------------------------------------
class DidNotReturn(Exception):
    """A monitored library call did not return within the budget (>= 1e5 times its normal duration)."""


class deadline:
    """`with core.deadline(30): lib_call()` -- raises DidNotReturn inside the call via SIGALRM (shards run their
    workload in the main thread).  The budget is deliberately enormous compared with the microseconds a call takes,
    so machine load cannot turn it into a false alarm; it only converts an endless loop into an observable event."""

    def __init__(self, seconds=30):
        self.seconds = seconds

    def __enter__(self):
        import signal

        def handler(signum, frame):
            raise DidNotReturn('no return after %ds' % self.seconds)
        self.old = signal.signal(signal.SIGALRM, handler)
        signal.alarm(self.seconds)
        return self

    def __exit__(self, *exc):
        import signal
        signal.alarm(0)
        signal.signal(signal.SIGALRM, self.old)
        return False


class ResultKeeper:
    """Results are values: what a call returned must still hold the same numbers after later calls.  keep() remembers the
    returned object itself together with a deep copy taken at return time (only when it contains something mutable: an
    array, a list, an object); verify() - called before/after later library calls - compares each remembered object with
    its copy.  A result that is a view of storage the library goes on writing to (a module-level work array, a template
    handed out without a copy) changes under the caller; a result that is a fresh object, or a shared object that is
    never written again, does not."""

    def __init__(self, ctx, label, cap=6):
        self.ctx = ctx
        self.label = label
        self.cap = cap
        self.kept = []

    @staticmethod
    def _mutable(o, depth=0):
        import numpy as np
        if isinstance(o, np.ndarray) or isinstance(o, (list, dict, set, bytearray)):
            return True
        if isinstance(o, tuple) and depth < 3:
            return any(ResultKeeper._mutable(x, depth + 1) for x in o)
        if isinstance(o, (int, float, complex, str, bytes, bool, type(None))):
            return False
        return hasattr(o, '__dict__')

    @staticmethod
    def _same(a, b, depth=0):
        import numpy as np
        if isinstance(a, np.ndarray) or isinstance(b, np.ndarray):
            try:
                return np.shape(a) == np.shape(b) and bool(np.array_equal(np.asarray(a), np.asarray(b), equal_nan=True))
            except Exception:
                return bool(np.array_equal(np.asarray(a), np.asarray(b)))
        if isinstance(a, (tuple, list)) and isinstance(b, (tuple, list)):
            return len(a) == len(b) and all(ResultKeeper._same(x, y, depth + 1) for x, y in zip(a, b))
        if isinstance(a, float) and isinstance(b, float):
            return a == b or (a != a and b != b)
        if hasattr(a, '__dict__') and hasattr(b, '__dict__') and depth < 3 and type(a) is type(b):
            va, vb = vars(a), vars(b)
            return va.keys() == vb.keys() and all(ResultKeeper._same(va[k], vb[k], depth + 1) for k in va)
        try:
            return bool(a == b)
        except Exception:
            return True

    def keep(self, result, case, label=None):
        import copy
        if not self._mutable(result):
            return
        try:
            snap = copy.deepcopy(result)
        except Exception:
            return
        self.kept.append((result, snap, case, label or self.label))
        if len(self.kept) > self.cap:
            self.kept.pop(0)
        self.ctx.count('results_kept_for_later_comparison')

    def verify(self):
        for result, snap, case, label in list(self.kept):
            self.ctx.count('kept_results_compared_after_later_calls')
            if not self._same(result, snap):
                self.ctx.violation(label + ':earlier-result-changed-by-later-call', case,
                                   {'returned_then': jsonable(snap), 'holds_now': jsonable(result)})
                self.kept = [k for k in self.kept if k[0] is not result]


# --------------------------------------------------------------------------------------------
# environment of the calls: time zone and working directory differ from shard to shard
# --------------------------------------------------------------------------------------------
SHARD_TIMEZONES = (None, 'AEST-10AEDT,M10.1.0,M4.1.0/3', 'UTC', 'EST5EDT,M3.2.0,M11.1.0')


def shard_environment(idx):
    """Environment of shard `idx`: every second shard runs in a time zone with daylight saving (southern / northern rule,
    POSIX TZ strings: no tz database needed), every third in a scratch working directory of its own."""
    tz = SHARD_TIMEZONES[idx % len(SHARD_TIMEZONES)] if isinstance(idx, int) else None
    ok = isinstance(idx, int)
    return {'TZ': tz, 'own_cwd': ok and idx % 3 == 1,
            # the interpreter's hash seed decides the iteration order of sets of strings: five different seeds over the shards
            'PYTHONHASHSEED': str((idx * 7 + 3) % 5 if ok and idx % 2 else 0),
            # every fourth shard runs with a host program's lowered decimal precision (set after the library is imported)
            'VERIF_DECIMAL_PREC': '6' if ok and idx % 4 == 2 else ''}


def call_environment():
    import decimal
    return {'TZ': os.environ.get('TZ'), 'cwd_is_verif_root': os.path.realpath(os.getcwd()) == os.path.realpath(VERIF_ROOT),
            'PYTHONHASHSEED': os.environ.get('PYTHONHASHSEED'), 'decimal_prec': decimal.getcontext().prec}


def apply_environment(env):
    """Restore the environment a witness was observed in (replay).  Returns True when the interpreter has to be started
    again for it (the hash seed is fixed at start-up)."""
    import time as _t
    env = env or {}
    tz = env.get('TZ')
    if tz:
        os.environ['TZ'] = tz
    else:
        os.environ.pop('TZ', None)
    _t.tzset()
    if env.get('decimal_prec') and int(env['decimal_prec']) != 28:
        os.environ['VERIF_DECIMAL_PREC'] = str(env['decimal_prec'])
    else:
        os.environ.pop('VERIF_DECIMAL_PREC', None)
    hs = env.get('PYTHONHASHSEED')
    return bool(hs is not None and os.environ.get('PYTHONHASHSEED') != hs)


# --------------------------------------------------------------------------------------------
# representations: the same valid input delivered another way
# --------------------------------------------------------------------------------------------
class FloatSub(float):
    """A float subclass that is not one of the library's angle classes (the library's own DECAngle is a float subclass,
    so subclasses of float are first-class citizens of its interfaces)."""
    __slots__ = ()


REP_KINDS = ('int', 'npint64', 'npfloat64', 'floatsub')
ARRAY_REPS = ('fortran', 'readonly', 'view', 'int64', 'float-from-list')


def choose_rep(rnd, p=0.06):
    """None (plain Python floats, the ordinary way) or one of REP_KINDS."""
    return rnd.choice(REP_KINDS) if rnd.random() < p else None


def rep_wants_integers(rep):
    return rep in ('int', 'npint64')


def rep_value(rep, v):
    """The same number in another Python representation.  Only plain floats (and plain ints for the numpy kinds) are
    re-represented; angle objects, strings, None pass through.  With the integer kinds a value that is not integral stays
    a float."""
    if rep is None or type(v) not in (float, int) or isinstance(v, bool):
        return v
    import numpy as np
    if type(v) is int:
        # counts and zone numbers stay integers
        return np.int64(v) if rep == 'npint64' else v
    if rep in ('int', 'npint64'):
        if float(v).is_integer() and abs(v) < 2 ** 53:
            return int(v) if rep == 'int' else np.int64(int(v))
        return v
    if rep == 'npfloat64':
        return np.float64(v)
    if rep == 'floatsub':
        return FloatSub(v)
    raise ValueError(rep)


def rep_values(rep, *vals):
    return tuple(rep_value(rep, v) for v in vals)


def delivery_of(case, p_rep=0.06, p_shape=0.10):
    """(rep, shape) for a case whose generator does not choose them: decided by the hash of the case, so a replay of the
    case delivers it the same way."""
    h = int(stable_hash(case), 16)
    rep = REP_KINDS[h % len(REP_KINDS)] if (h >> 8) % 1000 < p_rep * 1000 else None
    shape = CALL_SHAPES[1 + (h >> 20) % (len(CALL_SHAPES) - 1)] if (h >> 28) % 1000 < p_shape * 1000 else None
    return rep, shape


def choose_array_rep(rnd, p=0.15):
    return rnd.choice(ARRAY_REPS) if rnd.random() < p else None


def rep_array(rep, arr):
    """The same matrix delivered another way: Fortran memory order, a read-only array (a library that writes into its
    argument then raises instead of silently changing it), a non-contiguous view into a larger array, an integer dtype
    when every entry is integral, or an array freshly built from nested lists."""
    import numpy as np
    if rep is None or not isinstance(arr, np.ndarray):
        return arr
    if rep == 'fortran':
        return np.asfortranarray(arr.copy())
    if rep == 'readonly':
        b = arr.copy()
        b.setflags(write=False)
        return b
    if rep == 'view':
        big = np.full((arr.shape[0] * 2 + 1,) + tuple(n * 2 + 1 for n in arr.shape[1:]), 7.25)
        sl = (slice(1, None, 2),) * arr.ndim
        big[sl] = arr
        return big[sl]
    if rep == 'int64':
        if arr.size and np.all(np.isfinite(arr)) and np.all(arr == np.round(arr)) and np.all(np.abs(arr) < 2 ** 53):
            return arr.astype(np.int64)
        return arr
    if rep == 'float-from-list':
        return np.array(arr.tolist(), dtype=float)
    raise ValueError(rep)


def fresh_str(s):
    """An equal string that is a different object (not the interned literal): what a value read from a configuration file,
    a request or `.lower()` is.  Code that compares strings by identity is right for literals only."""
    t = ''.join(list(s))
    return t if t is not s else (s + ' ')[:-1]


def spell(rnd, word):
    """A word the library accepts in any capitalisation ('south' / 'South' / 'SOUTH')."""
    return rnd.choice([word.lower(), word.capitalize(), word.upper()])


CALL_SHAPES = ('positional', 'keywords', 'keywords-shuffled', 'tail-keywords')


def choose_shape(rnd, p=0.12):
    """None (positional, the ordinary way) or another way of delivering the same arguments."""
    return rnd.choice(CALL_SHAPES[1:]) if rnd.random() < p else None


def shaped_call(fn, names, values, shape=None, omit=()):
    """Call fn with the given arguments delivered in another, equivalent way: all by keyword (optionally in shuffled
    order), only the trailing ones by keyword, and with arguments listed in `omit` (whose values equal the documented
    defaults) left out.  `names` are the parameter names of the real signature, in order."""
    names = list(names)
    values = list(values)
    assert len(names) == len(values)
    # parameter names as the live function spells them (a renamed parameter is not this harness's business); the
    # documented names when the live signature does not say (a *args/**kwargs wrapper)
    try:
        import inspect
        ps = list(inspect.signature(fn).parameters.values())
        if len(ps) >= len(names) and all(q.kind == q.POSITIONAL_OR_KEYWORD for q in ps[:len(names)]):
            live = [q.name for q in ps[:len(names)]]
            omit = tuple(live[names.index(o)] for o in omit if o in names)
            names = live
    except (TypeError, ValueError):
        pass
    if shape in (None, 'positional'):
        # leaving out is only possible from the end
        k = len(values)
        while k and names[k - 1] in omit:
            k -= 1
        pos = values[:k]
        kw = {n: v for n, v in zip(names[k:], values[k:]) if n not in omit}
        return fn(*pos, **kw)
    if shape in ('keywords', 'keywords-shuffled'):
        items = [(n, v) for n, v in zip(names, values) if n not in omit]
        if shape == 'keywords-shuffled':
            items = items[1::2] + items[0::2][::-1]
        return fn(**dict(items))
    if shape == 'tail-keywords':
        k = max(1, len(values) // 2)
        kw = {n: v for n, v in zip(names[k:], values[k:]) if n not in omit}
        return fn(*values[:k], **kw)
    raise ValueError(shape)


# --------------------------------------------------------------------------------------------
# interleaving injection: another complete call made at a statement boundary inside a judged call
# --------------------------------------------------------------------------------------------
class Interleaver:
    """While a judged call runs, sys.monitoring LINE events are on for the repository's code; at the k-th statement boundary
    reached inside the library a complete other call (the "twin") is made by a second thread while the judged call waits at
    that boundary; then the judged call resumes.  A thread switch can fall on any such boundary, so this is one of the schedules
    two threads can produce - chosen instead of waited for, deterministic and replayable.  Whatever the twin disturbs there (a
    module-level work array, a shared "current frame" object, a report dictionary, a relaxed tolerance) shows in the judged
    call, which is judged as always: its result must be right.  A twin that needs a lock the judged call holds waits for it.
    (First built as a same-thread call: a correctly locked cache then dead-locked the harness - a false alarm of the
    machinery, DESIGN 10.6.)"""
    TOOL = 2
    WAIT = 0.25          # seconds the judged call waits at the boundary for the twin (a blocked twin finishes later)

    def __init__(self, root):
        self.root = os.path.realpath(root) + os.sep
        self.files = {}
        self.k = self.n = 0
        self.twin = None
        self.state = 'off'
        self.sites = set()
        self.blocked = 0
        self.pending = []
        self.last_n = 0

    def _ours(self, code):
        f = code.co_filename
        r = self.files.get(f)
        if r is None:
            r = self.files[f] = os.path.realpath(f).startswith(self.root)
        return r

    def _on_line(self, code, line):
        if self.state != 'armed' or not self._ours(code):
            return None
        self.n += 1
        if self.n == self.k:
            self.state = 'twin'
            self.sites.add('%s:%d' % (os.path.basename(code.co_filename), line))
            # the twin runs in a thread of its own while this one waits at the boundary: exactly what a second thread scheduled
            # here would do.  If the judged call holds a lock the twin needs, the twin blocks - as that thread would - and
            # finishes after the judged call has moved on (a same-thread call would dead-lock on a non-reentrant lock).
            import threading
            t = threading.Thread(target=self._run_twin, args=(self.twin,), daemon=True)
            t.start()
            t.join(self.WAIT)
            if t.is_alive():
                self.blocked += 1
                self.pending.append(t)
            self.state = 'done'
        return None

    @staticmethod
    def _run_twin(twin):
        try:
            twin()
        except BaseException:           # the twin's own outcome is nobody's business here
            pass

    def count_boundaries(self, call):
        """Runs call() once and returns how many statement boundaries inside the library it passes (and its result)."""
        res, _ = self.run(1 << 60, None, call)
        return self.last_n, res

    def run(self, k, twin, call):
        """call() with twin() injected at the k-th statement boundary inside the library.  Returns (result, injected)."""
        mon = sys.monitoring
        try:
            mon.use_tool_id(self.TOOL, 'vmon-interleave')
        except ValueError:
            pass
        self.k, self.n, self.twin, self.state = int(k), 0, twin, 'armed'
        mon.register_callback(self.TOOL, mon.events.LINE, self._on_line)
        mon.set_events(self.TOOL, mon.events.LINE)
        try:
            res = call()
        finally:
            mon.set_events(self.TOOL, 0)
            mon.register_callback(self.TOOL, mon.events.LINE, None)
            injected = self.state == 'done'
            self.last_n = self.n
            self.state = 'off'
            self.twin = None
            for t in self.pending:
                t.join(5.0)
            self.pending = [t for t in self.pending if t.is_alive()]
        return res, injected


_INTERLEAVER = {}


def interleaved(ctx, k, twin, call):
    """Judged call `call()` with `twin()` injected at the k-th statement boundary inside the library (see Interleaver)."""
    root = repo_root()
    il = _INTERLEAVER.get(root)
    if il is None:
        il = _INTERLEAVER[root] = Interleaver(root)
    # k is a position in per mille of the call's own length: a first, plain execution of the same call counts the statement
    # boundaries it passes inside the library (callees included - a call may spend hundreds of them in a helper before it
    # reaches the statement that matters); the judged execution then gets the twin at boundary 1 + n k / 1000
    try:
        n, _ = il.count_boundaries(call)
    except Exception:
        n = 0
    at = 1 + (n * (int(k) % 1000)) // 1000 if n else 1
    res, injected = il.run(at, twin, call)
    ctx.count('interleaved_calls_with_a_twin_call_injected' if injected else 'interleaved_calls_that_ended_before_the_chosen_boundary')
    ctx.maxi('statement_boundaries_inside_one_interleaved_call', n)
    ctx.info['interleaving_sites_seen'] = sorted(il.sites)[:40]
    if il.blocked:
        ctx.info['interleaved_twins_that_waited_for_a_lock_of_the_judged_call'] = il.blocked
    return res


def interleave_of(case, p=0.04, kmax=45):
    """Like choose_interleave, decided by the hash of the case (for workloads whose generators do not choose it): None or the
    index of the statement boundary; a replay of the case interleaves at the same place."""
    il = case.get('interleave') if isinstance(case, dict) else None
    if il:
        return il.get('at')
    h = int(stable_hash([case, 'interleave']), 16)
    return 1 + (h >> 12) % 999 if h % 1000 < p * 1000 else None


def case_rnd(case, salt='twin'):
    """A random generator that depends on the case only (twin calls, delivery details)."""
    import random as _r
    return _r.Random(stable_hash([case, salt]))


def maybe_interleaved(ctx, case, twin, call, p=0.04, kmax=45):
    """call(), in a share of the cases with twin() injected at a statement boundary inside the library."""
    k = interleave_of(case, p, kmax)
    if not k:
        return call()
    return interleaved(ctx, k, twin, call)


def choose_interleave(rnd, p=0.04, kmax=45):
    """None, or the position (per mille of the call's statement boundaries) at which the twin call is injected."""
    return rnd.randint(1, 999) if rnd.random() < p else None


_UNJUDGED_HUNG = set()


def caller_edits(res, depth=0):
    """What a caller may do to something a call handed back: edit it in place, wherever it is mutable (list items, nested
    lists, array elements, dict values; tuples are walked, not changed).  The result is the caller's own - converting a
    table to other units for a report must not reach the library.  Returns the number of in-place edits made."""
    n = 0
    if depth > 4:
        return 0
    try:
        import numpy as np
        if isinstance(res, np.ndarray):
            if res.size and res.flags.writeable and res.dtype.kind in 'fiu':
                res *= 100
                return 1
            return 0
    except ImportError:
        pass
    if isinstance(res, list):
        for i, it in enumerate(res):
            if isinstance(it, (int, float)) and not isinstance(it, bool):
                res[i] = it * 100 + 1
                n += 1
            else:
                n += caller_edits(it, depth + 1)
    elif isinstance(res, tuple):
        for it in res:
            n += caller_edits(it, depth + 1)
    elif isinstance(res, dict):
        for k, it in list(res.items()):
            if isinstance(it, (int, float)) and not isinstance(it, bool):
                res[k] = it * 100 + 1
                n += 1
            else:
                n += caller_edits(it, depth + 1)
    return n


def unjudged(ctx, fn, *args, **kwargs):
    """A call the property does not speak about (rejected / meaningless arguments), made between judged calls:
    the result is not judged and exceptions are swallowed; what matters is that judged calls made afterwards are as
    right as before (state left behind by an exception path, a consumed iterator, a relaxed tolerance...)."""
    import warnings
    ctx.count('unjudged_calls_before_a_judged_one')
    key = getattr(fn, '__name__', repr(fn))
    if key in _UNJUDGED_HUNG:
        ctx.count('unjudged_call_skipped_after_nontermination')
        return
    try:
        with deadline(10), warnings.catch_warnings():
            warnings.simplefilter('ignore')
            return fn(*args, **kwargs)
    except DidNotReturn:
        # not a verdict (the call is outside what the property speaks about); do not spend the run on it
        _UNJUDGED_HUNG.add(key)
        ctx.count('unjudged_call_did_not_return_in_10s')
    except Inconclusive:
        raise
    except (Exception, SystemExit) as e:
        ctx.count('unjudged_call_raised:' + type(e).__name__)


# --------------------------------------------------------------------------------------------
# ambient workload: the repository's own tests executed with the monitors attached
# --------------------------------------------------------------------------------------------
def run_repo_tests(ns, files, ctx, label='ambient'):
    """Runs unittest-style test files of the tree under test in this interpreter (monitors stay attached).
    Test failures are recorded as evidence only: the suite's own assertions are not this harness's verdict."""
    import unittest
    import importlib.util
    import io
    ran = failed = 0
    for rel in files:
        path = os.path.join(ns.root, rel)
        if not os.path.exists(path):
            continue
        name = 'ambient_' + os.path.splitext(os.path.basename(rel))[0]
        spec = importlib.util.spec_from_file_location(name, path)
        mod = importlib.util.module_from_spec(spec)
        cwd = os.getcwd()
        try:
            os.chdir(os.path.dirname(path))
            spec.loader.exec_module(mod)
            suite = unittest.defaultTestLoader.loadTestsFromModule(mod)
            res = unittest.TextTestRunner(stream=io.StringIO(), verbosity=0).run(suite)
            ran += res.testsRun
            failed += len(res.failures) + len(res.errors)
        finally:
            os.chdir(cwd)
    ctx.count(label + '_tests_run', ran)
    ctx.count(label + '_tests_failed_or_errored', failed)
    return ran, failed
