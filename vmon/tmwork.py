"""Shared workload and judges for the Transverse-Mercator family: C01 (forward), C02 (inverse), C10 (psf/conv).

A *case* is a JSON-able dict; ellipsoids and projections are given by name or by their numbers so that a
replay file is self-contained."""
import importlib.util
import math
import random
import warnings
from fractions import Fraction

from . import core
from .oracles import tm, angle as ax

ISG_ZONES = (541, 542, 543, 551, 552, 553, 561, 562, 563, 572)
SHIPPED_ELL = ('grs80', 'wgs84', 'ans', 'intl24')
TOL_EN = 2.0e-4            # 0.2 mm
TOL_ARC = 2.0e-9           # degrees of arc on the ground
TOL_PSF = 2.0e-8
TOL_CONV = 1.0e-9          # degrees
MAXDL = 30.0


# ---------------------------------------------------------------------------------------------
def ell_obj(ns, spec):
    if isinstance(spec, str):
        return getattr(ns.constants, spec)
    return ns.constants.Ellipsoid(spec[0], spec[1])


def prj_obj(ns, spec):
    if isinstance(spec, str):
        return getattr(ns.constants, spec)
    return ns.constants.Projection(*spec)


def ell_nums(ns, spec):
    e = ell_obj(ns, spec) if isinstance(spec, str) else None
    if e is not None:
        return float(e.semimaj), float(e.inversef)
    return float(spec[0]), float(spec[1])


# published defining values, typed here independently of geodepy.constants (so a changed constant shows)
PUBLISHED_ELL = {'grs80': (6378137.0, 298.257222101), 'wgs84': (6378137.0, 298.257223563),
                 'ans': (6378160.0, 298.25), 'intl24': (6378388.0, 297.0)}
PUBLISHED_PRJ = {'utm': (500000.0, 10000000.0, 0.9996, 6.0, -177.0),
                 'isg': (300000.0, 5000000.0, 0.99994, 2.0, -177.0)}


def ell_published(spec):
    if isinstance(spec, str):
        return PUBLISHED_ELL[spec]
    return float(spec[0]), float(spec[1])


def prj_published(spec):
    if isinstance(spec, str):
        return PUBLISHED_PRJ[spec]
    return tuple(float(x) for x in spec)


def central_meridian(prjspec, zone):
    fe, fn, k0, zw, icm = prj_published(prjspec)
    if prjspec == 'isg':
        return tm.cm_isg(zone, zw, icm)
    return tm.cm_utm_like(zone, zw, icm)


def zone_coverage(prjspec):
    """Longitudes for which the automatic zone of this projection is defined (zones 1..60 / the ten ISG zones)."""
    fe, fn, k0, zw, icm = prj_published(prjspec)
    if prjspec == 'isg':
        return [(138.0, 156.0), (158.0, 160.0)]
    lo = icm - zw / 2.0
    hi = icm + 59.5 * zw
    return [(max(lo, -180.0), min(hi, 180.0))]


# ---------------------------------------------------------------------------------------------
# generators
# ---------------------------------------------------------------------------------------------
def rand_ell(rnd, lo_invf=150.0, hi_invf=400.0):
    r = rnd.random()
    if r < 0.40:
        return 'grs80'
    if r < 0.50:
        return 'wgs84'
    if r < 0.62:
        return 'ans'
    if r < 0.74:
        return 'intl24'
    if r < 0.80:
        return rnd.choice([[6300000.0, lo_invf], [6400000.0, hi_invf], [6300000.0, hi_invf], [6400000.0, lo_invf]])
    if r < 0.84:
        # a user-built Ellipsoid with exactly a shipped one's defining values: equal, but not the same object
        return list(PUBLISHED_ELL[rnd.choice(['grs80', 'ans', 'wgs84', 'intl24'])])
    return [round(rnd.uniform(6.3e6, 6.4e6), rnd.choice([0, 3])), round(rnd.uniform(lo_invf, hi_invf), rnd.choice([2, 9]))]


def rand_prj(rnd):
    r = rnd.random()
    if r < 0.50:
        return 'utm'
    if r < 0.70:
        return 'isg'
    if r < 0.76:
        # a user-built Projection with exactly a shipped one's five values: equal, but not the same object.  It is an
        # ordinary user-defined projection (zones numbered 1.. from the initial central meridian), also for ISG's values.
        return list(PUBLISHED_PRJ[rnd.choice(['utm', 'isg'])])
    zw = rnd.choice([1.0, 2.0, 3.0, 6.0])
    if zw == 6.0:
        icm = -177.0
    else:
        lo, hi = -180.0 + zw / 2.0, 180.0 - 59.5 * zw
        icm = rnd.choice([round(rnd.uniform(lo, hi), 1), float(int(rnd.uniform(lo, hi))) + zw / 2.0 - int(zw / 2.0)])
        icm = min(max(icm, lo), hi)
    fe = rnd.choice([500000.0, 200000.0, 0.0, round(rnd.uniform(0, 1e6), 1)])
    fn = rnd.choice([10000000.0, 5000000.0, 0.0, round(rnd.uniform(0, 1e7), 1)])
    k0 = rnd.choice([0.9996, 1.0, 0.9999, 0.999, round(rnd.uniform(0.9990, 1.0), 6)])
    return [fe, fn, k0, zw, icm]


LAT_BOUNDARY = [-80.0, 84.0, 0.0, -0.0, 1e-9, -1e-9, 1e-12, -1e-12, 83.999999999, -79.999999999,
                45.0, -45.0, 1e-6, -1e-6]


def rand_lat(rnd):
    r = rnd.random()
    if r < 0.12:
        return rnd.choice(LAT_BOUNDARY)
    if r < 0.24:
        return rnd.choice([rnd.uniform(77, 84), rnd.uniform(-80, -77)])
    if r < 0.30:
        return rnd.uniform(-1, 1) * 10 ** rnd.uniform(-9, 0)
    return rnd.uniform(-80.0, 84.0)


DL_BINS = [(0, 0.01), (0.01, 1), (1, 3), (3, 6), (6, 12), (12, 20), (20, 30)]


def zones_of(prjspec):
    return list(ISG_ZONES) if prjspec == 'isg' else list(range(1, 61))


def gen_geo_case(rnd, want_auto=None, argtypes=True, coordapi=True):
    """One geographic-position case inside the quantified domain of C01."""
    ell = rand_ell(rnd)
    prj = rand_prj(rnd)
    if prj == 'isg' and rnd.random() < 0.8:
        ell = 'ans'
    lat = rand_lat(rnd)
    fe, fn, k0, zw, icm = prj_published(prj)
    auto = (rnd.random() < 0.4) if want_auto is None else want_auto
    kind = 'rand'
    for _ in range(100):
        if auto:
            zone = 0
            cov = zone_coverage(prj)
            lo, hi = rnd.choice(cov)
            r = rnd.random()
            if r < 0.15:
                # zone edge +- 1 ulp (edges of the automatic zones)
                k = rnd.randint(0, int(round((hi - lo) / zw)) - 1)
                edge = lo + k * zw
                lon = rnd.choice([edge, math.nextafter(edge, 1e9), math.nextafter(edge, -1e9)])
                kind = 'zone-edge'
            elif r < 0.20:
                lon = lo
                kind = 'coverage-start'
            elif r < 0.25:
                zs = zones_of(prj)
                lon = central_meridian(prj, rnd.choice(zs))
                kind = 'on-cm'
            else:
                lon = rnd.uniform(lo, hi)
            if lon < lo:
                lon = lo
            if lon >= hi:
                lon = math.nextafter(hi, -1e9)
        else:
            zone = rnd.choice(zones_of(prj))
            cm = central_meridian(prj, zone)
            r = rnd.random()
            if r < 0.06:
                dl = rnd.choice([0.0, MAXDL, -MAXDL, zw / 2, -zw / 2])
                kind = 'dl-boundary'
            else:
                a, b = rnd.choice(DL_BINS)
                dl = rnd.uniform(a, b) * rnd.choice([1, -1])
            lon = cm + dl
            if abs(lon - cm) > MAXDL:
                continue
            if not (-180.0 <= lon < 180.0):
                # the zone's central meridian lies across the +-180 meridian from the point: the longitude difference is
                # taken modulo 360 (the projection formulas are periodic in it)
                lon = (lon + 180.0) % 360.0 - 180.0
                kind = 'across-antimeridian'
        if -180.0 <= lon < 180.0:
            break
    else:
        lon, zone = 0.0, 0 if prj != 'isg' else 541
    if rnd.random() < 0.06:
        # a position whose intermediate TM ordinate xi' sits at (or a millimetre to kilometres from) a zero of one of the
        # series' trigonometric factors: placed with the oracle's inverse at the present longitude difference
        a_e, invf_e = ell_published(ell)
        cm0 = central_meridian(prj, zone) if zone != 0 else None
        if cm0 is None:
            cov = [c for c in zone_coverage(prj) if c[0] <= lon < c[1]]
            if cov:
                cm0 = cov[0][0] + (math.floor((lon - cov[0][0]) / zw) + 0.5) * zw
        if cm0 is not None:
            dl0 = core.wrap180(lon - cm0)
            try:
                if rnd.random() < 0.5:
                    # the final ordinate xi = y / (k0 A) on a zero (the inverse series' argument)
                    y = series_zero_y(rnd, a_e, invf_e, k0) * rnd.choice([1, -1])
                    x0 = tm.forward(math.degrees(y / 6.4e6), dl0, a_e, invf_e, k0)[0]
                    la_z, dl_z, _, _ = tm.inverse(x0, y, a_e, invf_e, k0)
                else:
                    # the Gauss-Schreiber ordinate xi' on a zero (the forward series' and the scale / convergence series' argument),
                    # a hair to a milliradian off
                    j, d = rnd.choice(SERIES_ZERO_FRACTIONS)
                    xi1 = (math.pi * j / d / (2.0 if rnd.random() < 0.5 else 1.0)) % (math.pi / 2)
                    xi1 = (xi1 + rnd.choice([0.0, 1, -1, 1, -1]) * 10 ** rnd.uniform(-10, -3)) * rnd.choice([1, -1])
                    eta1 = math.asinh(math.tan(math.radians(dl0)) * math.cos(xi1))
                    la_z, dl_z = geo_from_gauss_schreiber(xi1, eta1, invf_e)
                lon_z = core.wrap180(cm0 + dl_z)
                if -80.0 <= la_z <= 84.0 and abs(dl_z - dl0) < 0.5 and -180.0 <= lon_z < 180.0:
                    lat, lon, kind = la_z, lon_z, 'series-zero'
            except (ValueError, OverflowError, ZeroDivisionError):
                pass
    argt = 'float'
    if argtypes and rnd.random() < 0.3:
        argt = rnd.choice(ax.ANGLE_CLASSES)
        r2 = rnd.random()
        if r2 < 0.25:
            # typed-looking values and values a hair off a whole degree / minute (where a notation's own rounding or a
            # "clean-up" of float noise would move the position)
            step = rnd.choice([3600, 60, 1])
            off = rnd.choice([0.0, 1e-7, -1e-7, 3e-8, -3e-8, 1e-6, -1e-9])
            nlat = round(lat * 3600 / step) * step / 3600.0 + off
            nlon = round(lon * 3600 / step) * step / 3600.0 + off
            if -80.0 <= nlat <= 84.0 and -180.0 <= nlon < 180.0 and (zone == 0 or abs(nlon - lon) < 1.0):
                lat, lon = nlat, nlon
                kind = 'near-whole-unit'
    api = 'geo2grid'
    if coordapi and zone == 0 and rnd.random() < 0.12:
        api = 'CoordGeo.tm'
    rep = None
    if argt == 'float':
        # the same position delivered another way (int, numpy scalars, a float subclass); whole degrees for the integer kinds
        rep = core.choose_rep(rnd)
        if core.rep_wants_integers(rep):
            nlat, nlon = float(round(lat)), float(round(lon))
            if nlon >= 180.0:
                nlon = -180.0
            okz = zone == 0 or abs(core.wrap180(nlon - central_meridian(prj, zone))) <= MAXDL
            if -80.0 <= nlat <= 84.0 and okz and (zone != 0 or any(lo_ <= nlon < hi_ for lo_, hi_ in zone_coverage(prj))):
                lat, lon = nlat, nlon
                kind = 'whole-degrees'
    case = {'mode': 'geo', 'ell': ell, 'prj': prj, 'lat': lat, 'lon': lon, 'zone': zone,
            'argt': argt, 'api': api, 'kind': kind}
    if rep:
        case['rep'] = rep
    return case


def rectifying_radius(a, invf):
    """Radius of the sphere with the meridian length of the ellipsoid (series in the third flattening to n^8; used only to PLACE
    workload points, never to judge)."""
    f = 1.0 / invf
    n = f / (2.0 - f)
    n2 = n * n
    return a / (1.0 + n) * (1.0 + n2 / 4.0 + n2 * n2 / 64.0 + n2 ** 3 / 256.0 + 25.0 * n2 ** 4 / 16384.0)


SERIES_ZERO_FRACTIONS = sorted({(j, 2 * r) for r in range(1, 9) for j in range(1, r)} | {(j, 16) for j in range(1, 8)},
                               key=lambda jr: jr[0] / jr[1])


def series_zero_y(rnd, a, invf, k0):
    """A distance from the equator along the central meridian at which one of the trigonometric factors sin(2r xi), cos(2r xi)
    of the Krueger series (r = 1..8) vanishes - xi = j pi / (4 r) - plus an offset from a millimetre to a few kilometres.  A
    series that is cut short "when the term is small" is cut there by the vanishing factor, not by the coefficient."""
    j, d = rnd.choice(SERIES_ZERO_FRACTIONS)
    xi = math.pi * j / d / 2.0 if rnd.random() < 0.5 else math.pi * j / d
    xi = xi % (math.pi / 2)
    off = rnd.choice([0.0, 1, -1, 1, -1]) * 10 ** rnd.uniform(-3, 3.6)
    return k0 * rectifying_radius(a, invf) * xi + off


def geo_from_gauss_schreiber(xi1, eta1, invf):
    """Latitude and longitude difference (degrees) of the point whose Gauss-Schreiber coordinates - the arguments of the forward
    Krueger series - are (xi', eta').  Used only to PLACE workload points on the zeros of the series' factors."""
    f = 1.0 / invf
    e = math.sqrt(f * (2.0 - f))
    tp = math.sin(xi1) / math.sqrt(math.sinh(eta1) ** 2 + math.cos(xi1) ** 2)
    lam = math.atan2(math.sinh(eta1), math.cos(xi1))
    t = tp
    for _ in range(8):
        sg = math.sinh(e * math.atanh(e * t / math.sqrt(1.0 + t * t)))
        g = t * math.sqrt(1.0 + sg * sg) - sg * math.sqrt(1.0 + t * t) - tp
        dg = (math.sqrt(1.0 + sg * sg) * math.sqrt(1.0 + t * t) - sg * t) * (1.0 - e * e) * math.sqrt(1.0 + t * t) / (1.0 + (1.0 - e * e) * t * t)
        t -= g / dg
    return math.degrees(math.atan(t)), math.degrees(lam)


def gen_grid_case(rnd, ns=None):
    """A grid coordinate drawn directly on a lattice (mm lattice; a share on whole metres / 100 km)."""
    ell = rand_ell(rnd)
    prj = rand_prj(rnd)
    if prj == 'isg' and rnd.random() < 0.8:
        ell = 'ans'
    fe, fn, k0, zw, icm = prj_published(prj)
    zone = rnd.choice(zones_of(prj))
    hemi = rnd.choice(['north', 'south', 'North', 'South', 'north', 'south', 'NORTH', 'SOUTH'])
    a, invf = ell_published(ell)
    r = rnd.random()
    kind = 'lattice'
    if r < 0.55:
        # choose a geographic target first, project with the oracle, snap to lattice
        lat = abs(rand_lat(rnd))
        lat = min(max(lat, 2e-6), 79.9999)
        if hemi.lower() == 'north':
            lat = min(lat * 84.0 / 80.0, 83.9999)
        a_, b_ = rnd.choice(DL_BINS)
        dl = rnd.uniform(a_, b_) * rnd.choice([1, -1])
        x, y, _, _ = tm.forward(lat if hemi.lower() == 'north' else -lat, dl, a, invf, k0)
        east = x + fe
        north = y + (0.0 if hemi.lower() == 'north' else fn)
        q = rnd.choice([0.0001, 0.001, 1.0, 1000.0])
        east = round(round(east / q) * q, 4)
        north = round(round(north / q) * q, 4)
    elif r < 0.63:
        kind = 'series-zero'
        a_, b_ = rnd.choice(DL_BINS)
        y = series_zero_y(rnd, a, invf, k0)
        east = round(fe + rnd.choice([1, -1]) * rnd.uniform(a_, b_) * 111000.0 * k0 * math.cos(min(y / 6.4e6, 1.4)), 4)
        north = round(y if hemi.lower() == 'north' else fn - y, 4)
    elif r < 0.9:
        east = round(rnd.uniform(-2830000.0, 3830000.0), rnd.choice([0, 3, 4]))
        north = round(rnd.uniform(0.0, 10000000.0), rnd.choice([0, 3, 4]))
    else:
        kind = 'axis'
        east = rnd.choice([fe, fe, round(rnd.uniform(max(-2.83e6, fe - 3e6), min(3.83e6, fe + 3e6)), 3),
                           -2830000.0, 3830000.0, 100000.0, 900000.0])
        north = rnd.choice([0.0, 10000000.0, fn, round(rnd.uniform(0, 1e7), 3)])
        if hemi.lower() == 'south' and rnd.random() < 0.5:
            north = min(max(fn - rnd.choice([0.0, 0.0001, 1.0, 100.0]), 0.0), 1e7)
        if hemi.lower() == 'north' and rnd.random() < 0.5:
            north = rnd.choice([0.0, 0.0001, 1.0, 100.0])
    case = {'mode': 'grid', 'ell': ell, 'prj': prj, 'zone': zone, 'east': east, 'north': north,
            'hemi': hemi, 'kind': kind}
    rep = core.choose_rep(rnd)
    if rep:
        case['rep'] = rep
        if core.rep_wants_integers(rep):
            case['east'], case['north'] = float(round(east)), float(round(north))
    return case


# ---------------------------------------------------------------------------------------------
# judges
# ---------------------------------------------------------------------------------------------
def _bin(x, edges):
    for i, e in enumerate(edges):
        if x <= e:
            return i
    return len(edges)


def bucket_geo(ctx, case, lat, dl):
    ctx.bucket('geo', case['ell'] if isinstance(case['ell'], str) else 'custom-ell',
               case['prj'] if isinstance(case['prj'], str) else 'custom-prj',
               'S' if lat < 0 else 'N', 'auto' if case['zone'] == 0 else 'explicit',
               _bin(abs(dl), [0.01, 1, 3, 6, 12, 20, 30]), _bin(abs(lat), [1e-6, 1, 30, 60, 77, 84]),
               case.get('rep') or case.get('argt', 'float'), case.get('api', 'geo2grid'), 'W' if dl < 0 else 'E')
    if case.get('rep'):
        ctx.count('argument_representation:' + case['rep'])


_standalone = {}


def standalone_module(ns):
    root = ns.root
    if root not in _standalone:
        path = root + '/Standalone/mga2gda.py'
        spec = importlib.util.spec_from_file_location('mga2gda_under_test', path)
        mod = importlib.util.module_from_spec(spec)
        import decimal
        with decimal.localcontext(decimal.Context(prec=28)):     # the program computes its constants in Decimal when it starts
            spec.loader.exec_module(mod)
        _standalone[root] = mod
    return _standalone[root]


def denoted_args(ns, case):
    """Build the lat/lon arguments in the requested notation; return (lat_arg, lon_arg, lat_float, lon_float)
    where the floats are the values the arguments *denote* (exact rational, rounded once)."""
    argt = case.get('argt', 'float')
    if argt == 'float':
        la, lo = core.rep_values(case.get('rep'), case['lat'], case['lon'])
        return la, lo, float(case['lat']), float(case['lon'])
    try:
        la = ax.make_object(ns.angles, argt, case['lat'])
        lo = ax.make_object(ns.angles, argt, case['lon'])
    except ValueError:
        # the notation's constructor refused the value (that is C08's business); the case does not exist
        return None
    dla, dlo = ax.denote(la), ax.denote(lo)
    if dla is None or dlo is None:
        raise core.Inconclusive('harness built an invalid HP numeral for %r' % (case,))
    return la, lo, float(dla), float(dlo)


def in_c01_domain(case, latf, lonf):
    if not (-80.0 <= latf <= 84.0 and -180.0 <= lonf < 180.0):
        return False
    if case['zone'] != 0:
        cm = central_meridian(case['prj'], case['zone'])
        if abs(core.wrap180(lonf - cm)) > MAXDL:
            return False
    else:
        # ISG has only ten zones: the outer end of its coverage has no neighbouring zone, and the property
        # says nothing about which (non-existent) zone the last ulp below it belongs to -> don't-care.
        # The same holds at both ends of a user-defined projection's coverage, and for angle-class arguments
        # whose denoted value sits within an ulp of an end.  Only UTM with float arguments covers the whole
        # circle with exactly representable ends (-180 -> zone 1), and is judged right up to them.
        slack = 0.0 if (case['prj'] == 'utm' and case.get('argt', 'float') == 'float') else 1e-9
        if not any(lo + slack <= lonf < hi - slack for lo, hi in zone_coverage(case['prj'])):
            return False
    return True


def call_forward(ns, case, la, lo, ell, prj):
    if case.get('api') == 'CoordGeo.tm':
        if case.get('argt', 'float') == 'float':
            # the coordinate classes document and enforce plain float / angle-class arguments: no other representation
            la, lo = float(la), float(lo)
        c = ns.coord.CoordGeo(la, lo).tm(ell, prj)
        hemi = 'North' if c.hemi_north else 'South'
        out = (hemi, c.zone, c.east, c.north, None, None)
        if c.projection is not prj:
            out = out + ('projection-object-changed',)
        return out
    _, shape = core.delivery_of(case)
    r = core.case_rnd(case)
    C = ns.constants

    def twin():
        # another conversion in progress elsewhere: other position, other ellipsoid / projection
        if r.random() < 0.5:
            ns.convert.geo2grid(r.uniform(-79, 83), r.uniform(-179, 179), 0, r.choice([C.grs80, C.ans, C.wgs84]))
        else:
            ns.convert.grid2geo(r.randint(1, 60), r.uniform(2e5, 8e5), r.uniform(1e6, 9e6), r.choice(['south', 'north']), r.choice([C.grs80, C.ans]))
    return core.maybe_interleaved(_CTX[0], case, twin, lambda: core.shaped_call(
        ns.convert.geo2grid, ['lat', 'lon', 'zone', 'ellipsoid', 'prj'],
        [la, lo, core.rep_value(case.get('rep'), case['zone']), ell, prj], shape, _defaults_left_out(ns, case, shape, ell, prj)), kmax=70) \
        if _CTX[0] is not None else core.shaped_call(
        ns.convert.geo2grid, ['lat', 'lon', 'zone', 'ellipsoid', 'prj'],
        [la, lo, core.rep_value(case.get('rep'), case['zone']), ell, prj], shape, _defaults_left_out(ns, case, shape, ell, prj))


_CTX = [None]      # the running shard's context (set by the judges), for the interleaving counters


def _defaults_left_out(ns, case, shape, ell, prj, hemi=None):
    """With keyword delivery, arguments that are the documented defaults (GRS80, UTM, southern hemisphere) are left out."""
    if not shape:
        return ()
    C = ns.constants
    return tuple(n for n, d in (('ellipsoid', ell is C.grs80), ('prj', prj is C.utm), ('hemisphere', hemi == 'south')) if d)


def call_inverse(ns, case, zone, east, north, hemi, ell, prj, tag='inverse'):
    _, shape = core.delivery_of([case, tag])
    r = core.case_rnd([case, tag])
    C = ns.constants

    def twin():
        if r.random() < 0.5:
            ns.convert.geo2grid(r.uniform(-79, 83), r.uniform(-179, 179), 0, r.choice([C.grs80, C.ans, C.wgs84]))
        else:
            ns.convert.grid2geo(r.randint(1, 60), r.uniform(2e5, 8e5), r.uniform(1e6, 9e6), r.choice(['south', 'north']), r.choice([C.grs80, C.ans]))

    def call():
        return core.shaped_call(ns.convert.grid2geo, ['zone', 'east', 'north', 'hemisphere', 'ellipsoid', 'prj'],
                                list(core.rep_values(case.get('rep'), zone, east, north)) + [core.fresh_str(hemi), ell, prj], shape,
                                _defaults_left_out(ns, case, shape, ell, prj, hemi))
    return core.maybe_interleaved(_CTX[0], [case, tag], twin, call, kmax=90) if _CTX[0] is not None else call()


# ---------------------------------------------------------------------------------------------
# calls the properties do not speak about (rejected or meaningless arguments), made before a judged call:
# not judged, exceptions swallowed - the judged call after them must be as right as ever
# ---------------------------------------------------------------------------------------------
def gen_unjudged_calls(rnd):
    out = []
    for _ in range(rnd.choice([1, 1, 2])):
        ell = rnd.choice(['grs80', 'ans', 'wgs84', 'intl24', [6378200.0, 299.5]])
        prj = rnd.choice(['utm', 'utm', 'isg', [400000.0, 0.0, 0.9999, 3.0, -178.5]])
        if rnd.random() < 0.3:
            # a valid call on a figure far from the Earth's (a sphere in all but name, a planet-like flattening, a unit
            # sphere): right or wrong, it must leave nothing behind for the judged call that follows
            ell = rnd.choice([[6371008.8, 1e15], [6371000.0, 1e9], [6378137.0, 50.0], [1.0, 298.257], [3396190.0, 169.8]])
            if rnd.random() < 0.5:
                out.append({'fn': 'geo2grid', 'args': [rnd.uniform(-79, 83), rnd.uniform(-179, 179), 0], 'ell': ell, 'prj': 'utm'})
            else:
                out.append({'fn': 'grid2geo', 'args': [rnd.randint(1, 60), rnd.uniform(4e5, 6e5), rnd.uniform(0.0, 1.0) * (1e7 if ell[0] > 6e6 else 1.5), 'south'],
                            'ell': ell, 'prj': 'utm'})
            continue
        if rnd.random() < 0.5:
            lat = rnd.choice([85.0, -80.5, 90.0, float('nan'), 'x', rnd.uniform(-80, 84)])
            lon = rnd.choice([181.0, -180.5, 360.0, float('nan'), rnd.uniform(-180, 180), rnd.uniform(140, 155)])
            zone = rnd.choice([61, -1, 999, 540, 573, 0, 56, 561, 1.5])
            out.append({'fn': 'geo2grid', 'args': [lat, lon, zone], 'ell': ell, 'prj': prj})
        else:
            zone = rnd.choice([0, 61, -3, 999, 540, 573, 56, 561, 'x'])
            east = rnd.choice([-1e7, 2e7, float('nan'), 500000.0, rnd.uniform(1e5, 9e5)])
            north = rnd.choice([-5.0, 2e7, float('nan'), rnd.uniform(0, 1e7)])
            hemi = rnd.choice(['south', 'north', 'East', '', None, 0])
            out.append({'fn': 'grid2geo', 'args': [zone, east, north, hemi], 'ell': ell, 'prj': prj})
    return out


def run_unjudged_calls(ns, ctx, case):
    for call in case.get('before') or ():
        core.unjudged(ctx, getattr(ns.convert, call['fn']), *call['args'], ell_obj(ns, call['ell']), prj_obj(ns, call['prj']))


def judge_forward(ns, ctx, case, aspects):
    """aspects: subset of {'F' (C01 exactness/zone/hemisphere), 'K' (C10 psf/conv of forward),
    'RT' (C02 geo->grid->geo), 'KI' (C10 inverse psf/conv and forward/inverse agreement)}.
    Returns the library result (or None)."""
    _CTX[0] = ctx
    run_unjudged_calls(ns, ctx, case)
    ell = ell_obj(ns, case['ell'])
    prj = prj_obj(ns, case['prj'])
    a, invf = ell_published(case['ell'])
    fe, fn, k0, zw, icm = prj_published(case['prj'])
    da = denoted_args(ns, case)
    if da is None:
        ctx.count('argument_object_not_constructible')
        return None
    la, lo, latf, lonf = da
    if not in_c01_domain(case, latf, lonf):
        ctx.count('out_of_domain')
        return None
    with warnings.catch_warnings():
        warnings.simplefilter('ignore')
        try:
            res = call_forward(ns, case, la, lo, ell, prj)
        except Exception as e:  # in-domain input must not raise
            ctx.judged()
            ctx.violation('forward-exception', case, {'exception': repr(e)})
            return None
    ctx.judged()
    hemi, zone, east, north, psf, conv = res[:6]
    # --- zone ---
    ok_zone = True
    if case['zone'] == 0:
        valid = zone in ISG_ZONES if case['prj'] == 'isg' else (isinstance(zone, int) and 1 <= zone <= 60)
        if not valid:
            ok_zone = False
            if 'F' in aspects:
                ctx.violation('auto-zone-out-of-range', case, {'zone': zone})
        else:
            cm = central_meridian(case['prj'], zone)
            if abs(lonf - cm) > zw / 2.0 + 1e-9:
                ok_zone = False
                if 'F' in aspects:
                    ctx.violation('auto-zone-not-nearest', case, {'zone': zone, 'cm': cm, 'lon': lonf})
    else:
        if zone != case['zone']:
            ok_zone = False
            if 'F' in aspects:
                ctx.violation('explicit-zone-changed', case, {'zone': zone})
    if not ok_zone:
        return res
    cm = central_meridian(case['prj'], zone)
    dl = lonf - cm
    if case['zone'] != 0 and abs(dl) > 180.0:
        dl = core.wrap180(dl)
        ctx.count('across_antimeridian_cases')
    bucket_geo(ctx, case, latf, dl)
    x, y, k, gam = tm.forward(latf, dl, a, invf, k0)
    # --- hemisphere / false northing ---
    if latf < 0:
        exp_hemi = ('South',)
    elif latf > 0:
        exp_hemi = ('North',)
    else:
        exp_hemi = ('North', 'South')
    if 'F' in aspects:
        if hemi not in exp_hemi:
            ctx.violation('hemisphere-label', case, {'hemi': hemi, 'lat': latf})
        E = x + fe
        N = y + (fn if hemi == 'South' else 0.0)
        dE, dN = abs(east - E), abs(north - N)
        okE = ctx.ratio('C01.dE', dE, TOL_EN)
        okN = ctx.ratio('C01.dN', dN, TOL_EN)
        if not (okE and okN):
            mech = 'forward-EN'
            if len(res) > 6:
                mech = 'forward-EN'
            ctx.violation(mech, case, {'east': east, 'north': north, 'oracle_east': E, 'oracle_north': N,
                                       'dE': dE, 'dN': dN, 'zone': zone, 'hemi': hemi})
        if len(res) > 6:
            ctx.violation('coord-projection-object-changed', case, {'note': res[6]})
    if 'K' in aspects and psf is not None:
        ctx.count('psfconv_forward')
        okk = ctx.ratio('C10.fwd.psf', abs(psf - k), TOL_PSF)
        okg = ctx.ratio('C10.fwd.conv', abs(conv - gam), TOL_CONV)
        if not okk:
            ctx.violation('forward-psf', case, {'psf': psf, 'oracle': k, 'diff': psf - k})
        if not okg:
            mech = 'forward-conv-sign' if abs(conv + gam) <= TOL_CONV and abs(gam) > TOL_CONV else 'forward-conv'
            ctx.violation(mech, case, {'conv': conv, 'oracle': gam, 'diff': conv - gam})
    if ('RT' in aspects or 'KI' in aspects):
        if not (0.0 <= north <= 10000000.0 and -2830000.0 <= east <= 3830000.0):
            ctx.count('inverse_domain_rejects')
            return res
        with warnings.catch_warnings():
            warnings.simplefilter('ignore')
            try:
                inv = call_inverse(ns, case, zone, east, north, hemi, ell, prj, 'inverse-of-forward')
            except Exception as e:
                if 'RT' in aspects:
                    ctx.violation('inverse-exception', case, {'exception': repr(e), 'grid': [zone, east, north, hemi]})
                return res
        lat2, lon2, psf2, conv2 = inv
        if 'RT' in aspects:
            ctx.count('roundtrip_geo')
            arc = math.hypot(lat2 - latf, core.wrap180(lon2 - lonf) * math.cos(math.radians(latf)))
            if not ctx.ratio('C02.geo-roundtrip-arc', arc, TOL_ARC):
                ctx.violation('geo-roundtrip', case, {'lat': latf, 'lon': lonf, 'back': [lat2, lon2], 'arc_deg': arc})
        if 'KI' in aspects:
            ctx.count('psfconv_inverse')
            # oracle at the grid point actually given to the inverse
            xo = east - fe
            yo = north - (fn if hemi == 'South' else 0.0)
            la_o, dl_o, k_o, g_o = tm.inverse(xo, yo, a, invf, k0)
            okk = ctx.ratio('C10.inv.psf', abs(psf2 - k_o), TOL_PSF)
            okg = ctx.ratio('C10.inv.conv', abs(conv2 - g_o), TOL_CONV)
            if not okk:
                ctx.violation('inverse-psf', case, {'psf': psf2, 'oracle': k_o, 'grid': [zone, east, north, hemi]})
            if not okg:
                mech = 'inverse-conv-sign' if abs(conv2 + g_o) <= TOL_CONV and abs(g_o) > TOL_CONV else 'inverse-conv'
                ctx.violation(mech, case, {'conv': conv2, 'oracle': g_o, 'grid': [zone, east, north, hemi]})
            # forward and inverse report the same two values for the same point
            if -80.0 <= lat2 <= 84.0 and -180.0 <= lon2 <= 180.0:
                with warnings.catch_warnings():
                    warnings.simplefilter('ignore')
                    try:
                        f2 = ns.convert.geo2grid(lat2, lon2, zone, ell, prj)
                    except Exception as e:
                        ctx.violation('forward-exception', case, {'exception': repr(e), 'at': [lat2, lon2, zone]})
                        f2 = None
                if f2 is not None:
                    ctx.count('psfconv_agreement')
                    if not ctx.ratio('C10.agree.psf', abs(f2[4] - psf2), 2 * TOL_PSF) or \
                            not ctx.ratio('C10.agree.conv', abs(f2[5] - conv2), 2 * TOL_CONV):
                        ctx.violation('forward-inverse-disagree', case,
                                      {'forward': [f2[4], f2[5]], 'inverse': [psf2, conv2]})
    return res


def judge_grid(ns, ctx, case, aspects):
    """Grid-lattice case.  aspects: 'I' (C02 inverse vs oracle + round trip + mirror + stand-alone),
    'KI' (C10 psf/conv of the inverse)."""
    _CTX[0] = ctx
    run_unjudged_calls(ns, ctx, case)
    ell = ell_obj(ns, case['ell'])
    prj = prj_obj(ns, case['prj'])
    a, invf = ell_published(case['ell'])
    fe, fn, k0, zw, icm = prj_published(case['prj'])
    zone, east, north, hemi = case['zone'], case['east'], case['north'], case['hemi']
    south = hemi.lower() == 'south'
    # is this a valid grid coordinate of the quantified domain?  decided by the oracle
    if not (0.0 <= north <= 1e7 and -2830000.0 <= east <= 3830000.0):
        ctx.count('out_of_domain')
        return None
    xo = east - fe
    yo = north - (fn if south else 0.0)
    try:
        la_o, dl_o, k_o, g_o = tm.inverse(xo, yo, a, invf, k0)
    except (ValueError, OverflowError, ZeroDivisionError):
        ctx.count('out_of_domain')
        return None
    cm = central_meridian(case['prj'], zone)
    lon_o = cm + dl_o
    lo_lat, hi_lat = -80.0 + 1e-6, 84.0 - 1e-6
    if not (lo_lat <= la_o <= hi_lat) or abs(dl_o) > MAXDL or not (-180.0 <= lon_o <= 180.0):
        ctx.count('out_of_domain')
        return None
    # the hemisphere flag must agree with the side of the equator the coordinate lies on
    if (south and la_o > 0) or ((not south) and la_o < 0):
        ctx.count('out_of_domain')
        return None
    with warnings.catch_warnings():
        warnings.simplefilter('ignore')
        try:
            lat, lon, psf, conv = call_inverse(ns, case, zone, east, north, hemi, ell, prj)
        except Exception as e:
            ctx.judged()
            ctx.violation('inverse-exception', case, {'exception': repr(e)})
            return None
    ctx.judged()
    ctx.bucket('grid', case['ell'] if isinstance(case['ell'], str) else 'custom-ell',
               case['prj'] if isinstance(case['prj'], str) else 'custom-prj',
               'S' if south else 'N', _bin(abs(dl_o), [0.01, 1, 3, 6, 12, 20, 30]),
               _bin(abs(la_o), [1e-3, 1, 30, 60, 77, 84]), 'W' if dl_o < 0 else 'E', case.get('kind'), case.get('rep'))
    if case.get('rep'):
        ctx.count('argument_representation:' + case['rep'])
    if 'I' in aspects:
        arc = math.hypot(lat - la_o, (lon - lon_o) * math.cos(math.radians(la_o)))
        if not ctx.ratio('C02.inverse-vs-oracle-arc', arc, TOL_ARC):
            ctx.violation('inverse-vs-oracle', case, {'lib': [lat, lon], 'oracle': [la_o, lon_o], 'arc_deg': arc})
        # back to grid
        if -80.0 <= lat <= 84.0 and -180.0 <= lon <= 180.0:
            with warnings.catch_warnings():
                warnings.simplefilter('ignore')
                try:
                    h2, z2, e2, n2, _, _ = ns.convert.geo2grid(lat, lon, zone, ell, prj)
                except Exception as e:
                    ctx.violation('forward-exception', case, {'exception': repr(e), 'at': [lat, lon, zone]})
                    h2 = None
            if h2 is not None:
                ctx.count('roundtrip_grid')
                dE = abs(e2 - east)
                if lat == 0 and h2.lower() != hemi.lower():
                    # on the equator (South, FN) and (North, 0) are the same grid position
                    dN = abs((n2 - (fn if h2 == 'South' else 0.0)) - yo)
                else:
                    dN = abs(n2 - north)
                ok = ctx.ratio('C02.grid-roundtrip', max(dE, dN), TOL_EN)
                if not ok or (h2.lower() != hemi.lower() and lat != 0):
                    ctx.violation('grid-roundtrip', case, {'back': [h2, z2, e2, n2], 'dE': dE, 'dN': dN})
        # the same inverse through the coordinate class, in one of the six notations
        if not case.get('rep') and all(type(v) is float for v in (east, north)) and type(zone) is int:
            NOT = ['float', 'DECAngle', 'HPAngle', 'GONAngle', 'DMSAngle', 'DDMAngle']
            nt = NOT[int(core.stable_hash(['tmgeo', case.get('zone'), case.get('east'), case.get('north')]), 16) % 6]
            ncl = float if nt == 'float' else getattr(ns.angles, nt)
            with warnings.catch_warnings():
                warnings.simplefilter('ignore')
                try:
                    g = ns.coord.CoordTM(zone, east, north, hemi_north=not south, projection=prj).geo(ell, ncl)
                    ctx.count('inverse_through_coordinate_class')
                    from .oracles import angle as _ax
                    dla, dlo = _ax.denote(g.lat), _ax.denote(g.lon)
                    tn = 'float' if type(g.lat) is float else type(g.lat).__name__
                    if tn != nt or dla is None or dlo is None or max(abs(float(dla) - lat), abs(float(dlo) - lon)) > 1e-11 \
                            or _ax.float_value_mismatch(g.lat) or _ax.float_value_mismatch(g.lon):
                        ctx.violation('object-inverse-differs:' + nt, case, {'object': [repr(g.lat), repr(g.lon)], 'function': [lat, lon], 'notation': nt})
                except Exception as e:
                    ctx.violation('object-inverse-exception', case, {'exception': repr(e), 'notation': nt})
        # mirror image in the other hemisphere
        if south:
            n_m = fn - north
            hemi_m = 'north'
        else:
            n_m = fn - north
            hemi_m = 'south'
        if 0.0 <= n_m <= 1e7 and float(fn - n_m) == float(north):
            with warnings.catch_warnings():
                warnings.simplefilter('ignore')
                try:
                    lat_m, lon_m, psf_m, conv_m = call_inverse(ns, case, zone, east, n_m, hemi_m, ell, prj, 'mirror')
                    ctx.count('mirror')
                    d = max(abs(lat_m + lat), abs(lon_m - lon))
                    if not ctx.ratio('C02.mirror', d, 1.5e-11):
                        ctx.violation('mirror', case, {'this': [lat, lon], 'mirror': [lat_m, lon_m], 'n_m': n_m})
                except Exception as e:
                    ctx.violation('inverse-exception', case, {'exception': repr(e), 'mirror_north': n_m})
        # stand-alone converter: southern-hemisphere UTM on GRS80
        if south and case['prj'] == 'utm' and case['ell'] == 'grs80':
            sa = standalone_module(ns)
            try:
                la_s, lo_s = sa.grid2geo(zone, east, north)
                ctx.count('standalone')
                d = max(abs(la_s - lat), abs(core.wrap180(lo_s - lon)))       # the same meridian, however it is numbered
                if not ctx.ratio('C02.standalone', d, 1e-10):
                    ctx.violation('standalone-differs', case, {'standalone': [la_s, lo_s], 'library': [lat, lon]})
            except Exception as e:
                ctx.violation('standalone-exception', case, {'exception': repr(e)})
    if 'KI' in aspects:
        ctx.count('psfconv_inverse')
        if not ctx.ratio('C10.inv.psf', abs(psf - k_o), TOL_PSF):
            ctx.violation('inverse-psf', case, {'psf': psf, 'oracle': k_o})
        if not ctx.ratio('C10.inv.conv', abs(conv - g_o), TOL_CONV):
            mech = 'inverse-conv-sign' if abs(conv + g_o) <= TOL_CONV and abs(g_o) > TOL_CONV else 'inverse-conv'
            ctx.violation(mech, case, {'conv': conv, 'oracle': g_o})
    return lat, lon, psf, conv


def tm_selfcheck(ctx, n_mp=4):
    try:
        res = tm.self_check(n_mp=n_mp, seed=ctx.seed + 1)
    except AssertionError as e:
        raise core.Inconclusive('tm_exact failed its self-validation: %r' % (e,))
    ctx.info['oracle_selfcheck'] = {k: float('%.3g' % v) for k, v in res.items()}
    return res


def reach_setup(ns):
    r = core.LineReach()
    for fn in (ns.convert.geo2grid, ns.convert.grid2geo, ns.convert.psfandgridconv,
               ns.convert.rect_radius, ns.convert.alpha_coeff, ns.convert.beta_coeff):
        r.watch(fn)
    r.start()
    return r


def lattice_cases(part, parts, ell='grs80'):
    """Deterministic 1 deg x 1 deg lattice (lat -80..84, lon -180..179) x three zone modes (automatic, the natural zone + 1,
    the natural zone - 4: |lon - CM| up to ~27 deg), UTM.  Complements the random strata in the thorough tier."""
    lats = list(range(-80, 85))
    for lat in lats[part::parts]:
        for lon in range(-180, 180):
            nat = int((lon + 186.0) / 6.0)
            for mode in (0, nat + 1, nat - 4):
                if mode != 0 and not (1 <= mode <= 60):
                    continue
                yield {'mode': 'geo', 'ell': ell, 'prj': 'utm', 'lat': float(lat), 'lon': float(lon), 'zone': mode,
                       'argt': 'float', 'api': 'geo2grid', 'kind': 'lattice'}


# ---------------------------------------------------------------------------------------------
# aliasing sequences: the same call repeated with exactly one configuration element changed.  A cache keyed on too
# little (1/f without the semi-major axis, the ellipsoid without the projection, coordinates without the hemisphere ...)
# answers the second call with the first call's constants; only such a *sequence* shows it.
# ---------------------------------------------------------------------------------------------
SAME_INVF = {'grs80': [6378135.0, 298.257222101], 'wgs84': [6378145.0, 298.257223563], 'ans': [6378145.0, 298.25],
             'intl24': [6378270.0, 297.0]}


def alias_ell(rnd, ell):
    """another ellipsoid for the same call: same 1/f with a different semi-major axis, same a with a different 1/f, or
    another shipped one"""
    r = rnd.random()
    a, invf = ell_published(ell)
    if r < 0.45:
        if isinstance(ell, str):
            return SAME_INVF[ell]
        return [a + rnd.choice([-1, 1]) * rnd.choice([100.0, 2500.0, 40000.0]), invf] if 6.3e6 <= a + 40000 <= 6.4e6 or True else ell
    if r < 0.65:
        return [a, min(400.0, max(150.0, invf + rnd.choice([-1, 1]) * rnd.choice([0.5, 3.0, 40.0])))]
    return rnd.choice([e for e in SHIPPED_ELL if e != ell] or ['grs80'])


def alias_geo_case(rnd, case):
    c = dict(case)
    r = rnd.random()
    if r < 0.7:
        c['ell'] = alias_ell(rnd, case['ell'])
        a = c['ell'][0] if not isinstance(c['ell'], str) else 6378137.0
        if not (6.3e6 <= a <= 6.4e6):
            c['ell'] = alias_ell(rnd, 'grs80')
    elif r < 0.85 and case['prj'] != 'isg':
        # same ellipsoid, same position, another projection definition of the same zone layout
        fe, fn, k0, zw, icm = prj_published(case['prj'])
        c['prj'] = [fe + rnd.choice([0.0, 1000.0]), fn, rnd.choice([0.9999, 1.0, 0.9992]), zw, icm]
    else:
        c['argt'] = rnd.choice(ax.ARG_TYPES)
    c['kind'] = 'alias'
    c['api'] = 'geo2grid' if c.get('zone') else c.get('api', 'geo2grid')
    return c


def alias_grid_case(rnd, case):
    c = dict(case)
    r = rnd.random()
    if r < 0.6:
        c['ell'] = alias_ell(rnd, case['ell'])
        a = c['ell'][0] if not isinstance(c['ell'], str) else 6378137.0
        if not (6.3e6 <= a <= 6.4e6):
            c['ell'] = alias_ell(rnd, 'grs80')
    else:
        # the same numbers in the other hemisphere (a different ground point; valid when inside the band)
        c['hemi'] = 'north' if case['hemi'].lower() == 'south' else 'south'
    c['kind'] = 'alias'
    return c


def near_axis_grid_case(rnd):
    """grid coordinates a hair off the central meridian / the equator (not on them)"""
    c = gen_grid_case(rnd)
    fe, fn, k0, zw, icm = prj_published(c['prj'])
    d = rnd.choice([1, -1]) * 10 ** rnd.uniform(-4, 0.5)
    if rnd.random() < 0.7:
        c['east'] = round(fe + d, 4)
    else:
        south = c['hemi'].lower() == 'south'
        c['north'] = round((fn - abs(d)) if south else abs(d), 4)
        c['north'] = min(max(c['north'], 0.0), 1e7)
    c['kind'] = 'near-axis'
    return c


# ---------------------------------------------------------------------------------------------
# the stand-alone converter as it is used: a csv file in, a csv file out (grid2geoio)
# ---------------------------------------------------------------------------------------------
def judge_standalone_batch(ns, ctx, rnd, n):
    """Runs the batch entry point of Standalone/mga2gda.py on a csv file of southern-hemisphere UTM coordinates (point id, zone,
    easting, northing; no header line) in a scratch directory and compares every row of <file>_out.csv - latitude and
    longitude in HP notation, as the program writes them - with the library's grid2geo.  The HP numbers are read at the
    notation's resolution; a seconds field of 60 is read as a carry (the program does not normalise its output; the statement
    is about the angles)."""
    sa = standalone_module(ns)
    if not hasattr(sa, 'grid2geoio'):
        ctx.count('standalone_batch_entry_point_absent')
        return
    rows = []
    for i in range(n * 3):
        c = gen_grid_case(rnd)
        zone = rnd.randint(1, 60)
        east, north = c['east'], c['north']
        with warnings.catch_warnings():
            warnings.simplefilter('ignore')
            try:
                lat, lon, _, _ = ns.convert.grid2geo(zone, east, north, 'south')
            except Exception:
                continue
        if not (-80.0 < lat < -1e-6) or not (-180.0 <= lon <= 180.0) or abs(lon - (zone * 6 - 183)) > MAXDL:
            continue
        # how the numbers are written in the file: repr, a fixed number of decimals, integers for whole metres
        style = rnd.choice(['repr', 'fixed', 'int-if-whole'])
        def txt(v):
            if style == 'fixed':
                return '%.4f' % v
            if style == 'int-if-whole' and float(v).is_integer():
                return '%d' % v
            return repr(float(v))
        east, north = float(txt(east)), float(txt(north))
        with warnings.catch_warnings():
            warnings.simplefilter('ignore')
            try:
                lat, lon, _, _ = ns.convert.grid2geo(zone, east, north, 'south')
            except Exception:
                continue
        rows.append([('P%d' % len(rows)) if rnd.random() < 0.8 else ('pt %d, a' % len(rows)), zone, txt(east), txt(north)])
        if len(rows) >= n:
            break
    if rows:
        run_standalone_rows(ns, ctx, rows)


def run_standalone_rows(ns, ctx, rows4):
    import csv
    import os
    import tempfile
    sa = standalone_module(ns)
    rows = []
    for pid, zone, e_txt, n_txt in rows4:
        with warnings.catch_warnings():
            warnings.simplefilter('ignore')
            lat, lon, _, _ = ns.convert.grid2geo(int(zone), float(e_txt), float(n_txt), 'south')
        rows.append((pid, zone, e_txt, n_txt, lat, lon))
    with tempfile.TemporaryDirectory() as d:
        fn = os.path.join(d, 'points.csv')
        with open(fn, 'w', newline='') as f:
            w = csv.writer(f)
            for r in rows:
                w.writerow([r[0], r[1], r[2], r[3]])
        case = {'mode': 'standalone-batch', 'rows': [list(r[:4]) for r in rows[:40]]}
        try:
            sa.grid2geoio(fn)
            out = list(csv.reader(open(os.path.join(d, 'points_out.csv'), newline='')))
        except Exception as e:
            ctx.judged()
            ctx.violation('standalone-batch-exception', case, {'exception': repr(e)})
            return
    ctx.count('standalone_batch_files')
    if len(out) != len(rows):
        ctx.judged()
        ctx.violation('standalone-batch-rows', case, {'rows_in': len(rows), 'rows_out': len(out)})
        return
    for r, o in zip(rows, out):
        ctx.judged()
        ctx.count('standalone_batch_rows')
        rc = {'mode': 'standalone-batch', 'rows': [list(r[:4])]}
        try:
            vals = []
            for t in o[1:3]:
                _, _, (sign, D, MM, SS) = ax.hp_read(float(t))
                if MM > 60 or SS > 60:
                    raise ValueError('minutes or seconds field above 60 in %r' % t)
                vals.append(float(sign * (D + Fraction(MM, 60) + SS / 3600)))
            ok = (o[0] == r[0] and len(o) == 3)
        except (ValueError, IndexError) as e:
            ctx.violation('standalone-batch-output-malformed', rc, {'row_out': o, 'problem': repr(e)})
            continue
        if not ok:
            ctx.violation('standalone-batch-output-malformed', rc, {'row_out': o, 'expected_id': r[0]})
            continue
        dlat, dlon = abs(vals[0] - r[4]), abs(core.wrap180(vals[1] - r[5]))
        if not ctx.ratio('C02.standalone-batch', max(dlat, dlon), 1e-10 + 3e-13):
            ctx.violation('standalone-batch-differs', rc, {'batch_output_hp': o[1:3], 'denotes_deg': vals, 'library': [r[4], r[5]]})


def regime_run(rnd):
    """One judged case preceded by a long run of valid conversions in ONE regime (positions in their own zone on one ellipsoid,
    as a bulk conversion makes them); the judged call is of another regime (an explicit zone 23..30 degrees away, perhaps
    another ellipsoid).  State that adapts to the recent history (a series length, a tolerance, a 'typical' zone) shows on the
    judged call; the run travels with the case (`before`), so a replay repeats it."""
    ell = rnd.choice(['grs80', 'grs80', 'wgs84', 'ans'])
    n = rnd.choice([70, 100, 140])
    lat0, lon0 = rnd.uniform(-60, 60), rnd.uniform(-170, 170)
    run = [{'fn': 'geo2grid', 'args': [lat0 + rnd.uniform(-3, 3), lon0 + rnd.uniform(-2.5, 2.5), 0], 'ell': ell, 'prj': 'utm'}
           for _ in range(n)]
    far = rnd.randint(1, 60)
    cm = central_meridian('utm', far)
    lon = (cm + rnd.choice([-1, 1]) * rnd.uniform(23.0, 29.9) + 180.0) % 360.0 - 180.0
    return {'mode': 'geo', 'ell': rnd.choice([ell, 'intl24', [6378388.0, 297.0]]), 'prj': 'utm', 'lat': rnd.uniform(-75, 75), 'lon': lon,
            'zone': far, 'argt': 'float', 'api': 'geo2grid', 'kind': 'after-regime-run', 'before': run}
