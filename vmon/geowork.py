"""Shared workload and judges for the geodesic family: C04 (direct), C05 (inverse); reused by C14 and C20."""
import math
import random

from . import core, tmwork
from .oracles import geod, angle as ax

EPS = 2.220446049250313e-16


def rand_ell(rnd):
    r = rnd.random()
    if r < 0.40:
        return 'grs80'
    if r < 0.50:
        return 'wgs84'
    if r < 0.60:
        return 'ans'
    if r < 0.72:
        return 'intl24'
    if r < 0.80:
        return rnd.choice([[6300000.0, 280.0], [6400000.0, 320.0], [6300000.0, 320.0], [6400000.0, 280.0]])
    return [round(rnd.uniform(6.3e6, 6.4e6), 3), round(rnd.uniform(280.0, 320.0), 6)]


def ellname(e):
    return e if isinstance(e, str) else 'custom-ell'


def wrap180(d):
    return (d + 180.0) % 360.0 - 180.0


# ---------------------------------------------------------------------------------------------
# C04
# ---------------------------------------------------------------------------------------------
def gen_direct_case(rnd):
    ell = rand_ell(rnd)
    fam = rnd.random()
    lon1 = rnd.choice([rnd.uniform(-180, 180), rnd.uniform(-180, 180), 180.0, -180.0, 0.0, 179.9999])
    kind = 'general'
    if fam < 0.55:
        lat1 = rnd.uniform(-90, 90)
        az = rnd.uniform(0, 360)
    elif fam < 0.63:
        lat1 = rnd.choice([90.0, -90.0, 89.999999, -89.999999, 90.0 - 1e-9])
        az = rnd.uniform(0, 360)
        kind = 'polar-start'
    elif fam < 0.71:
        lat1 = rnd.choice([0.0, 0.0, 1e-9, -1e-9, -0.0])
        az = rnd.choice([90.0, 270.0, rnd.uniform(0, 360)])
        kind = 'equatorial'
    elif fam < 0.81:
        lat1 = rnd.uniform(-90, 90)
        az = rnd.choice([0.0, 180.0, 360.0])
        kind = 'meridional'
    elif fam < 0.90:
        lat1 = rnd.uniform(-90, 90)
        az = rnd.choice([0.0, 90.0, 180.0, 270.0, 360.0]) + rnd.choice([0.0, 1e-9, -1e-9, 1e-6, -1e-6, 3e-8, -3e-8, 5e-8, -5e-8, 2e-7, 1e-12])
        az = min(max(az, 0.0), 360.0)
        kind = 'cardinal'
    else:
        lat1 = rnd.choice([1, -1]) * rnd.uniform(50, 89.9)
        az = rnd.choice([0.0, 180.0]) if rnd.random() < 0.5 else rnd.choice([rnd.uniform(0, 3), rnd.uniform(177, 183), rnd.uniform(357, 360)])
        kind = 'pole-crossing'
    r = rnd.random()
    if kind == 'pole-crossing':
        s = rnd.uniform(4.5e6, 2e7)
    elif r < 0.45:
        s = 10 ** rnd.uniform(-3, math.log10(2e7))
    elif r < 0.92:
        s = rnd.uniform(0, 2e7)
    else:
        s = rnd.choice([0.0, 2e7, 0.001, 1.0, 1e7, 10001965.729])
    if rnd.random() < 0.05:
        # long lines that hug the equator without lying on it (cos^2 of the equatorial azimuth from 1e-9 to 1e-3):
        # the series coefficients are tiny there but the line is long
        v = 10 ** rnd.uniform(-4.5, -1.5)
        lat1 = rnd.choice([1, -1]) * v * rnd.uniform(0.0, 1.0)
        az = rnd.choice([90.0, 270.0]) + rnd.choice([1, -1]) * v * rnd.uniform(0.0, 1.0)
        s = rnd.uniform(2e6, 2e7)
        kind = 'near-equatorial-long'
    if rnd.random() < 0.05:
        # lines whose arc on the auxiliary sphere is a multiple of 45 degrees (or whose mid-point arc 2 sigma_m is a multiple
        # of 90 degrees), a hair to a micro-radian off: the trigonometric factors of the classical series vanish there
        a_e, invf_e = tmwork.ell_published(ell)
        mid = rnd.random() < 0.4
        D0 = rnd.choice([1, 2, 3, 2, 2]) * (math.pi / 4) * (2 if mid else 1) + rnd.choice([0.0, 1, -1, 1, -1]) * 10 ** rnd.uniform(-12, -5.5)
        la_, az_ = rnd.uniform(-75, 75), rnd.uniform(0, 360)
        s_ = geod.distance_for_arc(la_, az_, D0, a_e, invf_e, two_sigma_m=mid)
        if s_ is not None and 0 < s_ <= 2e7:
            lat1, az, s, kind = la_, az_, s_, 'arc-multiple'
    if rnd.random() < 0.06:
        # lines far shorter than anything surveyed but not of zero length (a nanometre to a millimetre), oblique, at middle
        # and high latitude: the reverse azimuth still differs from azimuth + 180 by the meridian convergence over the line
        lat1 = rnd.choice([1, -1]) * rnd.uniform(30, 88.9)
        az = rnd.uniform(0, 360)
        s = 10 ** rnd.uniform(-9, -3)
        kind = 'sub-millimetre'
    argt = 'float'
    if rnd.random() < 0.2:
        argt = rnd.choice(ax.ANGLE_CLASSES)
        if rnd.random() < 0.5:
            # typed-looking values: whole minutes / seconds / tenths of a degree
            step = rnd.choice([60, 1, 360, 3600])
            lat1 = max(-90.0, min(90.0, round(lat1 * 3600 / step) * step / 3600.0))
            lon1 = max(-180.0, min(180.0, round(lon1 * 3600 / step) * step / 3600.0))
            az = max(0.0, min(360.0, round(az * 3600 / step) * step / 3600.0))
            kind = kind + '+lattice'
    case = {'ell': ell, 'lat1': lat1, 'lon1': lon1, 'az': az, 's': s, 'argt': argt, 'kind': kind}
    delivery(rnd, case, ('lat1', 'lon1', 'az', 's'), lims={'lat1': (-90, 90), 'lon1': (-180, 180), 'az': (0, 360), 's': (0, 2e7)})
    return case


def delivery(rnd, case, keys, lims):
    """How the same arguments are delivered: another numeric representation (plain-number arguments only; whole values for
    the integer kinds), by keyword, with the default ellipsoid left out."""
    if case.get('argt', 'float') == 'float':
        rep = core.choose_rep(rnd)
        if rep:
            case['rep'] = rep
            if core.rep_wants_integers(rep):
                for k in keys:
                    lo, hi = lims[k]
                    case[k] = float(min(max(round(case[k]), lo), hi))
                case['kind'] = str(case.get('kind')) + '+whole'
    shape = core.choose_shape(rnd)
    if shape:
        case['shape'] = shape
    if case['ell'] == 'grs80' and rnd.random() < 0.3:
        case['omit_default_ellipsoid'] = True
    k = core.choose_interleave(rnd)
    if k:
        # a complete other call of the same function (another line, another ellipsoid) made at the k-th statement boundary
        # inside the judged call
        case['interleave'] = {'at': k, 'twin': [rnd.uniform(-80, 80), rnd.uniform(-180, 180), rnd.uniform(-80, 80) if 'lat2' in keys else rnd.uniform(0, 360),
                                                rnd.uniform(-180, 180) if 'lat2' in keys else 10 ** rnd.uniform(0, 7)],
                              'twin_ell': rnd.choice(['grs80', 'ans', 'intl24', [6377000.0, 297.0]])}


# ---------------------------------------------------------------------------------------------
# calls a user may make that the properties do not speak about (outside the stated domain, or plainly invalid):
# their results are NOT judged, exceptions are swallowed - but a judged call made afterwards must be as right as before
# ---------------------------------------------------------------------------------------------
def gen_unjudged_calls(rnd, fn):
    out = []
    for _ in range(rnd.choice([1, 1, 2])):
        ell = rnd.choice(['grs80', 'grs80', 'wgs84', 'ans', [6378200.0, 299.5]])
        if fn == 'vincinv':
            la = rnd.choice([0.0, 0.0, rnd.uniform(-60, 60), rnd.uniform(-1, 1), 90.0])
            lo = rnd.uniform(-180, 180)
            k = rnd.random()
            if k < 0.55:      # nearly antipodal: the iteration is known not to converge there
                la2, lo2 = -la + rnd.choice([0.0, 0.3, -0.2, 0.01, rnd.uniform(-0.6, 0.6)]), lo + 180.0 - rnd.choice([0.0, 0.5, 0.2, rnd.uniform(0, 0.7)])
            elif k < 0.7:
                la2, lo2 = -la, lo + 180.0
            elif k < 0.8:
                la2, lo2 = rnd.choice([91.0, -95.0, 200.0]), lo
            elif k < 0.9:
                la2, lo2 = float('nan'), lo
            else:
                la2, lo2 = 'x', lo
            out.append({'fn': 'vincinv', 'args': [la, lo, la2, lo2], 'ell': ell})
        else:
            la = rnd.choice([rnd.uniform(-89, 89), 90.0, -90.0, 95.0])
            k = rnd.random()
            if k < 0.4:
                args = [la, rnd.uniform(-180, 180), rnd.uniform(0, 360), rnd.choice([2.1e7, 4.1e7, 1e9, -5000.0])]
            elif k < 0.6:
                args = [la, rnd.uniform(-180, 180), rnd.choice([-10.0, 361.0, 720.5]), rnd.uniform(1, 1e6)]
            elif k < 0.8:
                args = [la, rnd.uniform(-180, 180), float('nan'), rnd.uniform(1, 1e6)]
            else:
                args = [la, rnd.uniform(-180, 180), 'x', rnd.uniform(1, 1e6)]
            out.append({'fn': 'vincdir', 'args': args, 'ell': ell})
    return out


def run_unjudged_calls(ns, ctx, case):
    for call in case.get('before') or ():
        core.unjudged(ctx, getattr(ns.geodesy, call['fn']), *call['args'], tmwork.ell_obj(ns, call['ell']))


def call_geodesy(ns, ctx, case, fname, names, values):
    """The judged call, delivered the way the case says (keywords, default ellipsoid left out)."""
    omit = ('ellipsoid',) if case.get('omit_default_ellipsoid') and case['ell'] == 'grs80' else ()
    if case.get('shape'):
        ctx.count('call_shape:' + case['shape'])
    if omit:
        ctx.count('default_ellipsoid_left_out')
    if case.get('rep'):
        ctx.count('argument_representation:' + case['rep'])
    fn = getattr(ns.geodesy, fname)
    il = case.get('interleave')
    if il:
        targs = list(il['twin']) + [tmwork.ell_obj(ns, il['twin_ell'])]
        return core.interleaved(ctx, il['at'], lambda: fn(*targs),
                                lambda: core.shaped_call(fn, names, values, case.get('shape'), omit))
    return core.shaped_call(fn, names, values, case.get('shape'), omit)


def judge_direct(ns, ctx, case):
    run_unjudged_calls(ns, ctx, case)
    ell = tmwork.ell_obj(ns, case['ell'])
    a, invf = tmwork.ell_published(case['ell'])
    argt = case.get('argt', 'float')
    lat1, lon1, az, s = case['lat1'], case['lon1'], case['az'], case['s']
    args = (lat1, lon1, az)
    dlat, dlon, daz = float(lat1), float(lon1), float(az)
    if argt != 'float':
        try:
            objs = [ax.make_object(ns.angles, argt, v) for v in (lat1, lon1, az)]
        except ValueError:
            ctx.count('argument_object_not_constructible')
            return
        den = [ax.denote(o) for o in objs]
        if any(d is None for d in den):
            raise core.Inconclusive('harness built an invalid HP numeral')
        dlat, dlon, daz = (float(d) for d in den)
        args = tuple(objs)
    if not (-90.0 <= dlat <= 90.0 and 0.0 <= daz <= 360.0 and 0.0 <= s <= 2e7):
        ctx.count('out_of_domain')
        return
    ctx.judged()
    try:
        la, lo, back = call_geodesy(ns, ctx, case, 'vincdir', ('lat1', 'lon1', 'azimuth1to2', 'ell_dist', 'ellipsoid'),
                                    core.rep_values(case.get('rep'), args[0], args[1], args[2], s) + (ell,))
    except Exception as e:
        ctx.violation('vincdir:exception', case, {'exception': repr(e)})
        return
    ola, olo, oaz = geod.direct(dlat, dlon, daz, s, a, invf)
    d = geod.chord(la, lo, ola, olo, a, invf)
    ctx.bucket('direct', ellname(case['ell']), case.get('kind'), int(abs(dlat) // 30), int(daz // 90),
               -4 if s <= 0 else int(math.log10(s)) if s >= 1 else -1, argt)
    if not ctx.ratio('C04.position', d, 1e-3):
        ctx.violation('vincdir:end-point', case, {'lib': [la, lo], 'oracle': [ola, olo], 'chord_m': d})
    if abs(ola) < 89.0:
        ctx.count('reverse_azimuth_judged')
        da = abs(wrap180(back - (oaz + 180.0)))
        if not ctx.ratio('C04.reverse-azimuth', da, 1e-8):
            ctx.violation('vincdir:reverse-azimuth', case, {'lib': back, 'oracle': (oaz + 180.0) % 360.0, 'diff_deg': da})
    if argt != 'float':
        # same result as the decimal-degree values
        ctx.count('angle_class_args')
        try:
            fla, flo, fback = ns.geodesy.vincdir(dlat, dlon, daz, s, ell)
        except Exception as e:
            ctx.violation('vincdir:exception', case, {'exception': repr(e), 'with': 'float values'})
            return
        # the object's own .dec() may differ from the exactly rounded denoted value by an ulp: allow two units of the
        # output rounding plus the effect of 4 ulp on the inputs
        lever = 4 * EPS * 360.0
        if abs(fla - la) > 2e-11 + lever or abs(wrap180(flo - lo)) > 2e-11 + lever * 60 or \
                abs(wrap180(fback - back)) > 2e-9 + lever * 60:
            if abs(ola) < 89.0 or geod.chord(fla, flo, la, lo, a, invf) > 1e-6:
                ctx.violation('vincdir:angle-class-differs', case, {'objects': [la, lo, back], 'floats': [fla, flo, fback]})


# ---------------------------------------------------------------------------------------------
# C05
# ---------------------------------------------------------------------------------------------
def gen_inverse_case(rnd):
    ell = rand_ell(rnd)
    a, invf = tmwork.ell_published(ell)
    for _ in range(100):
        la1 = rnd.uniform(-90, 90)
        lo1 = rnd.uniform(-180, 180)
        m = rnd.randint(0, 12)
        kind = ['random', 'same-parallel', 'same-meridian', 'equatorial', 'polar', 'straddle-180', 'short', 'pole-crossing',
                'long', 'coincident', 'very-short', 'near-meridional', 'arc-multiple'][m]
        if m == 12:
            # the arc on the auxiliary sphere (or the mid-point arc 2 sigma_m) a multiple of 45 / 90 degrees, a hair off
            mid = rnd.random() < 0.4
            D0 = rnd.choice([1, 2, 3, 2, 2]) * (math.pi / 4) * (2 if mid else 1) + rnd.choice([0.0, 1, -1, 1, -1]) * 10 ** rnd.uniform(-12, -5.5)
            la1, az_ = rnd.uniform(-75, 75), rnd.uniform(0, 360)
            s_ = geod.distance_for_arc(la1, az_, D0, a, invf, two_sigma_m=mid)
            if s_ is None or not (0 < s_ <= 1.97e7):
                continue
            la2, lo2, _ = geod.direct(la1, lo1, az_, s_, a, invf)
            lo2 = wrap180(lo2)
            la2 = max(-90.0, min(90.0, la2))
            if geod.sphsep(la1, lo1, la2, lo2) <= 178.0:
                break
            continue
        if m == 0 and rnd.random() < 0.3:
            # structured pairs: mirror latitudes, longitudes exactly 90 / 180 apart, both on one cardinal meridian
            kind = 'structured'
            la2 = rnd.choice([-la1, la1, rnd.uniform(-90, 90)])
            lo2 = wrap180(lo1 + rnd.choice([180.0, 90.0, -90.0, 180.0 - 1e-9, 1e-9]))
            lo1 = rnd.choice([lo1, 0.0, 90.0, -90.0, 180.0, -180.0])
            if geod.sphsep(la1, lo1, la2, lo2) <= 178.0:
                return {'ell': ell, 'lat1': la1, 'lon1': lo1, 'lat2': max(-90.0, min(90.0, la2)), 'lon2': lo2, 'kind': kind,
                        'shift': rnd.choice([360.0, -360.0, round(rnd.uniform(-360, 360), 6), 0.5])}
        if m == 0:
            la2 = rnd.uniform(-90, 90)
            lo2 = rnd.uniform(-180, 180)
        elif m == 1:
            la2 = la1
            lo2 = rnd.uniform(-180, 180)
        elif m == 2:
            la2 = rnd.uniform(-90, 90)
            lo2 = lo1
        elif m == 3:
            la1 = 0.0
            la2 = rnd.choice([0.0, 0.0, 1e-9, -1e-7])
            lo2 = rnd.uniform(-180, 180)
            if rnd.random() < 0.6:
                # both points close to the equator but not on it (vertex latitudes from 1e-4 to 0.5 deg)
                kind = 'near-equatorial'
                v = 10 ** rnd.uniform(-4, -0.3)
                la1 = rnd.choice([1, -1]) * v * rnd.uniform(0.3, 1.0)
                la2 = rnd.choice([1, -1]) * v * rnd.uniform(0.3, 1.0)
        elif m == 4:
            la1 = rnd.choice([90.0, -90.0])
            la2 = rnd.uniform(-90, 90)
            lo2 = rnd.uniform(-180, 180)
            if rnd.random() < 0.3:
                la1, la2, lo1, lo2 = la2, la1, lo2, lo1
        elif m == 5:
            lo1 = rnd.uniform(170, 180)
            lo2 = rnd.uniform(-180, -170)
            la2 = max(-90.0, min(90.0, la1 + rnd.uniform(-5, 5)))
            if rnd.random() < 0.2:
                lo1, lo2 = 180.0, -180.0 + rnd.choice([0.0, 1e-6, 1.0])
        elif m in (6, 10):
            d = 10 ** (rnd.uniform(-3, 0) if m == 10 else rnd.uniform(0, 3))
            az = rnd.uniform(0, 360)
            la1 = rnd.uniform(-89.9, 89.9)
            la2, lo2, _ = geod.direct(la1, lo1, az, d, a, invf)
            lo2 = wrap180(lo2) if abs(lo2) > 180 else lo2
        elif m == 7:
            la2 = rnd.uniform(60, 90) * rnd.choice([1, -1])
            la1 = abs(la1) * math.copysign(1, la2)
            lo2 = wrap180(lo1 + 180 + rnd.uniform(-1, 1))
        elif m == 8:
            # long line: aim at 150..178 degrees of separation
            az = rnd.uniform(0, 360)
            d = rnd.uniform(1.6e7, 1.975e7)
            la2, lo2, _ = geod.direct(la1, lo1, az, d, a, invf)
            lo2 = wrap180(lo2)
        elif m == 9:
            la2, lo2 = la1, lo1
            if rnd.random() < 0.3:
                # the same point written with longitudes 360 degrees apart (180 / -180)
                lo1, lo2 = rnd.choice([(180.0, -180.0), (-180.0, 180.0)])
                kind = 'coincident-mod-360'
            elif rnd.random() < 0.5:
                la2 = la1 + rnd.choice([0.0, 5e-11, -5e-11])
                lo2 = lo1 + rnd.choice([0.0, 5e-11, -5e-11])
        else:
            la2 = rnd.uniform(-90, 90)
            lo2 = lo1 + rnd.choice([1e-9, -1e-9, 1e-6, 1e-12, 180.0 - 1e-9])
            lo2 = wrap180(lo2) if abs(lo2) > 180 else lo2
        la2 = max(-90.0, min(90.0, la2))
        if geod.sphsep(la1, lo1, la2, lo2) <= 178.0:
            break
    case = {'ell': ell, 'lat1': la1, 'lon1': lo1, 'lat2': la2, 'lon2': lo2, 'kind': kind,
            'shift': rnd.choice([360.0, -360.0, round(rnd.uniform(-360, 360), 6), 0.5])}
    if kind not in ('coincident', 'coincident-mod-360') and rnd.random() < 0.12:
        # the same points held in one of the angle classes (whole arc-seconds or tenths, so that every notation holds
        # them exactly enough: the judged pair is the pair the objects denote)
        case['argt'] = rnd.choice(ax.ANGLE_CLASSES)
        step = rnd.choice([1, 60, 0.1, 3600])
        for k, lim in (('lat1', 90.0), ('lon1', 180.0), ('lat2', 90.0), ('lon2', 180.0)):
            case[k] = max(-lim, min(lim, round(case[k] * 3600 / step) * step / 3600.0))
        case['kind'] = kind + '+angle-objects'
    delivery(rnd, case, ('lat1', 'lon1', 'lat2', 'lon2'),
             lims={'lat1': (-90, 90), 'lon1': (-180, 180), 'lat2': (-90, 90), 'lon2': (-180, 180)})
    return case


def _lever(s, a):
    """distance the far end of a line of length s moves per radian of azimuth change (spherical reduced length)"""
    return a * abs(math.sin(s / a))


def judge_inverse(ns, ctx, case, aspects=('closure', 'reverse', 'symmetry', 'shift')):
    run_unjudged_calls(ns, ctx, case)
    ell = tmwork.ell_obj(ns, case['ell'])
    a, invf = tmwork.ell_published(case['ell'])
    la1, lo1, la2, lo2 = case['lat1'], case['lon1'], case['lat2'], case['lon2']
    args = (la1, lo1, la2, lo2)
    argt = case.get('argt', 'float')
    if argt != 'float':
        try:
            objs = [ax.make_object(ns.angles, argt, v) for v in args]
        except ValueError:
            ctx.count('argument_object_not_constructible')
            return None
        den = [ax.denote(o) for o in objs]
        if any(d is None for d in den):
            raise core.Inconclusive('harness built an invalid HP numeral')
        # the judged pair is the pair of points the objects denote
        la1, lo1, la2, lo2 = (float(d) for d in den)
        args = tuple(objs)
        ctx.count('angle_class_args')
    sep = geod.sphsep(la1, lo1, la2, lo2)
    if sep > 178.0 or not (-90 <= la1 <= 90 and -90 <= la2 <= 90):
        ctx.count('out_of_domain')
        return None
    ctx.judged()
    try:
        s, a12, a21 = call_geodesy(ns, ctx, case, 'vincinv', ('lat1', 'lon1', 'lat2', 'lon2', 'ellipsoid'),
                                   core.rep_values(case.get('rep'), *args) + (ell,))
    except Exception as e:
        ctx.violation('vincinv:exception:' + type(e).__name__, case, {'exception': repr(e), 'separation_deg': sep})
        return None
    ctx.bucket('inverse', ellname(case['ell']), case.get('kind'), int(sep // 30),
               -4 if s <= 0 else (int(math.log10(s)) if s >= 1 else -1), int(max(abs(la1), abs(la2)) // 30))
    identical = (la1 == la2 and (lo1 == lo2 or abs(lo1 - lo2) == 360.0))
    if identical:
        ctx.count('coincident')
        if s != 0:
            ctx.violation('vincinv:coincident-nonzero', case, {'result': [s, a12, a21]})
        return s, a12, a21
    # (i) closure
    ola, olo, oaz = geod.direct(la1, lo1, a12, s, a, invf)
    d = geod.chord(ola, olo, la2, lo2, a, invf)
    if 'closure' in aspects:
        ctx.count('closure_judged')
        if not ctx.ratio('C05.closure', d, 2e-3):
            ctx.violation('vincinv:closure', case, {'result': [s, a12, a21], 'geodesic_end': [ola, olo], 'miss_m': d})
    # (ii) reverse azimuth
    if 'reverse' in aspects and s > 0:
        p = geod.axis_distance(la2, a, invf)
        if p > 0.002:
            allow = 1e-8 + math.degrees(0.002 / p)
            da = abs(wrap180(a21 - (oaz + 180.0)))
            ctx.count('reverse_judged')
            if da > allow:
                # mechanism name only (no longer a known finding: repaired in /repo by 70a8bc2): cancellation noise
                # eps*a/s of two independently evaluated azimuth formulae on very short lines
                envelope = math.degrees(4 * EPS * a / max(s, 1e-3))
                if s < 10.0 and da <= envelope:
                    ctx.violation('vincinv:reverse-azimuth-noise-on-short-line', case,
                                  {'s': s, 'diff_deg': da, 'allow_deg': allow, 'noise_envelope_deg': envelope})
                else:
                    ctx.violation('vincinv:reverse-azimuth', case, {'a21': a21, 'oracle': (oaz + 180.0) % 360.0,
                                                                    'diff_deg': da, 'allow_deg': allow, 's': s})
            else:
                ctx.ratio('C05.reverse-azimuth', da, allow)
    # (iii) swap / shift
    lever = _lever(s, a)
    az_allow = (math.degrees(1e-3 / lever) if lever > 1e-3 else 360.0) + 1.1e-9
    if 'symmetry' in aspects:
        try:
            s2, b12, b21 = ns.geodesy.vincinv(la2, lo2, la1, lo1, ell)
            ctx.count('swap_judged')
            bad = abs(s2 - s) > 1e-3 + 1e-9
            if s > 0 and s2 > 0:
                bad = bad or abs(wrap180(b12 - a21)) > az_allow or abs(wrap180(b21 - a12)) > az_allow
            ctx.maxi('C05.swap_ds_m', abs(s2 - s))
            if bad:
                ctx.violation('vincinv:swap-asymmetry', case, {'forward': [s, a12, a21], 'swapped': [s2, b12, b21],
                                                               'az_allow_deg': az_allow})
        except Exception as e:
            ctx.violation('vincinv:exception:' + type(e).__name__, case, {'exception': repr(e), 'with': 'swapped points'})
    if 'shift' in aspects:
        off = case.get('shift', 360.0)
        try:
            s3, c12, c21 = ns.geodesy.vincinv(la1, lo1 + off, la2, lo2 + off, ell)
            ctx.count('shift_judged')
            # the shifted longitudes are rounded to floats: the pair may move by a few ulp of 540 deg
            slack_m = 8 * EPS * 540.0 * math.radians(1) * a
            bad = abs(s3 - s) > 1e-3 + slack_m + 1e-9
            if s > 0 and s3 > 0:
                az_slack = math.degrees(slack_m / max(lever, 1e-3)) if lever > 0 else 360.0
                bad = bad or abs(wrap180(c12 - a12)) > az_allow + az_slack or abs(wrap180(c21 - a21)) > az_allow + az_slack
            ctx.maxi('C05.shift_ds_m', abs(s3 - s))
            if bad and not (s == 0 or s3 == 0):
                ctx.violation('vincinv:longitude-shift', case, {'original': [s, a12, a21], 'shifted': [s3, c12, c21],
                                                                'offset': off, 'az_allow_deg': az_allow})
            elif bad:
                # one of the two fell under the 1e-10 deg coincidence shortcut: distances below 0.02 mm
                if max(s, s3) > 1e-3:
                    ctx.violation('vincinv:longitude-shift', case, {'original': [s, a12, a21], 'shifted': [s3, c12, c21], 'offset': off})
        except Exception as e:
            ctx.violation('vincinv:exception:' + type(e).__name__, case, {'exception': repr(e), 'with': 'shifted longitudes', 'offset': off})
    return s, a12, a21


def geod_selfcheck(ctx, n_ode=4, n_mp=1):
    try:
        res = geod.self_check(seed=ctx.seed + 1, n_ode=n_ode, n_mp=n_mp)
    except AssertionError as e:
        raise core.Inconclusive('geod_exact failed its self-validation: %r' % (e,))
    ctx.info['oracle_selfcheck'] = {k: float('%.3g' % v) for k, v in res.items()}


def alias_ell(rnd, ell):
    """another Earth-like ellipsoid for the same line (1/f kept inside 280..320 for generated ones)"""
    r = rnd.random()
    a, invf = tmwork.ell_published(ell)
    if r < 0.4:
        return tmwork.SAME_INVF[ell] if isinstance(ell, str) else [min(6.4e6, max(6.3e6, a + rnd.choice([-1, 1]) * 2500.0)), invf]
    if r < 0.6:
        return [a, min(320.0, max(280.0, invf + rnd.choice([-1, 1]) * rnd.choice([0.5, 3.0, 15.0])))]
    return rnd.choice([e for e in ('grs80', 'wgs84', 'ans', 'intl24') if e != ell])
