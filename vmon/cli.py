"""./check entry point: parent (plan, spawn shards, merge, verdict, evidence) and shard runner."""
import argparse
import concurrent.futures
import importlib
import json
import os
import platform
import subprocess
import sys
import tempfile
import time
import traceback

from . import core


def prop_module(pid):
    return importlib.import_module('vmon.props.' + pid.lower())


# ------------------------------------------------------------------------------------------------
# shard side
# ------------------------------------------------------------------------------------------------
def shard_main(pid, specfile, outfile):
    spec = json.load(open(specfile))
    ctx = core.Ctx(pid, spec['tier'], spec['seed'], spec.get('shard'))
    env = core.call_environment()
    ctx.count('shards_run_with_TZ=%s' % (env['TZ'] or 'unset'))
    ctx.count('shards_run_in_%s' % ('the harness directory' if env['cwd_is_verif_root'] else 'a scratch working directory of their own'))
    ctx.count('shards_run_with_PYTHONHASHSEED=%s' % env['PYTHONHASHSEED'])
    if os.environ.get('VERIF_DECIMAL_PREC'):
        ctx.count('shards_run_with_decimal_context_precision=%s' % os.environ['VERIF_DECIMAL_PREC'])
    try:
        mod = prop_module(pid)
        mod.run_shard(spec, ctx)
    except core.Inconclusive as e:
        ctx.inconc('shard %s: %s' % (spec.get('shard'), e))
    except Exception:
        ctx.inconc('shard %s: harness error: %s' % (spec.get('shard'), traceback.format_exc()[-1500:]))
    rep = core.jsonable(ctx.report())
    with open(outfile + '.tmp', 'w') as f:
        json.dump(rep, f)
    os.replace(outfile + '.tmp', outfile)
    return 0


def run_one_shard(pid, spec, tmpdir, idx, timeout):
    specfile = os.path.join(tmpdir, 'spec%d.json' % idx)
    outfile = os.path.join(tmpdir, 'out%d.json' % idx)
    with open(specfile, 'w') as f:
        json.dump(spec, f)
    cmd = [sys.executable, '-X', 'faulthandler', '-m', 'vmon.cli', '--shard', pid, specfile, outfile]
    env = dict(os.environ)
    env['PYTHONHASHSEED'] = '0'
    env['PYTHONDONTWRITEBYTECODE'] = '1'
    env[core.GUARD] = '1'
    # keep numpy single-threaded inside a shard; parallelism is across shards
    for k in ('OMP_NUM_THREADS', 'OPENBLAS_NUM_THREADS', 'MKL_NUM_THREADS'):
        env[k] = '1'
    shenv = core.shard_environment(spec.get('shard'))
    if shenv['TZ']:
        env['TZ'] = shenv['TZ']
    else:
        env.pop('TZ', None)
    env['PYTHONHASHSEED'] = shenv['PYTHONHASHSEED']
    if shenv['VERIF_DECIMAL_PREC']:
        env['VERIF_DECIMAL_PREC'] = shenv['VERIF_DECIMAL_PREC']
    else:
        env.pop('VERIF_DECIMAL_PREC', None)
    cwd = core.VERIF_ROOT
    if shenv['own_cwd']:
        cwd = os.path.join(tmpdir, 'cwd%d' % idx)
        os.makedirs(cwd, exist_ok=True)
    t0 = time.time()
    try:
        p = subprocess.run(cmd, env=env, timeout=timeout, capture_output=True, text=True,
                           cwd=cwd)
    except subprocess.TimeoutExpired:
        return {'shard': spec.get('shard'), 'counters': {}, 'buckets': [], 'samples': [], 'viol': {},
                'maxima': {}, 'info': {}, 'monitors': {}, 'wall_s': time.time() - t0,
                'inconclusive': ['shard %s: watchdog fired after %ds' % (spec.get('shard'), timeout)]}
    if not os.path.exists(outfile):
        return {'shard': spec.get('shard'), 'counters': {}, 'buckets': [], 'samples': [], 'viol': {},
                'maxima': {}, 'info': {}, 'monitors': {}, 'wall_s': time.time() - t0,
                'inconclusive': ['shard %s: interpreter died rc=%s: %s' % (
                    spec.get('shard'), p.returncode, (p.stderr or '')[-1200:])]}
    try:
        rep = json.load(open(outfile))
    except ValueError as e:
        return {'shard': spec.get('shard'), 'counters': {}, 'buckets': [], 'samples': [], 'viol': {},
                'maxima': {}, 'info': {}, 'monitors': {}, 'wall_s': time.time() - t0,
                'inconclusive': ['shard %s: unreadable report (%s)' % (spec.get('shard'), e)]}
    if p.stderr and os.environ.get('VERIF_DEBUG'):
        sys.stderr.write(p.stderr[-4000:])
    return rep


# ------------------------------------------------------------------------------------------------
# parent side
# ------------------------------------------------------------------------------------------------
def main(argv=None):
    argv = list(sys.argv[1:] if argv is None else argv)
    if argv and argv[0] == '--shard':
        return shard_main(argv[1], argv[2], argv[3])
    ap = argparse.ArgumentParser()
    ap.add_argument('pid')
    ap.add_argument('--tier', default=os.environ.get('VERIF_TIER') or 'quick', choices=['quick', 'thorough'])
    ap.add_argument('--replay')
    ap.add_argument('--jobs', type=int, default=int(os.environ.get('VERIF_JOBS', '0') or 0))
    a = ap.parse_args(argv)
    pid = a.pid.upper()
    try:
        seed = int(os.environ.get('VERIF_SEED', '0') or 0)
    except ValueError:
        seed = 0
    mod = prop_module(pid)
    if a.replay:
        return replay_main(pid, mod, a.replay)

    t0 = time.time()
    os.environ.setdefault(core.GUARD, '1')
    specs = mod.plan(a.tier, seed)
    for i, s in enumerate(specs):
        s.setdefault('shard', i)
        s['tier'] = a.tier
        s['seed'] = seed
    jobs = a.jobs or min(16, os.cpu_count() or 4)
    timeout = getattr(mod, 'SHARD_TIMEOUT', {}).get(a.tier, 900 if a.tier == 'quick' else 2 * 3600)
    reports = []
    tmpbase = os.environ.get('VERIF_SCRATCH') or None
    with tempfile.TemporaryDirectory(prefix='vmon-%s-' % pid, dir=tmpbase) as tmp:
        with concurrent.futures.ThreadPoolExecutor(max_workers=jobs) as ex:
            futs = [ex.submit(run_one_shard, pid, s, tmp, i, timeout) for i, s in enumerate(specs)]
            for f in futs:
                reports.append(f.result())
    m = core.merge_reports(reports)
    if hasattr(mod, 'finalize'):
        try:
            mod.finalize(m, a.tier)
        except core.Inconclusive as e:
            m['inconclusive'].append(str(e))
    return conclude(pid, mod, a.tier, seed, m, time.time() - t0)


def conclude(pid, mod, tier, seed, m, wall):
    known = core.load_known()
    evaluations = int(m['counters'].get('judged', 0))
    if evaluations == 0:
        m['inconclusive'].append('no monitored execution was judged')
    for name in getattr(mod, 'REQUIRED_COUNTERS', []):
        if m['counters'].get(name, 0) <= 0:
            m['inconclusive'].append('deciding monitor/counter %r observed nothing' % name)
    for name in getattr(mod, 'REQUIRED_MONITORS', []):
        if m['monitors'].get(name, {}).get('calls', 0) <= 0:
            m['inconclusive'].append('monitor %r was never called' % name)

    new, kn = [], []
    for mech, v in sorted(m['viol'].items()):
        base = mech.split('#')[0]
        if (pid, mech) in known or (pid, base) in known:
            kn.append((mech, v, known.get((pid, mech)) or known.get((pid, base))))
        else:
            new.append((mech, v))

    rdir = os.path.join(os.environ.get('VERIF_REPLAY_DIR') or os.path.join(core.VERIF_ROOT, 'replays'), pid)
    if os.path.isdir(rdir):
        for fn in os.listdir(rdir):
            if fn.endswith('.json'):
                os.remove(os.path.join(rdir, fn))
    lines = []
    for mech, v in new:
        w = v['witnesses'][0]
        os.makedirs(rdir, exist_ok=True)
        rp = os.path.join(rdir, '%s-%s.json' % (safe(mech), core.stable_hash(w['case'])))
        with open(rp, 'w') as f:
            json.dump({'property': pid, 'mechanism': mech, 'case': w['case'], 'detail': w['detail'], 'env': w.get('env'),
                       'seed': seed, 'tier': tier, 'count': v['count'],
                       'python': platform.python_version(), 'repo_root': core.repo_root()}, f, indent=1)
        lines.append('VIOLATION property=%s replay=%s' % (pid, rp))
        lines.append('  mechanism=%s count=%d first=%s' % (mech, v['count'], json.dumps(w['detail'])[:600]))
    for mech, v, what in kn:
        lines.append('KNOWN-FINDING: property=%s %s [mechanism=%s, %d occurrence(s) this run]' % (
            pid, what, mech, v['count']))

    verdict = 'violated' if new else ('inconclusive' if m['inconclusive'] else 'held')
    cov = {
        'evaluations': evaluations,
        'distinct_nontrivial': len(m['buckets']),
        'rule': getattr(mod, 'RULE', ''),
        'samples': m['samples'] or [{'note': 'no sample recorded'}],
        'verdict': verdict,
        'shards': m['shards'], 'cpu_s': round(m['cpu_s'], 2),
        'counters': dict(sorted(m['counters'].items())),
        'monitors': m['monitors'],
        'max_observed': {k: v for k, v in sorted(m['maxima'].items())},
        'violation_mechanisms': {mech: v['count'] for mech, v in m['viol'].items()},
        'known_findings_seen': {mech: v['count'] for mech, v, _ in kn},
        'inconclusive_reasons': m['inconclusive'],
        'repo_root': core.repo_root(),
    }
    cov.update({k: v for k, v in m['info'].items()})
    exh = getattr(mod, 'EXHAUSTIVE', None)
    if exh:
        cov['exhaustive'] = bool(exh(tier) if callable(exh) else exh)
    ev = {
        'property_id': pid, 'tier': tier, 'seed': seed,
        'level': getattr(mod, 'LEVEL', 'exploration'),
        'coverage': cov,
        'assumptions': list(getattr(mod, 'ASSUMPTIONS', [])),
        'wall_s': round(wall, 2),
        'violations': sum(v['count'] for _, v in new),
    }
    edir = os.environ.get('VERIF_EVIDENCE_DIR') or os.path.join(core.VERIF_ROOT, 'evidence')
    os.makedirs(edir, exist_ok=True)
    with open(os.path.join(edir, pid + '.json'), 'w') as f:
        json.dump(core.jsonable(ev), f, indent=1, sort_keys=False)
        f.write('\n')

    print('%s %s tier=%s seed=%d: judged=%d buckets=%d shards=%d wall=%.1fs cpu=%.1fs' % (
        pid, getattr(mod, 'TITLE', ''), tier, seed, evaluations, len(m['buckets']), m['shards'], wall, m['cpu_s']))
    for k, v in sorted(m['maxima'].items()):
        if k.startswith('ratio:'):
            print('  max %s = %.3g' % (k, v))
    for ln in lines:
        print(ln)
    if new:
        for r in m['inconclusive'][:5]:
            print('  (also inconclusive: %s)' % r.replace('\n', ' | ')[-400:])
        print('RESULT property=%s violated' % pid)
        return 1
    if m['inconclusive']:
        shown = set()
        for r in m['inconclusive']:
            import re as _re
            k = _re.sub(r'shard \d+', 'shard N', r)[:300]
            if k in shown or len(shown) >= 8:
                continue
            shown.add(k)
            print('INCONCLUSIVE property=%s reason=%s' % (pid, r.replace('\n', ' | ')[-900:]))
        return 2
    print('RESULT property=%s held on everything explored' % pid)
    return 0


def safe(s):
    return ''.join(c if c.isalnum() or c in '-_.' else '_' for c in s)[:80]


def replay_main(pid, mod, path):
    rec = json.load(open(path))
    ctx = core.Ctx(pid, rec.get('tier', 'quick'), rec.get('seed', 0), 'replay')
    os.environ.setdefault(core.GUARD, '1')
    if core.apply_environment(rec.get('env')) and not os.environ.get('VERIF_REPLAY_REEXEC'):
        # the witness was observed under another hash seed: start the interpreter again with it
        env = dict(os.environ, PYTHONHASHSEED=rec['env']['PYTHONHASHSEED'], VERIF_REPLAY_REEXEC='1')
        os.execve(sys.executable, [sys.executable, '-X', 'faulthandler', '-m', 'vmon.cli', pid, '--replay', path], env)
    try:
        mod.replay(rec['case'], ctx)
    except core.Inconclusive as e:
        print('INCONCLUSIVE property=%s reason=%s' % (pid, e))
        return 2
    known = core.load_known()
    rc = 0
    for mech, v in ctx.viol.items():
        base = mech.split('#')[0]
        if (pid, mech) in known or (pid, base) in known:
            print('KNOWN-FINDING: property=%s %s [mechanism=%s]' % (pid, known.get((pid, mech)) or known.get((pid, base)), mech))
            continue
        print('VIOLATION property=%s replay=%s' % (pid, path))
        print('  mechanism=%s detail=%s' % (mech, json.dumps(v['witnesses'][0]['detail'])[:1200]))
        rc = 1
    if rc == 0:
        print('replay: no violation reproduced (judged=%d)' % ctx.counters.get('judged', 0))
    return rc


if __name__ == '__main__':
    sys.exit(main())
