"""C19 Survey reductions are geometrically and physically self-consistent."""
import math
import random

from .. import core
from ..oracles import angle as ax
from ..oracles import survey as so

ID = 'C19'
TITLE = 'survey reductions: joins/radiations, zenith-angle reduction, first velocity correction, Ciddor dispersion'
LEVEL = 'exploration'
TECHNIQUE = ('runtime monitoring: every call of the real survey/convert routines is judged against independent closed '
             'forms (own quadrant/octant reduction, Giacomo vapour pressure, complex-step derivative of the real '
             'phase_refractivity); post-condition monitor on rect2polar, argument monitors on the refractivity routines')
RULE = ('four workloads, one clause family each.  (1) plane: joins on point pairs (independent points, polar offsets, the four '
        'axes, near-axis with cross component +/-1..3 ulp or 5e-324..1e-9 incl. delta_e=-1e-9/delta_n=1e7, diagonals, '
        'coincident points; |coordinates| <= 1e7 m, distances 1e-4 m..2e7 m) then radiations back, with rotation and scale '
        'factor; radiations on bearings over the full circle incl. axes and axis +/- k ulp, then joins back; '
        'polar2rect/rect2polar with float, DEC, HP, GON, DMS and DDM bearings.  (2) va_conv: zenith angles in the four '
        'quadrants, exactly 90/270, within 1e-9 deg of 0/180/360, slope 0.1 m..50 km, heights -5..5 m incl. 0 and +/-5.  '
        '(3) first velocity correction: closed form with relative humidity, closed form with wet-bulb temperature, CO2 form; '
        'wavelength 0.4..1.6 um, -20..45 C incl. exactly 0, 650..1100 hPa, 0..100 % incl. exactly 0 and 100, wet-bulb incl. '
        'exactly 0, CO2 300..600 ppm (half of the cases exactly 420), distances 1 m..50 km, n_REF given or from unit '
        'length and frequency.  (4) dispersion identity at random (wavelength, T, P, e 0..40 hPa incl. 0, CO2).  '
        'non-trivial = in the quantified domain; distinct = class buckets (workload class x octant/quadrant/decade/regime) Between judged reductions the tables a caller can fetch (refractivity constants, partial differentials, first-velocity parameters) are fetched and edited in place.')
ASSUMPTIONS = [
    'CPython float64 arithmetic and libm (sin, cos, atan, exp, hypot) are trusted',
    'closed forms in vmon/oracles/survey.py, self-validated in every shard (published vapour-pressure check values, known '
    'bearings, hand-derived derivative; complex step against mpmath differentiation of the same routine)',
    '"within 1e-9 of the distance" is also used as the angular tolerance 1e-9 rad for bearings; where a result cannot be '
    'represented better than the spacing of floats at the coordinate magnitude (rotation/scale and radiations->joins: the '
    'library result and the closed form are each rounded to the nearest float, so they may differ by one unit in the last '
    'place per coordinate) three units in the last place of the largest coordinate are added',
    'va_conv: the height difference is height_inst + slope*sin(vertical angle) - height_tgt as coded and documented, so '
    'Pythagoras is judged on (delta_ht - height_inst + height_tgt); the sign of the height difference is judged only in '
    '(0, 180) (zenith angle < 90 = target above); the convention the code applies in (180, 360) is reported, not judged',
    'a wet-bulb observation is physically valid when wet <= dry and the resulting vapour pressure is >= 0',
    'the CO2 form takes relative humidity only (documented); wet-bulb input is compared through the equivalent humidity',
]
REQUIRED_COUNTERS = ['one_element_changed_sequences', 'tables_fetched_by_caller_between_reductions', 
    'joins', 'inverse_pair', 'bearing_range', 'bearing_direction', 'rotation_scale', 'radiations_closed_form',
    'inverse_pair_reverse', 'polar2rect', 'polar2rect_angle_objects', 'rect2polar', 'near_axis_joins', 'axis_joins',
    'va_pythagoras', 'va_heights', 'va_hz_closed_form', 'va_q1', 'va_q2', 'va_q3', 'va_q4',
    'atm_defined_closed_humidity', 'atm_defined_closed_wet_bulb', 'atm_defined_co2', 'atm_zero_temp',
    'atm_zero_humidity', 'atm_zero_wet_bulb', 'atm_proportional', 'atm_co2_identity', 'atm_agree_1ppm',
    'dispersion_identity',
]
REQUIRED_MONITORS = ['rect2polar', 'polar2rect', 'group_refractivity', 'humidity2part_water_vapour_press']

ANG_TOL_DEG = 1e-9 * so.DEG          # 1e-9 of the distance, as an angle
N = {'quick': {'plane': 120000, 'va': 250000, 'atmo': 50000, 'disp': 150000},
     'thorough': {'plane': 500000, 'va': 1000000, 'atmo': 200000, 'disp': 600000}}
SHARDS = {'quick': {'plane': 6, 'va': 2, 'atmo': 5, 'disp': 2, 'ambient': 1},
          'thorough': {'plane': 24, 'va': 6, 'atmo': 20, 'disp': 6, 'ambient': 1}}
ANGLE_ARG = ['float', 'DECAngle', 'HPAngle', 'GONAngle', 'DMSAngle', 'DDMAngle']


def plan(tier, seed):
    specs = []
    for kind in ('plane', 'va', 'atmo', 'disp', 'ambient'):
        for i in range(SHARDS[tier][kind]):
            specs.append({'kind': kind, 'part': i, 'n': N[tier].get(kind, 0)})
    return specs


# ================================================================================================
# monitors attached to the live functions
# ================================================================================================
class Mon:
    def __init__(self, ns, ctx):
        self.ns, self.ctx = ns, ctx
        self.group_calls = []
        self.hum_calls = []
        S, C = ns.survey, ns.convert
        self.reach = core.LineReach()
        for fn in (C.rect2polar, C.polar2rect, S.joins, S.radiations, S.va_conv, S.first_vel_params,
                   S.part_h2o_vap_press, S.first_vel_corrn, S.humidity2part_water_vapour_press):
            self.reach.watch(fn)
        self.m_r2p = ctx.monitor(C.rect2polar, 'rect2polar', post=self.post_rect2polar).attach()
        self.m_p2r = ctx.monitor(C.polar2rect, 'polar2rect').attach()
        self.m_grp = ctx.monitor(S.group_refractivity, 'group_refractivity', post=self.post_group).attach()
        self.m_hum = ctx.monitor(S.humidity2part_water_vapour_press, 'humidity2part_water_vapour_press',
                                 post=self.post_hum).attach()
        self.reach.start()

    # post-condition of rect2polar, observed on every call incl. the ones made by joins
    def post_rect2polar(self, a, k, r, exc):
        ctx = self.ctx
        if exc is not None or len(a) != 2:
            return
        try:
            x, y = float(a[0]), float(a[1])
            theta = float(r[1])
        except Exception:
            return
        ctx.count('rect2polar_calls_observed')
        judge_range(ctx, 'rect2polar', {'k': 'rect', 'x': x, 'y': y}, theta)

    def post_group(self, a, k, r, exc):
        self.group_calls.append((a, k, r, exc))

    def post_hum(self, a, k, r, exc):
        self.hum_calls.append((a, k, r, exc))

    def close(self):
        self.reach.stop()
        self.ctx.info['lines_reached'] = self.reach.summary()
        for m in (self.m_r2p, self.m_p2r, self.m_grp, self.m_hum):
            m.detach()


# ================================================================================================
# (1) plane geometry
# ================================================================================================
def _brief(case):
    if 'p1' in case:
        return {'delta_east': case['p2'][0] - case['p1'][0], 'delta_north': case['p2'][1] - case['p1'][1]}
    return {'delta_east': case.get('x'), 'delta_north': case.get('y')}


def judge_range(ctx, name, case, b):
    """bearing in [0, 360); exactly 360.0 is its own mechanism (a rounding event, not a branch error)."""
    ctx.count('bearing_range')
    if b == 360.0:
        ctx.violation(name + ':bearing-is-360', case, {'bearing': b, 'expected': 'in [0, 360)', 'input': _brief(case)})
        return False
    if not (0.0 <= b < 360.0):
        ctx.violation(name + ':bearing-out-of-range', case, {'bearing': b, 'expected': 'in [0, 360)', 'input': _brief(case)})
        return False
    return True


def judge_db(ctx, name, case, de, dn, d, b, range_too=True):
    """(distance, bearing) returned for the vector (de, dn)."""
    if range_too:
        judge_range(ctx, name, case, b)
    h = math.hypot(de, dn)
    if not ctx.ratio(name + '.distance', abs(d - h), 1e-9 * h):
        ctx.violation(name + ':distance', case, {'distance': d, 'expected': h})
    bo = so.bearing_of(de, dn)
    if bo is None:
        ctx.count('zero_vector')
        return None
    ctx.count('bearing_direction')
    err = core.angdiff(b, bo)
    if not ctx.ratio(name + '.bearing', err, ANG_TOL_DEG):
        ctx.violation(name + ':bearing-not-clockwise-from-north', case,
                      {'bearing': b, 'expected': bo, 'diff_deg': err, 'delta_east': de, 'delta_north': dn})
    return bo


def judge_join(ns, ctx, c):
    S = ns.survey
    e1, n1 = c['p1']
    e2, n2 = c['p2']
    ctx.judged()
    ctx.count('joins')
    try:
        d, b = S.joins(e1, n1, e2, n2)
        d, b = float(d), float(b)
    except Exception as ex:
        ctx.violation('joins:exception', c, {'exception': repr(ex)})
        return
    de, dn = e2 - e1, n2 - n1
    bo = judge_db(ctx, 'joins', c, de, dn, d, b)
    cls = c.get('cls', '?')
    if cls.startswith('near-axis'):
        ctx.count('near_axis_joins')
    elif cls == 'axis':
        ctx.count('axis_joins')
    M = max(abs(e1), abs(n1), abs(e2), abs(n2))
    ctx.bucket('join', cls, 'zero' if bo is None else so.octant(bo), so.decade(d), so.decade(M))
    # inverse pair: radiate the joined distance and bearing from the first point
    try:
        e3, n3 = S.radiations(e1, n1, b, d)
    except Exception as ex:
        ctx.violation('radiations:exception', c, {'exception': repr(ex), 'bearing': b, 'distance': d})
        return
    ctx.count('inverse_pair')
    err = math.hypot(e3 - e2, n3 - n2)
    if not ctx.ratio('inverse_pair', err, 1e-9 * d):
        ctx.violation('joins-radiations:not-inverse', c,
                      {'joins': [d, b], 'radiated': [e3, n3], 'expected': [e2, n2], 'miss_m': err, 'tol_m': 1e-9 * d})
    # rotation and scale factor applied to the radiated vector
    rot, psf = c.get('rot'), c.get('psf')
    if rot is None:
        return
    try:
        e4, n4 = S.radiations(e1, n1, b, d, rot, psf)
    except Exception as ex:
        ctx.violation('radiations:exception', c, {'exception': repr(ex), 'bearing': b, 'distance': d})
        return
    judge_rotscale(ctx, c, e1, n1, b, d, rot, psf, e4, n4)


def judge_rotscale(ctx, c, e1, n1, b, d, rot, psf, e4, n4):
    s, co = so.sincos_deg(b)
    ve, vn = so.rotate_scale(d * s, d * co, rot, psf)
    M = max(abs(e1), abs(n1), abs(e4), abs(n4), abs(e1 + ve), abs(n1 + vn))
    tol = 1e-9 * abs(d * psf) + 3.0 * math.ulp(M)
    err = math.hypot(e4 - (e1 + ve), n4 - (n1 + vn))
    plain = (rot == 0 and psf == 1)
    ctx.count('radiations_closed_form' if plain else 'rotation_scale')
    if not ctx.ratio('radiations_closed_form' if plain else 'rotation_scale', err, tol):
        ctx.violation('radiations:closed-form' if plain else 'radiations:rotation-scale', c,
                      {'radiated': [e4, n4], 'expected': [e1 + ve, n1 + vn], 'miss_m': err, 'tol_m': tol,
                       'bearing': b, 'distance': d, 'rotation': rot, 'psf': psf})
    return ve, vn, tol


def judge_rad(ns, ctx, c):
    """radiations on a free bearing (full circle, axes, near-axis) against the closed form, then joins back."""
    S = ns.survey
    e1, n1 = c['p1']
    b, d, rot, psf = c['brg'], c['d'], c['rot'], c['psf']
    barg, rarg = b, rot
    if c.get('acls'):
        # bearing and rotation held in angle classes (the library adds the two objects and converts the sum); the judged
        # values are the angles the objects denote
        try:
            barg = ax.make_object(ns.angles, c['acls'][0], float(b))
            rarg = ax.make_object(ns.angles, c['acls'][1], float(rot))
        except ValueError:
            ctx.count('argument_object_not_constructible')
            return
        db, dr = ax.denote(barg), ax.denote(rarg)
        if db is None or dr is None:
            raise core.Inconclusive('harness built an invalid HP numeral')
        b, rot = float(db), float(dr)
        ctx.count('radiations_with_angle_objects')
    ctx.judged()
    try:
        e4, n4 = S.radiations(e1, n1, barg, d, rarg, psf)
        e0, n0 = S.radiations(e1, n1, b, d)
    except Exception as ex:
        ctx.violation('radiations:exception', c, {'exception': repr(ex)})
        return
    ve, vn, tol = judge_rotscale(ctx, c, e1, n1, b, d, rot, psf, e4, n4)
    judge_rotscale(ctx, c, e1, n1, b, d, 0, 1, e0, n0)
    ctx.bucket('rad', c.get('cls', '?'), so.octant(math.fmod(b, 360.0) % 360.0), so.decade(d),
               'rot' if rot else 'norot', 'psf' if psf != 1 else 'nopsf')
    # reverse order of the inverse pair: joins recovers the (rotated, scaled) distance and bearing
    try:
        d2, b2 = S.joins(e1, n1, e4, n4)
    except Exception as ex:
        ctx.violation('joins:exception', c, {'exception': repr(ex)})
        return
    judge_range(ctx, 'joins', {'k': 'join', 'p1': [e1, n1], 'p2': [e4, n4], 'cls': 'from-rad'}, b2)
    dd = abs(d * psf)
    ctx.count('inverse_pair_reverse')
    if not ctx.ratio('inverse_pair_reverse.distance', abs(d2 - dd), tol):
        ctx.violation('radiations-joins:not-inverse', c, {'joins': [d2, b2], 'expected_distance': dd, 'tol_m': tol})
    if dd > 0 and tol / dd < 1e-3:
        want = math.fmod(b + rot + (180.0 if psf < 0 else 0.0), 360.0)
        err = core.angdiff(b2, want)
        if not ctx.ratio('inverse_pair_reverse.bearing', err, math.degrees(tol / dd)):
            ctx.violation('radiations-joins:not-inverse', c,
                          {'joins': [d2, b2], 'expected_bearing': want % 360.0, 'diff_deg': err,
                           'tol_deg': math.degrees(tol / dd)})
    else:
        ctx.count('reverse_bearing_below_coordinate_resolution')


def judge_polar(ns, ctx, c):
    """polar2rect with a float or angle-object bearing against r(sin, cos); rect2polar back."""
    C = ns.convert
    r = c['r']
    obj = ax.make_object(ns.angles, c['cls'], c['theta'])
    th = float(ax.denote(obj))
    ctx.judged()
    ctx.count('polar2rect')
    if c['cls'] != 'float':
        ctx.count('polar2rect_angle_objects')
    try:
        x, y = C.polar2rect(r, obj)
    except Exception as ex:
        ctx.violation('polar2rect:exception', c, {'exception': repr(ex)})
        return
    s, co = so.sincos_deg(th)
    err = math.hypot(x - r * s, y - r * co)
    if not ctx.ratio('polar2rect', err, 1e-9 * abs(r)):
        ctx.violation('polar2rect:closed-form', c, {'got': [x, y], 'expected': [r * s, r * co], 'miss': err})
    ctx.bucket('polar', c['cls'], so.octant(th % 360.0), so.decade(r), c.get('tcls', '?'))
    judge_rect(ns, ctx, {'k': 'rect', 'x': x, 'y': y}, count_judged=False, want=(abs(r), th))


def judge_rect(ns, ctx, c, count_judged=True, want=None):
    C = ns.convert
    x, y = c['x'], c['y']
    if count_judged:
        ctx.judged()
    ctx.count('rect2polar')
    try:
        r2, t2 = C.rect2polar(x, y)            # range post-condition judged by the attached monitor
        r2, t2 = float(r2), float(t2)
    except Exception as ex:
        ctx.violation('rect2polar:exception', c, {'exception': repr(ex)})
        return
    judge_db(ctx, 'rect2polar', c, x, y, r2, t2, range_too=False)
    if want is not None and want[0] > 0:
        r, th = want
        e1 = abs(r2 - r)
        e2 = core.angdiff(t2, th)
        if not (ctx.ratio('polar_roundtrip.r', e1, 1e-9 * r) and ctx.ratio('polar_roundtrip.theta', e2, ANG_TOL_DEG)):
            ctx.violation('polar2rect-rect2polar:not-inverse', c, {'got': [r2, t2], 'expected': [r, th % 360.0]})


# ---- plane workload ----------------------------------------------------------------------------
LIM = 1e7
TINY = [5e-324, 1e-300, 1e-100, 1e-30, 1e-15, 1e-12, 1e-9]
ROTS = [0, 90, 180, 270, -90, 360, 2.3097222222222222, -0.5]
PSFS = [1, 0.9996, 1.0004, 0.99994, 2.0, 0.5]


def _coord(rnd):
    u = rnd.random()
    if u < 0.45:
        return rnd.uniform(-LIM, LIM)
    if u < 0.9:
        return rnd.choice([-1.0, 1.0]) * 10 ** rnd.uniform(-2, 7)
    return rnd.choice([0.0, LIM, -LIM, 500000.0, 6.5e6, 1.0])


def _rotpsf(rnd):
    rot = rnd.choice(ROTS) if rnd.random() < 0.5 else rnd.uniform(-360.0, 360.0)
    psf = rnd.choice(PSFS) if rnd.random() < 0.5 else (rnd.uniform(0.999, 1.001) if rnd.random() < 0.7
                                                        else rnd.uniform(0.1, 10.0))
    return rot, psf


def gen_join(rnd):
    u = rnd.random()
    while True:
        e1, n1 = _coord(rnd), _coord(rnd)
        if u < 0.2:
            cls = 'independent'
            e2, n2 = _coord(rnd), _coord(rnd)
        elif u < 0.45:
            cls = 'polar-offset'
            d = 10 ** rnd.uniform(-4, 7)
            s, c = so.sincos_deg(rnd.uniform(0.0, 360.0))
            e2, n2 = e1 + d * s, n1 + d * c
        elif u < 0.6:
            cls = 'axis'
            d = 10 ** rnd.uniform(-3, 7) * rnd.choice([-1.0, 1.0])
            if rnd.random() < 0.5:
                e2, n2 = e1, n1 + d
            else:
                e2, n2 = e1 + d, n1
        elif u < 0.85:
            d = 10 ** rnd.uniform(-3, 7) * rnd.choice([-1.0, 1.0])
            sg = rnd.choice([-1.0, 1.0])
            along_north = rnd.random() < 0.5
            if rnd.random() < 0.5:
                cls = 'near-axis-ulp'       # cross component = +/- k ulp of the coordinate
                k = rnd.choice([1, 1, 2, 3])
                if along_north:
                    e2, n2 = e1 + sg * k * math.ulp(e1), n1 + d
                else:
                    e2, n2 = e1 + d, n1 + sg * k * math.ulp(n1)
            else:
                cls = 'near-axis-tiny'      # cross coordinate starts at zero so that a tiny component survives
                t = sg * rnd.choice(TINY)
                if along_north:
                    e1 = 0.0
                    e2, n2 = t, n1 + d
                else:
                    n1 = 0.0
                    e2, n2 = e1 + d, t
        elif u < 0.95:
            cls = 'diagonal'
            d = 10 ** rnd.uniform(-3, 6.8)
            e2, n2 = e1 + d * rnd.choice([-1.0, 1.0]), n1 + d * rnd.choice([-1.0, 1.0])
        else:
            cls = 'coincident'
            e2, n2 = e1, n1
        if max(abs(e2), abs(n2)) <= LIM:
            break
    rot, psf = _rotpsf(rnd)
    return {'k': 'join', 'cls': cls, 'p1': [e1, n1], 'p2': [e2, n2], 'rot': rot, 'psf': psf}


def explicit_joins():
    out = []
    for p1, p2 in [([0.0, 0.0], [-1e-9, 1e7]), ([1e-9, -5e6], [0.0, 5e6]), ([0.0, 0.0], [-5e-324, 1.0]),
                   ([0.0, 0.0], [-1e-9, 1.0]), ([0.0, 0.0], [-math.ulp(1e7), 1e7]), ([1e7, -1e7], [math.nextafter(1e7, 0), 1e7]),
                   ([0.0, 0.0], [1e-9, 1e7]), ([0.0, 0.0], [1e7, 1e-9]), ([0.0, 0.0], [1e7, -1e-9]),
                   ([0.0, 0.0], [1e-9, -1e7]), ([0.0, 0.0], [-1e-9, -1e7]), ([0.0, 0.0], [-1e7, -1e-9]),
                   ([0.0, 0.0], [-1e7, 1e-9]), ([0.0, 0.0], [-0.0, 1.0]), ([0.0, 0.0], [-0.0, -1.0]),
                   ([0.0, 0.0], [0.0, -1.0]), ([0.0, 0.0], [-1.0, -0.0]), ([0.0, 0.0], [-1.0, 0.0]),
                   ([0.0, 0.0], [0.0, 0.0]), ([-1e7, -1e7], [1e7, 1e7]), ([1e7, 1e7], [-1e7, -1e7]),
                   ([500.0, 500.0], [460.529, 493.218]), ([582.510, 488.332], [585.996, 463.264])]:
        cls = 'near-axis-explicit' if (0 < min(abs(p2[0] - p1[0]), abs(p2[1] - p1[1])) < 1e-6) else 'explicit'
        out.append({'k': 'join', 'cls': cls, 'p1': p1, 'p2': p2, 'rot': 2.3097222222222222, 'psf': 1.002515})
    return out


AXES = [0.0, 90.0, 180.0, 270.0]


def _bearing(rnd):
    u = rnd.random()
    if u < 0.6:
        return 'free', rnd.uniform(0.0, 360.0)
    if u < 0.75:
        return 'axis', rnd.choice(AXES)
    if u < 0.95:
        a = rnd.choice(AXES + [360.0])
        k = rnd.choice([1, 2, 5, 100])
        b = a
        sg = rnd.choice([-1, 1])
        for _ in range(k):
            b = math.nextafter(b, b + sg)
        if b < 0.0 or b >= 360.0:
            b = math.nextafter(360.0, 0.0) if a in (0.0, 360.0) else a
        return 'near-axis', b
    return 'diagonal', rnd.choice([45.0, 135.0, 225.0, 315.0])


def gen_rad(rnd):
    while True:
        e1, n1 = _coord(rnd) * 0.5, _coord(rnd) * 0.5
        cls, b = _bearing(rnd)
        d = 10 ** rnd.uniform(-3, 6.6)
        rot, psf = _rotpsf(rnd)
        if rnd.random() < 0.2:
            rot, psf = 0, 1
        if abs(e1) + abs(d * psf) <= LIM and abs(n1) + abs(d * psf) <= LIM:
            c = {'k': 'rad', 'cls': cls, 'p1': [e1, n1], 'brg': b, 'd': d, 'rot': rot, 'psf': psf}
            if rnd.random() < 0.12:
                c['acls'] = [rnd.choice(ax.ANGLE_CLASSES), rnd.choice(ax.ANGLE_CLASSES)]
                if rnd.random() < 0.5:
                    # typed-looking values: whole minutes / seconds
                    step = rnd.choice([60, 1, 3600])
                    c['brg'] = round(b * 3600 / step) * step / 3600.0
                    c['rot'] = round(float(rot) * 3600 / step) * step / 3600.0
            return c


def gen_polar(rnd):
    tcls, th = _bearing(rnd)
    cls = rnd.choice(ANGLE_ARG)
    r = rnd.choice([0.0, 1.0, 1e7]) if rnd.random() < 0.05 else 10 ** rnd.uniform(-3, 7)
    return {'k': 'polar', 'cls': cls, 'tcls': tcls, 'r': r, 'theta': th}


def gen_rect(rnd):
    c = gen_join(rnd)
    return {'k': 'rect', 'x': c['p2'][0] - c['p1'][0], 'y': c['p2'][1] - c['p1'][1]}


# ================================================================================================
# (2) zenith angle reduction
# ================================================================================================
def judge_va(ns, ctx, c):
    S = ns.survey
    z, s, hi, ht = c['z'], c['s'], c['hi'], c['ht']
    ctx.judged()
    try:
        r0 = S.va_conv(z, s)
        r = S.va_conv(z, s, hi, ht)
        hz0, dh0 = float(r0[2]), float(r0[3])
        hz, dh = float(r[2]), float(r[3])
    except Exception as ex:
        ctx.violation('va_conv:exception', c, {'exception': repr(ex)})
        return
    q = 1 + int(z // 90.0)
    ctx.count('va_q%d' % q)
    # Pythagoras on the instrument-to-target triangle: remove the height shift exactly as the code adds it
    raw = dh - hi + ht
    ctx.count('va_pythagoras')
    e = abs(hz * hz + raw * raw - s * s)
    if not ctx.ratio('va_pythagoras', e, 1e-12 * s * s):
        ctx.violation('va_conv:pythagoras', c, {'hz': hz, 'delta_ht': dh, 'hz2+dh2-s2': e, 'slope': s})
    e0 = abs(hz0 * hz0 + dh0 * dh0 - s * s)
    if not ctx.ratio('va_pythagoras', e0, 1e-12 * s * s):
        ctx.violation('va_conv:pythagoras', c, {'hz': hz0, 'delta_ht': dh0, 'hz2+dh2-s2': e0, 'slope': s, 'heights': 'default'})
    # heights shift only the height difference, by (height_inst - height_tgt)
    ctx.count('va_heights')
    if not ctx.ratio('va_heights.hz', abs(hz - hz0), 1e-12 * s):
        ctx.violation('va_conv:heights-change-hz', c, {'hz_with_heights': hz, 'hz_without': hz0})
    if not ctx.ratio('va_heights.shift', abs((dh - dh0) - (hi - ht)), 1e-12 * max(s, abs(hi), abs(ht))):
        ctx.violation('va_conv:height-shift', c, {'delta_ht': dh, 'delta_ht_without_heights': dh0, 'hi-ht': hi - ht})
    # horizontal distance = slope * sin(zenith angle), |height difference| = slope * |cos(zenith angle)|, any face
    zs, zc = so.sincos_deg(z)
    ctx.count('va_hz_closed_form')
    if not (ctx.ratio('va_closed_form.hz', abs(hz0 - s * abs(zs)), 1e-12 * s)
            and ctx.ratio('va_closed_form.dh', abs(abs(dh0) - s * abs(zc)), 1e-12 * s)):
        ctx.violation('va_conv:not-slope-times-sin-cos-of-zenith', c,
                      {'hz': hz0, 'expected_hz': s * abs(zs), 'delta_ht': dh0, 'expected_abs_delta_ht': s * abs(zc)})
    if abs(dh0) > 1e-9 * s:
        if z < 180.0:
            ctx.count('va_sign_face_left')
            if (dh0 > 0) != (zc > 0):
                ctx.violation('va_conv:height-sign', c, {'delta_ht': dh0, 'zenith': z, 'expected_sign_of': zc})
        else:
            # face-right readings: report which convention the code applies (the statement is silent)
            ctx.count('va_face_right_dh_is_minus_slope_cos_z' if (dh0 > 0) != (zc > 0)
                      else 'va_face_right_dh_is_plus_slope_cos_z')
    ctx.bucket('va', c.get('cls', '?'), q, so.decade(s), 'hi0' if hi == 0 else 'hi', 'ht0' if ht == 0 else 'ht')


def gen_va(rnd):
    u = rnd.random()
    if u < 0.6:
        cls = 'free'
        z = rnd.uniform(0.0, 360.0)
    elif u < 0.7:
        cls = 'horizontal'
        z = rnd.choice([90.0, 270.0])
    elif u < 0.8:
        cls = 'near-horizontal'
        a = rnd.choice([90.0, 270.0])
        z = a + rnd.choice([-1.0, 1.0]) * rnd.choice([math.ulp(a), 1e-12, 1e-9, 1e-6, 1e-3])
    elif u < 0.95:
        cls = 'near-vertical'
        a = rnd.choice([0.0, 180.0, 180.0, 360.0])
        t = rnd.choice([1e-9, 1e-6, 1e-3, 0.1])
        if a == 0.0:
            z = t
        elif a == 360.0:
            z = 360.0 - t
        else:
            z = 180.0 + rnd.choice([-1.0, 1.0]) * t
    else:
        cls = 'typical'
        z = rnd.choice([rnd.uniform(80.0, 100.0), rnd.uniform(260.0, 280.0)])
    if not (0.0 < z < 360.0) or z == 180.0:
        z = 45.0
    s = rnd.choice([0.1, 5e4]) if rnd.random() < 0.05 else 10 ** rnd.uniform(-1, math.log10(5e4))
    hv = [0.0, 5.0, -5.0, 1.5]
    hi = rnd.choice(hv) if rnd.random() < 0.3 else rnd.uniform(-5.0, 5.0)
    ht = rnd.choice(hv) if rnd.random() < 0.3 else rnd.uniform(-5.0, 5.0)
    return {'k': 'va', 'cls': cls, 'z': z, 's': s, 'hi': hi, 'ht': ht}


def va_domain_edges(ns, ctx):
    """What the code does exactly on and outside the ends of its ranges (reported, the statement is silent)."""
    rep = {}
    for z in (0.0, 180.0, 360.0, -1.0, 400.0):
        try:
            ns.survey.va_conv(z, 100.0)
            rep[repr(z)] = 'accepted'
        except ValueError:
            rep[repr(z)] = 'ValueError'
        except Exception as ex:      # noqa
            rep[repr(z)] = type(ex).__name__
    ctx.info['va_conv_outside_open_ranges'] = rep


# ================================================================================================
# (3) first velocity correction
# ================================================================================================
FORM_KEY = {'closed-humidity': 'atm_defined_closed_humidity', 'closed-wet-bulb': 'atm_defined_closed_wet_bulb',
            'co2': 'atm_defined_co2'}


def _corr(ns, ctx, c, form, dist, params, H):
    S = ns.survey
    T, P = c['T'], c['P']
    if form == 'closed-humidity':
        return S.first_vel_corrn(dist, params, T, P, H)
    if form == 'closed-wet-bulb':
        return S.first_vel_corrn(dist, params, T, P, wet_temp=c['wet'])
    r = core.case_rnd([c, form, dist])

    def twin():
        # another instrument's reduction in progress: other carrier, other atmosphere, other CO2 content
        S.first_vel_corrn(r.uniform(10, 5000), params, r.uniform(-10, 40), r.uniform(700, 1050), r.uniform(0, 100),
                          CO2_ppm=r.uniform(300, 600), wavelength=r.choice([0.532, 0.6328, 0.85, 1.55]))
    return core.maybe_interleaved(ctx, [c, form, dist], twin,
                                  lambda: S.first_vel_corrn(dist, params, T, P, H, CO2_ppm=c['xc'], wavelength=c['lam']), p=0.08, kmax=120)


def judge_atmo(ns, ctx, c, mon):
    S = ns.survey
    lam, T, P, xc, d, d2 = c['lam'], c['T'], c['P'], c['xc'], c['d'], c['d2']
    ctx.judged()
    try:
        params = S.first_vel_params(lam, c['freq'], c['nref'], c['unit'])
        pc, pd = float(params[0]), float(params[1])
        if not (math.isfinite(pc) and math.isfinite(pd)):
            raise ArithmeticError('non-finite parameters %r' % (params,))
    except Exception as ex:
        ctx.violation('first_vel_params:exception', c, {'exception': repr(ex)})
        return
    ctx.count('first_vel_params')
    wet = c.get('wet')
    if wet is None:
        H = c['H']
        forms = ['closed-humidity', 'co2']
        e_hpa = so.e_giacomo_hpa(H, T)
    else:
        e_wb = so.e_psychrometer_hpa(T, wet, P)
        H = 100.0 * e_wb / (so.svp_giacomo_pa(T) / 100.0)      # equivalent relative humidity for the CO2 form
        forms = ['closed-wet-bulb'] + (['co2'] if 0.0 <= H <= 100.0 else [])
        e_hpa = so.e_giacomo_hpa(H, T)
    if T == 0.0:
        ctx.count('atm_zero_temp')
    if wet is None and H == 0.0:
        ctx.count('atm_zero_humidity')
    if wet is not None and wet == 0.0:
        ctx.count('atm_zero_wet_bulb')
    got = {}
    for form in forms:
        del mon.group_calls[:]
        del mon.hum_calls[:]
        try:
            v = float(_corr(ns, ctx, c, form, d, params, H))
            v2 = float(_corr(ns, ctx, c, form, d2, params, H))
        except Exception as ex:
            ctx.violation('first_vel_corrn:exception#' + form, c,
                          {'exception': repr(ex), 'form': form, 'T': T, 'humidity': None if wet is not None else H,
                           'wet_bulb': wet})
            continue
        if not (math.isfinite(v) and math.isfinite(v2)):
            ctx.violation('first_vel_corrn:not-finite#' + form, c, {'correction': v, 'form': form})
            continue
        ctx.count(FORM_KEY[form])
        got[form] = v
        # proportional to the measured distance
        ctx.count('atm_proportional')
        f1, f2 = v / d, v2 / d2
        if not ctx.ratio('atm_proportional', abs(f1 - f2), 1e-12 * max(abs(f1), abs(f2))):
            ctx.violation('first_vel_corrn:not-proportional#' + form, c,
                          {'form': form, 'corr/d': f1, 'corr2/d2': f2, 'd': d, 'd2': d2})
        if form == 'co2':
            judge_co2_identity(ns, ctx, c, mon, v, H, e_hpa)
    # closed form against the CO2 form: 1 ppm of the distance at 420 ppm, carrier 0.5..1.0 um, e <= 40 hPa
    closed = got.get('closed-humidity', got.get('closed-wet-bulb'))
    if closed is not None and 'co2' in got and xc == 420 and 0.5 <= lam <= 1.0 and 0.0 <= e_hpa <= 40.0:
        ctx.count('atm_agree_1ppm')
        ppm = abs(closed - got['co2']) / d * 1e6
        ctx.maxi('closed_vs_co2_ppm', ppm)
        if not ctx.ratio('atm_agree_1ppm', ppm, 1.0):
            ctx.violation('first_vel_corrn:closed-vs-co2-over-1ppm#' + forms[0], c,
                          {'closed_form_m': closed, 'co2_form_m': got['co2'], 'difference_ppm': ppm, 'e_hPa': e_hpa})
    ctx.bucket('atmo', forms[0], 'T0' if T == 0 else ('T<0' if T < 0 else 'T>0'), int(lam * 5), int(P // 150),
               'e0' if e_hpa == 0 else int(min(e_hpa, 99.0) // 10), 'xc420' if xc == 420 else int(xc // 100),
               'nref' if c['nref'] is not None else 'freq')


def judge_co2_identity(ns, ctx, c, mon, v, H, e_hpa):
    """CO2 form = (n_ref / n_g - 1) * d with n_g from the library's own group refractivity at the Giacomo
    vapour pressure; the arguments the library handed to its refractivity routine are observed as well."""
    S = ns.survey
    lam, T, P, xc, d = c['lam'], c['T'], c['P'], c['xc'], c['d']
    mon.m_grp.enabled = False
    try:
        ng1 = float(S.group_refractivity(lam, T, P, e_hpa, xc))
    except Exception as ex:
        ctx.violation('refractivity:exception', {'k': 'disp', 'lam': lam, 'T': T, 'P': P, 'e': e_hpa, 'xc': xc},
                      {'exception': repr(ex)})
        return
    finally:
        mon.m_grp.enabled = True
    n_ref = so.n_ref_of(c['nref'], c['freq'], c['unit'])
    n_g = 1.0 + ng1 / 1.0e8
    want = d * (n_ref - n_g) / n_g
    ctx.count('atm_co2_identity')
    if not ctx.ratio('atm_co2_identity', abs(v - want), 1e-12 * d):
        ctx.violation('first_vel_corrn:co2-form-not-nref-over-ng', c,
                      {'correction_m': v, 'expected_m': want, 'n_ref': n_ref, 'n_g': n_g, 'e_hPa': e_hpa})
    # what the library passed on (two calls were made: distances d and d2; judge the first)
    if mon.group_calls:
        ctx.count('atm_group_call_observed')

        def matches(a, k):
            try:
                return (len(a) + len(k) == 5 and not k and float(a[0]) == lam and float(a[1]) == T and float(a[2]) == P
                        and float(a[4]) == xc and abs(float(a[3]) - e_hpa) <= 1e-12 * max(e_hpa, 1e-300))
            except Exception:
                return False
        # some call observed meanwhile must carry the expected arguments (an interleaved twin call of another reduction
        # shows in the same trace)
        ok = any(matches(a_, k_) for a_, k_, _r, _e in mon.group_calls)
        a, k, r, exc = mon.group_calls[0]
        if not ok:
            ctx.violation('first_vel_corrn:refractivity-arguments', c,
                          {'observed_args': [repr(x) for x in a], 'observed_kwargs': repr(k),
                           'expected': [lam, T, P, e_hpa, xc]})
    else:
        ctx.violation('first_vel_corrn:refractivity-arguments', c, {'observed': 'group_refractivity was not called'})


def gen_atmo(rnd):
    lam = rnd.uniform(0.5, 1.0) if rnd.random() < 0.6 else rnd.uniform(0.4, 1.6)
    if rnd.random() < 0.05:
        lam = rnd.choice([0.4, 0.5, 1.0, 1.6, 0.85, 0.6328])
    u = rnd.random()
    T = 0.0 if u < 0.12 else (rnd.choice([-20.0, 45.0, 15.0]) if u < 0.17 else rnd.uniform(-20.0, 45.0))
    P = rnd.choice([650.0, 1100.0, 1013.25]) if rnd.random() < 0.05 else rnd.uniform(650.0, 1100.0)
    xc = 420 if rnd.random() < 0.5 else (rnd.choice([300, 600, 450, 400.0]) if rnd.random() < 0.2 else rnd.uniform(300.0, 600.0))
    d = rnd.choice([1.0, 5e4]) if rnd.random() < 0.05 else 10 ** rnd.uniform(0, math.log10(5e4))
    d2 = 10 ** rnd.uniform(0, math.log10(5e4))
    n = rnd.uniform(1.00024, 1.00032) if rnd.random() < 0.8 else rnd.choice([1.000281783, 1.0002863, 1.00027350])
    if rnd.random() < 0.7:
        nref, freq, unit = n, rnd.choice([0, 49951334.24, None]), None
    else:
        freq = rnd.choice([14985400.0, 49951334.24, 1.0e8 * rnd.uniform(0.1, 5.0)])
        nref, unit = None, so.C_VACUUM / (2.0 * freq * n)
    c = {'k': 'atmo', 'lam': lam, 'nref': nref, 'freq': freq, 'unit': unit, 'T': T, 'P': P, 'xc': xc, 'd': d, 'd2': d2}
    if rnd.random() < 0.65:
        v = rnd.random()
        c['H'] = 0.0 if v < 0.12 else (100.0 if v < 0.16 else rnd.uniform(0.0, 100.0))
        if rnd.random() < 0.5 and so.e_giacomo_hpa(c['H'], T) > 40.0:
            c['H'] = c['H'] * 40.0 / so.e_giacomo_hpa(c['H'], T) * rnd.random()
        c['wet'] = None
    else:
        c['H'] = None
        for _ in range(50):
            v = rnd.random()
            if v < 0.2:
                wet = 0.0
                if u >= 0.12:
                    c['T'] = T = rnd.uniform(0.0, 8.0) if rnd.random() < 0.9 else 0.0
            elif v < 0.3:
                wet = T
            else:
                wet = T - rnd.uniform(0.0, 12.0) * rnd.random()
            if wet <= T and so.e_psychrometer_hpa(T, wet, P) >= 0.0:
                break
        else:
            wet = T
        c['wet'] = wet
    return c


# ================================================================================================
# (4) dispersion identity
# ================================================================================================
def judge_disp(ns, ctx, c, mode=None):
    S = ns.survey
    lam, T, P, e, xc = c['lam'], c['T'], c['P'], c['e'], c['xc']
    sig = 1.0 / lam
    ctx.judged()

    def f(sg):
        return S.phase_refractivity(1.0 / sg, T, P, e, xc)
    try:
        r = core.case_rnd(c)

        def twin():
            getattr(S, r.choice(['phase_refractivity', 'group_refractivity']))(
                r.choice([0.532, 0.6328, 0.85, 1.55]), r.uniform(-10, 40), r.uniform(700, 1050), r.uniform(0, 35), r.uniform(300, 600))
        npp = float(core.maybe_interleaved(ctx, [c, 'phase'], twin, lambda: S.phase_refractivity(lam, T, P, e, xc), p=0.08, kmax=70))
        ngg = float(core.maybe_interleaved(ctx, [c, 'group'], twin, lambda: S.group_refractivity(lam, T, P, e, xc), p=0.08, kmax=70))
    except Exception as ex:
        ctx.violation('refractivity:exception', c, {'exception': repr(ex)})
        return
    method = 'complex-step'
    try:
        re, dnds = so.complex_step(f, sig)
        if not (abs(re - npp) <= 1e-12 * abs(npp)):
            raise TypeError('complex evaluation does not reproduce the real one: %r vs %r' % (re, npp))
    except (TypeError, ValueError, AttributeError):
        method = 'richardson'
        dnds = so.richardson(f, sig)
    # the ambient indices themselves: the module documents Ciddor (1996); an independently typed evaluation of the published
    # equations must agree within 0.01 ppm of the index (1.0 in the returned unit 1e-8; two orders below the 1 ppm the
    # statement allows between the two forms of the correction)
    op, og = so.ciddor_1996(lam, T, P, e, xc)
    ctx.count('refractivity_against_independent_ciddor')
    okp = ctx.ratio('phase_refractivity_vs_ciddor', abs(npp - op), 1.0)
    okg = ctx.ratio('group_refractivity_vs_ciddor', abs(ngg - og), 1.0)
    if not (okp and okg):
        ctx.violation('refractivity:differs-from-ciddor-1996', c,
                      {'phase': npp, 'phase_ciddor': op, 'group': ngg, 'group_ciddor': og, 'unit': '(n - 1) x 1e8', 'tolerance': 1.0})
    ctx.count('dispersion_identity')
    ctx.count('dispersion_by_' + method)
    want = npp + sig * dnds
    err = abs(ngg - want) / abs(ngg) if ngg != 0 else math.inf
    if not ctx.ratio('dispersion_identity', err, 1e-10):
        ctx.violation('refractivity:dispersion-identity', c,
                      {'group': ngg, 'phase': npp, 'sigma*dn/dsigma': sig * dnds, 'phase+dispersion': want,
                       'relative_difference': err, 'derivative_by': method})
    if not (npp > 0 and ngg > npp):
        ctx.violation('refractivity:not-normal-dispersion', c, {'group': ngg, 'phase': npp})
    ctx.bucket('disp', int(lam * 10), 'T0' if T == 0 else int(T // 15), int(P // 150), 'e0' if e == 0 else int(e // 10),
               'xc420' if xc == 420 else int(xc // 100))


def gen_disp(rnd):
    lam = rnd.choice([0.4, 1.6, 0.5, 1.0, 0.85, 0.6328]) if rnd.random() < 0.05 else rnd.uniform(0.4, 1.6)
    T = 0.0 if rnd.random() < 0.05 else rnd.uniform(-20.0, 45.0)
    P = rnd.uniform(650.0, 1100.0)
    u = rnd.random()
    e = 0.0 if u < 0.08 else (40.0 if u < 0.1 else (10 ** rnd.uniform(-3, 1.6) if u < 0.3 else rnd.uniform(0.0, 40.0)))
    e = min(e, 40.0)
    v = rnd.random()
    xc = 420 if v < 0.2 else (rnd.choice([300, 450, 600, 400]) if v < 0.3 else rnd.uniform(300.0, 600.0))
    return {'k': 'disp', 'lam': lam, 'T': T, 'P': P, 'e': e, 'xc': xc}


def selfcheck(ns, ctx, with_mpmath):
    try:
        res = so.selfcheck_tools()
        res = dict(res) if isinstance(res, dict) else {'tools': res}
        res['ciddor_group_minus_phase_plus_dispersion_rel'] = float('%.3g' % so.ciddor_selfcheck())
    except (ValueError, AssertionError) as ex:
        raise core.Inconclusive('oracle self-check failed: %s' % ex)
    if with_mpmath:
        # second derivation of the derivative of the *library's* phase_refractivity: mpmath at 30 digits
        try:
            import mpmath
        except Exception as ex:
            raise core.Inconclusive('mpmath not available for the oracle self-check: %r' % (ex,))
        S = ns.survey
        worst = 0.0
        for lam, T, P, e, xc in ((0.85, 6.8, 960.8, 5.8, 420.0), (0.41, 44.0, 1090.0, 39.0, 600.0), (1.55, -19.0, 660.0, 0.5, 300.0)):
            try:
                with mpmath.workdps(30):
                    d_mp = float(mpmath.diff(lambda sg: S.phase_refractivity(1 / sg, T, P, e, xc), mpmath.mpf(1) / mpmath.mpf(lam)))
                _, d_cs = so.complex_step(lambda sg: S.phase_refractivity(1.0 / sg, T, P, e, xc), 1.0 / lam)
            except Exception:
                ctx.count('selfcheck_skipped_library_exception')     # the judges report the library's exception
                continue
            worst = max(worst, abs(d_mp - d_cs) / abs(d_mp))
        res['complex_step_vs_mpmath_on_phase_refractivity'] = worst
        if worst > 1e-11:
            raise core.Inconclusive('complex-step derivative of phase_refractivity disagrees with mpmath: %r' % worst)
    for k, v in res.items():
        ctx.maxi('selfcheck.' + k, v)


# ================================================================================================
# shards
# ================================================================================================
TABLES_EDITED = [False]


def run_case(ns, ctx, c, mon):
    k = c['k']
    if TABLES_EDITED[0] and k in ('atmo', 'disp'):
        c['after_caller_edited_tables'] = True       # recorded with a witness: a replay fetches and edits the tables first
    if k == 'join':
        judge_join(ns, ctx, c)
    elif k == 'rad':
        judge_rad(ns, ctx, c)
    elif k == 'polar':
        judge_polar(ns, ctx, c)
    elif k == 'rect':
        judge_rect(ns, ctx, c)
    elif k == 'va':
        judge_va(ns, ctx, c)
    elif k == 'atmo':
        judge_atmo(ns, ctx, c, mon)
    elif k == 'disp':
        judge_disp(ns, ctx, c)
    else:
        raise core.Inconclusive('unknown case kind %r' % (k,))


def caller_uses_tables(ns, ctx, rnd):
    """Between judged reductions a caller fetches the library's tables and parameters (for a report, for its own formulae) and
    edits what it got - also through a shallow copy, whose rows are still the rows it was handed.  Unjudged; the reductions
    judged afterwards must be as right as before."""
    S = ns.survey
    got = [core.unjudged(ctx, S.refractivity_constants), core.unjudged(ctx, S.mets_partial_differentials),
           core.unjudged(ctx, S.first_vel_params, 0.85, 1.5e7)]
    edits = 0
    for g in got:
        if g is None:
            continue
        edits += core.caller_edits(list(g) if isinstance(g, (list, tuple)) and rnd.random() < 0.5 else g)
    TABLES_EDITED[0] = True
    ctx.count('tables_fetched_by_caller_between_reductions')
    ctx.count('in_place_edits_of_fetched_tables', edits)


def run_shard(spec, ctx):
    ns = core.load_repo()
    kind = spec['kind']
    selfcheck(ns, ctx, with_mpmath=(kind == 'disp'))
    rnd = random.Random('%s-%s-%s' % (ID, spec['seed'], spec['shard']))
    mon = Mon(ns, ctx)
    try:
        n = spec['n']
        if kind == 'plane':
            if spec['part'] == 0:
                for c in explicit_joins():
                    run_case(ns, ctx, c, mon)
            gens = [gen_join, gen_join, gen_rad, gen_polar, gen_rect]
            for i in range(n):
                c = gens[i % len(gens)](rnd)
                if i < 5:
                    ctx.sample(c)
                run_case(ns, ctx, c, mon)
        elif kind == 'va':
            if spec['part'] == 0:
                va_domain_edges(ns, ctx)
            for i in range(n):
                c = gen_va(rnd)
                if i < 2:
                    ctx.sample(c)
                run_case(ns, ctx, c, mon)
        elif kind == 'atmo':
            for i in range(n):
                c = gen_atmo(rnd)
                if i < 2:
                    ctx.sample(c)
                if i % 25 == 3:
                    caller_uses_tables(ns, ctx, rnd)
                run_case(ns, ctx, c, mon)
                if rnd.random() < 0.3:
                    # the same reduction with ONE element changed (another carrier wavelength in the same atmosphere, the
                    # same wavelength at another pressure ...), then the original again
                    c2 = dict(c)
                    which = rnd.choice(['lam', 'lam', 'P', 'T', 'xc', 'd'])
                    if which == 'lam':
                        c2['lam'] = rnd.choice([0.5, 0.6328, 0.85, 1.0, round(rnd.uniform(0.5, 1.0), 3)])
                    elif which == 'P':
                        c2['P'] = min(1100.0, max(650.0, c['P'] + rnd.choice([-50.0, 25.0, 1.0])))
                    elif which == 'T' and c.get('wet') is None:
                        c2['T'] = min(45.0, max(-20.0, c['T'] + rnd.choice([-10.0, 5.0, 0.5])))
                    elif which == 'xc':
                        c2['xc'] = rnd.choice([300, 420, 450, 600])
                    else:
                        c2['d'] = c['d'] * rnd.choice([0.5, 2.0, 10.0])
                    if c2 != c:
                        run_case(ns, ctx, c2, mon)
                        run_case(ns, ctx, c, mon)
                        ctx.count('one_element_changed_sequences')
        elif kind == 'disp':
            for i in range(n):
                c = gen_disp(rnd)
                if i < 2:
                    ctx.sample(c)
                if i % 25 == 3:
                    caller_uses_tables(ns, ctx, rnd)
                run_case(ns, ctx, c, mon)
        elif kind == 'ambient':
            ambient(ns, ctx)
    finally:
        mon.close()


def ambient(ns, ctx):
    """The repository's own survey tests with the monitors attached: realistic call patterns, and a guard
    against a post-condition that is stricter than the code's legitimate behaviour."""
    import importlib
    import io
    import unittest
    mod = importlib.import_module('geodepy.tests.test_survey')
    core._assert_under(mod, ns.root)
    suite = unittest.defaultTestLoader.loadTestsFromModule(mod)
    res = unittest.TextTestRunner(stream=io.StringIO(), verbosity=0).run(suite)
    ctx.info['ambient_repo_tests'] = {'run': res.testsRun, 'failures': len(res.failures), 'errors': len(res.errors)}
    ctx.count('ambient_tests_run', res.testsRun)


def replay(case, ctx):
    ns = core.load_repo()
    mon = Mon(ns, ctx)
    try:
        if case.get('after_caller_edited_tables'):
            caller_uses_tables(ns, ctx, random.Random('%s-replay' % ID))
        run_case(ns, ctx, case, mon)
    finally:
        mon.close()
