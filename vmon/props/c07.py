"""C07 14-parameter transformation advances parameters linearly in time."""
import datetime
import math
import random

import numpy as np

from .. import core
from ..oracles import helmert as hx
from . import c06

ID = 'C07'
TITLE = 'conform14 = conform7 with parameters advanced by rate * days/365.25; ATRF2014<->GDA2020 wrappers'
LEVEL = 'exploration'
RULE = ('every shipped Transformation with a date reference epoch (all enumerated each run) and random dated sets x epochs '
        '1980-01-01..2060-12-31 incl. the reference epoch, leap days, epochs before the reference epoch, consecutive days x points '
        'with |x|,|y|,|z| <= 1e7 m in all octants.  conform14 judged against the exact rational formula with exactly propagated '
        'parameters (2 um); equals conform7 at the reference epoch; set then negated set at the same epoch closes within the C06 '
        'bound; ATRF2014<->GDA2020 wrappers are mutual inverses within that bound and bit-exact identity at 2020-01-01; with a '
        'covariance and uncertainties the result equals J Q J^T with sigma(t)^2 = sigma^2 + (sigma_rate * dt)^2.  '
        '3 % of the judged calls are preceded by calls the property does not speak about (strings, None, numbers or malformed covariance where a parameter set, a date or a 3x3 matrix is required; a Transformation plus a number): not judged, exceptions swallowed.  expectations for shipped sets and for the plate-motion wrappers are built from the parameters as imported (a constant rewritten by a call shows as a wrong result); a fifth of the wrapper cases are preceded by ONE call at exactly the reference epoch.  distinct = set x epoch class x octant x radius decade A share of the cases hands conform14 a set that was first moved to another date (set + date; its reference epoch must be that date), and a quarter of the random sets have parameters of the size C06 allows.')
ASSUMPTIONS = ['helmert_exact (self-validated each shard)', 'Julian year = 365.25 days counted from datetime.date ordinals',
               'uncertainty of a propagated parameter: sqrt(sd^2 + (sd_rate * dt)^2), as documented in Transformation.__add__']
N = {'quick': 1500, 'thorough': 25000}
SHARDS = {'quick': 16, 'thorough': 32}
REQUIRED_COUNTERS = ['single_calls_at_reference_epoch', 'unjudged_calls_before_a_judged_one', 'wrapper_calls_with_covariance', 'same_label_sequences', 'shipped_sets_calls', 'random_sets_calls', 'reference_epoch_cases', 'before_reference_epoch', 'leap_day_cases',
                     'wrapper_roundtrips', 'wrapper_identity', 'negation_roundtrips', 'vcv_judged', 'sets_moved_in_time_before_use', 'random_sets_with_large_parameters']
D0 = datetime.date(1980, 1, 1).toordinal()
D1 = datetime.date(2060, 12, 31).toordinal()


def plan(tier, seed):
    return [{'n': N[tier], 'nshards': SHARDS[tier]} for _ in range(SHARDS[tier])]


def dated(ns):
    return {k: v for k, v in c06.catalogue(ns).items() if isinstance(v.ref_epoch, datetime.date)}


def rand_epoch(rnd, ref):
    r = rnd.random()
    if r < 0.12:
        return ref, 'reference'
    if r < 0.22:
        return datetime.date(rnd.choice([1980, 1984, 2000, 2020, 2024, 2060]), 2, 29), 'leap-day'
    if r < 0.30:
        return ref + datetime.timedelta(days=rnd.choice([1, -1, 2, 365, -366])), 'adjacent-day'
    if r < 0.36:
        return rnd.choice([datetime.date(1980, 1, 1), datetime.date(2060, 12, 31), datetime.date(2020, 1, 1)]), 'range-end'
    d = datetime.date.fromordinal(rnd.randint(D0, D1))
    return d, 'random'


LARGE = [0]


def rand_dated_set(ns, rnd, with_sd):
    C = ns.constants
    kw = dict(tx=rnd.uniform(-1, 1), ty=rnd.uniform(-1, 1), tz=rnd.uniform(-1, 1), sc=rnd.uniform(-0.1, 0.1),
              rx=rnd.uniform(-0.05, 0.05), ry=rnd.uniform(-0.05, 0.05), rz=rnd.uniform(-0.05, 0.05),
              d_tx=rnd.uniform(-0.01, 0.01), d_ty=rnd.uniform(-0.01, 0.01), d_tz=rnd.uniform(-0.01, 0.01),
              d_sc=rnd.uniform(-0.001, 0.001), d_rx=rnd.uniform(-0.002, 0.002), d_ry=rnd.uniform(-0.002, 0.002),
              d_rz=rnd.uniform(-0.002, 0.002))
    if rnd.random() < 0.25:
        # a classical-datum or site-grid link given an epoch and rates: parameters of the size C06 allows (hundreds of metres,
        # tens of ppm, tens of arc-seconds)
        kw.update(tx=rnd.uniform(-1000, 1000), ty=rnd.uniform(-1000, 1000), tz=rnd.uniform(-1000, 1000), sc=rnd.uniform(-100, 100),
                  rx=rnd.uniform(-50, 50), ry=rnd.uniform(-50, 50), rz=rnd.uniform(-50, 50))
        LARGE[0] += 1
    if rnd.random() < 0.5:
        kw = {k: round(v, 8) for k, v in kw.items()}
    if rnd.random() < 0.5:
        # structured sets: most parameters / rates zero (like the plate-motion model: rotation rates only; or a scale-rate
        # only set), each non-empty pattern of zero rates is a class of its own
        keep = rnd.sample(list(hx.P14), rnd.randint(1, 4))
        if rnd.random() < 0.5:
            keep = [rnd.choice(['d_tx', 'd_ty', 'd_tz', 'd_sc', 'd_rx', 'd_ry', 'd_rz'])] + rnd.sample(list(hx.P7), rnd.randint(0, 2))
        kw = {k: (v if k in keep else 0.0) for k, v in kw.items()}
    sd = None
    if with_sd:
        sd = C.TransformationSD(**{k: rnd.uniform(0, 1e-3) for k in
                                   ('sd_tx', 'sd_ty', 'sd_tz', 'sd_sc', 'sd_rx', 'sd_ry', 'sd_rz', 'sd_d_tx', 'sd_d_ty', 'sd_d_tz',
                                    'sd_d_sc', 'sd_d_rx', 'sd_d_ry', 'sd_d_rz')})
    ep = datetime.date(rnd.randint(1985, 2025), rnd.randint(1, 12), rnd.randint(1, 28))
    return C.Transformation('A', 'B', ep, tf_sd=sd, **kw)


def spec_of(t):
    d = {p: getattr(t, p) for p in hx.P14}
    d['ref_epoch'] = str(t.ref_epoch)
    if t.tf_sd is not None:
        d['sd'] = {k: getattr(t.tf_sd, k) for k in vars(t.tf_sd)}
    return d


def set_from_spec(ns, spec):
    C = ns.constants
    if isinstance(spec, str):
        return getattr(C, spec)
    sd = C.TransformationSD(**spec['sd']) if 'sd' in spec else None
    y, m, d = (int(v) for v in spec['ref_epoch'].split('-'))
    return C.Transformation('A', 'B', datetime.date(y, m, d), tf_sd=sd, **{p: spec[p] for p in hx.P14})


def sd_at(tf_sd, dt):
    out = {}
    for k in ('tx', 'ty', 'tz', 'sc', 'rx', 'ry', 'rz'):
        s = getattr(tf_sd, 'sd_' + k)
        r = getattr(tf_sd, 'sd_d_' + k)
        out['sd_' + k] = math.sqrt(s ** 2 + (r * dt) ** 2)
    return out


PRISTINE = {}


def snapshot_pristine(ns):
    for name, t in c06.catalogue(ns).items():
        if t.tf_sd is not None:
            PRISTINE[name] = dict(vars(t.tf_sd))


UNJUDGED = [('conform7', ('x', 1.0, 2.0, '$t')), ('conform7', (-4e6, 2.5e6, -3.6e6, None)), ('conform7', (-4e6, 2.5e6, -3.6e6, '$t', 'vcv')),
            ('conform7', (-4e6, 2.5e6, -3.6e6, '$t', [[1.0, 2.0]])), ('conform14', (-4e6, 2.5e6, -3.6e6, '2020-01-01', '$t')),
            ('conform14', (-4e6, 2.5e6, -3.6e6, 2020.5, '$t')), ('conform14', (-4e6, 2.5e6, -3.6e6, None, '$t')),
            ('conform14', (float('nan'), 'y', None, '$date', '$t')), ('add', ('$t', 5)), ('add', ('$t', 'tomorrow')), ('add', ('$t', None)),
            ('conform14', (-4e6, 2.5e6, -3.6e6, '$date', '$t', [[1.0, 2.0]]))]


def run_unjudged(ns, ctx, case, t):
    """calls the property does not speak about (rejected argument types and shapes) made before the judged one"""
    for k in case.get('before') or ():
        name, args = UNJUDGED[k % len(UNJUDGED)]
        args = [t if a == '$t' else (datetime.date(2021, 3, 4) if a == '$date' else a) for a in args]
        if name == 'add':
            core.unjudged(ctx, lambda a, b: a + b, *args)
        else:
            core.unjudged(ctx, getattr(ns.transform, name), *args)


def maybe_via(rnd, case, ref):
    """In a share of the cases the set is first moved to another date (set + date) and that set is handed to conform14.  The
    uncertainties of a moved set are those at its new date, so these cases carry no covariance."""
    if rnd.random() < 0.2:
        ep, _ = rand_epoch(rnd, ref)
        case['via'] = str(ep)
        case['vcv'], case['vkind'] = None, 'none'
        case.pop('vrep', None)


def judge(ns, ctx, case):
    C, T = ns.constants, ns.transform
    t = set_from_spec(ns, case['set'])
    shipped = isinstance(case['set'], str)
    run_unjudged(ns, ctx, case, t)
    y, m, d = (int(v) for v in case['epoch'].split('-'))
    ep = datetime.date(y, m, d)
    x, yy, z = case['xyz']
    V = None if case.get('vcv') is None else np.array(case['vcv'], dtype=float)
    ctx.judged()
    ctx.count('shipped_sets_calls' if shipped else 'random_sets_calls')
    cls = case.get('eclass', 'random')
    if ep == t.ref_epoch:
        ctx.count('reference_epoch_cases')
    if ep < t.ref_epoch:
        ctx.count('before_reference_epoch')
    if (ep.month, ep.day) == (2, 29):
        ctx.count('leap_day_cases')
    rad = math.sqrt(x * x + yy * yy + z * z)
    ctx.bucket(case['set'] if shipped else 'random', cls, 'before' if ep < t.ref_epoch else 'after',
               ''.join('+' if c >= 0 else '-' for c in (x, yy, z)), int(math.log10(rad)) if rad >= 1 else 0)
    p = hx.params_at(c06.as_imported(ns, case['set']) if shipped else t, ep)
    # uncertainties as published: for shipped sets the snapshot taken right after import (an earlier call must not
    # have changed them), for generated sets the values they were built with
    if shipped:
        sd_before = PRISTINE.get(case['set'])
    else:
        sd_before = case['set'].get('sd')
    tt = t
    if case.get('via'):
        # the set handed over is one that was itself obtained by moving the set in time (set + date): it is the same
        # time-dependent set, referenced to that date (one more rounding of its parameters to 8 decimals: < 0.5 um)
        y1, m1, d1 = (int(v) for v in case['via'].split('-'))
        via = datetime.date(y1, m1, d1)
        try:
            tt = t + via
        except Exception as e:
            ctx.violation('__add__:exception', case, {'exception': repr(e)})
            return
        ctx.count('sets_moved_in_time_before_use')
        if getattr(tt, 'ref_epoch', None) != via:
            ctx.violation('__add__:reference-epoch-not-moved', case, {'ref_epoch': str(getattr(tt, 'ref_epoch', None)), 'moved_to': str(via)})
    try:
        Vc = V
        if V is not None and case.get('vrep'):
            Vc = core.rep_array(case['vrep'], V)
            ctx.count('covariance_delivered_as:' + case['vrep'])
        if case.get('rep'):
            ctx.count('argument_representation:' + case['rep'])
        if case.get('shape'):
            ctx.count('call_shape:' + case['shape'])
        r = core.shaped_call(T.conform14, ['x', 'y', 'z', 'to_epoch', 'trans', 'vcv'],
                             list(core.rep_values(case.get('rep'), x, yy, z)) + [ep, tt, Vc], case.get('shape'),
                             omit=('vcv',) if V is None else ())
    except Exception as e:
        ctx.violation('conform14:exception', case, {'exception': repr(e)})
        return
    ex = hx.apply(x, yy, z, p)
    dist = math.dist(r[:3], ex)
    if not ctx.ratio('C07.point', dist, 2e-6):
        ctx.violation('conform14:point-differs-from-propagated-formula', case, {'lib': list(r[:3]), 'exact': list(ex), 'dist_m': dist})
    if ep == t.ref_epoch:
        r7 = T.conform7(x, yy, z, t)
        d7 = math.dist(r[:3], r7[:3])
        if d7 > (0.0 if shipped and not case.get('via') else 2e-6):
            ctx.violation('conform14:differs-from-conform7-at-reference-epoch', case, {'conform14': list(r[:3]), 'conform7': list(r7[:3])})
    # set then negated set at the same epoch
    try:
        back = T.conform14(r[0], r[1], r[2], ep, -t)
        ctx.count('negation_roundtrips')
        miss = math.dist(back[:3], (x, yy, z))
        exact_res = hx.apply(*hx.apply_exact(x, yy, z, p), hx.negated(p))
        bound = math.dist(exact_res, (x, yy, z)) + 5e-6
        ctx.maxi('C07.negation_roundtrip_m', miss)
        if miss > bound:
            ctx.violation('conform14:negation-roundtrip', case, {'miss_m': miss, 'bound_m': bound})
    except Exception as e:
        ctx.violation('conform14:exception', case, {'exception': repr(e), 'with': 'negated set'})
    # covariance
    has_sd = type(t.tf_sd) is C.TransformationSD and all(v is not None for v in (sd_before or {}).values())
    if V is not None and has_sd:
        ctx.count('vcv_judged')
        out = r[3]
        if out is None:
            ctx.violation('conform14:no-covariance-returned', case, {})
        else:
            dt = float(hx.years_between(t.ref_epoch, ep))
            sdt = sd_at(type('S', (), sd_before), dt)
            A, B = hx.jqj(x, yy, z, p, sdt, V)
            E = A + B
            scale = max(np.abs(E).max(), 1e-300)
            dev = np.abs(np.asarray(out) - E).max() / scale
            # the library propagates with parameters rounded to 8 decimals: relative effect <= 1e-8
            if not ctx.ratio('C07.vcv', dev, 1e-7):
                ctx.violation('conform14:covariance-not-JQJt-at-epoch', case, {'returned': np.asarray(out).tolist(),
                                                                               'expected': E.tolist(), 'rel_dev': float(dev)})


def judge_wrappers(ns, ctx, case):
    T = ns.transform
    y, m, d = (int(v) for v in case['epoch'].split('-'))
    ep = datetime.date(y, m, d)
    x, yy, z = case['xyz']
    ctx.judged()
    ctx.bucket('wrapper', ep.year // 10, ''.join('+' if c >= 0 else '-' for c in (x, yy, z)))
    V = None if case.get('vcv') is None else np.array(case['vcv'], dtype=float)
    kw = {} if V is None else {'vcv': V}
    if V is not None:
        ctx.count('wrapper_calls_with_covariance')
    single = case.get('single_call_at_reference_epoch')
    if single:
        ref = datetime.date(2020, 1, 1)
        ctx.count('single_calls_at_reference_epoch')
        try:
            if single.startswith('conform14:'):
                one = T.conform14(x, yy, z, ref, getattr(ns.constants, single.split(':')[1]))
            else:
                one = getattr(T, single)(x, yy, z, ref)
            if tuple(one[:3]) != (x, yy, z):
                ctx.violation('wrappers:not-identity-at-2020', case, {'call': single, 'result': list(one[:3])})
        except Exception as e:
            ctx.violation('wrappers:exception', case, {'exception': repr(e), 'call': single})
    try:
        f = T.transform_atrf2014_to_gda2020(x, yy, z, ep, **kw)
        b = T.transform_gda2020_to_atrf2014(f[0], f[1], f[2], ep, **kw)
        f2 = T.transform_gda2020_to_atrf2014(x, yy, z, ep, **kw)
        b2 = T.transform_atrf2014_to_gda2020(f2[0], f2[1], f2[2], ep, **kw)
    except Exception as e:
        ctx.violation('wrappers:exception', case, {'exception': repr(e)})
        return
    ctx.count('wrapper_roundtrips')
    t = ns.constants.atrf2014_to_gda2020
    p = hx.params_at(c06.as_imported(ns, 'atrf2014_to_gda2020'), ep)
    exact_res = hx.apply(*hx.apply_exact(x, yy, z, p), hx.negated(p))
    bound = math.dist(exact_res, (x, yy, z)) + 5e-6
    for name, res in (('atrf->gda->atrf', b), ('gda->atrf->gda', b2)):
        miss = math.dist(res[:3], (x, yy, z))
        ctx.maxi('C07.wrapper_roundtrip_m', miss)
        if miss > bound:
            ctx.violation('wrappers:not-mutual-inverses', case, {'direction': name, 'miss_m': miss, 'bound_m': bound})
    ex = hx.apply(x, yy, z, p)
    if math.dist(f[:3], ex) > 2e-6:
        ctx.violation('wrappers:atrf2014_to_gda2020-not-plate-motion-model', case, {'lib': list(f[:3]), 'exact': list(ex)})
    exr = hx.apply(x, yy, z, hx.negated(p))
    if math.dist(f2[:3], exr) > 2e-6:
        ctx.violation('wrappers:gda2020_to_atrf2014-not-negated-plate-motion-model', case, {'lib': list(f2[:3]), 'exact': list(exr)})
    if ep == datetime.date(2020, 1, 1):
        ctx.count('wrapper_identity')
        if tuple(f[:3]) != (x, yy, z) or tuple(f2[:3]) != (x, yy, z):
            ctx.violation('wrappers:not-identity-at-2020', case, {'forward': list(f[:3]), 'reverse': list(f2[:3])})


def run_shard(spec, ctx):
    ns = core.load_repo()
    c06.as_imported(ns, 'atrf2014_to_gda2020')
    try:
        ctx.info['oracle_selfcheck'] = {k: float('%.3g' % v) for k, v in hx.self_check().items()}
    except AssertionError as e:
        raise core.Inconclusive('helmert oracle self-check failed: %r' % (e,))
    cat = dated(ns)
    names = list(cat)
    snapshot_pristine(ns)
    ctx.info['dated_sets'] = len(names)
    rnd = random.Random('%s-%s-%s' % (ID, spec['seed'], spec['shard']))
    mine = names[spec['shard'] % spec['nshards']::spec['nshards']]
    per = max(6, spec['n'] // (3 * max(1, len(mine))))
    k = 0
    for name in mine:
        t = cat[name]
        has_sd = type(t.tf_sd) is ns.constants.TransformationSD and all(v is not None for v in vars(t.tf_sd).values())
        for i in range(per):
            ep, cls = rand_epoch(rnd, t.ref_epoch)
            kind = c06.VCV_KINDS[i % len(c06.VCV_KINDS)] if has_sd else 'none'
            V = c06.rand_vcv(rnd, kind)
            case = {'set': name, 'epoch': str(ep), 'eclass': cls, 'xyz': c06.rand_point(rnd, 1e7),
                    'vcv': None if V is None else V.tolist(), 'vkind': kind}
            c06.deliver_choice(rnd, case)
            maybe_via(rnd, case, t.ref_epoch)
            if k < 2:
                ctx.sample(case)
            k += 1
            if rnd.random() < 0.03:
                case['before'] = [rnd.randrange(1000) for _ in range(rnd.choice([1, 2]))]
            judge(ns, ctx, case)
    for i in range(spec['n'] // 3):
        t = rand_dated_set(ns, rnd, rnd.random() < 0.5)
        ep, cls = rand_epoch(rnd, t.ref_epoch)
        kind = rnd.choice(c06.VCV_KINDS)
        V = c06.rand_vcv(rnd, kind)
        case = {'set': spec_of(t), 'epoch': str(ep), 'eclass': cls, 'xyz': c06.rand_point(rnd, 1e7),
                'vcv': None if V is None else V.tolist(), 'vkind': kind}
        c06.deliver_choice(rnd, case)
        maybe_via(rnd, case, t.ref_epoch)
        if rnd.random() < 0.03:
            case['before'] = [rnd.randrange(1000) for _ in range(rnd.choice([1, 2]))]
        judge(ns, ctx, case)
        if LARGE[0]:
            ctx.count('random_sets_with_large_parameters', LARGE[0])
            LARGE[0] = 0
        ctx.bucket('rate-pattern', ''.join('1' if getattr(t, 'd_' + p) else '0' for p in hx.P7))
        if i % 3 == 0:
            # same labels, same reference epoch, same target epoch, other parameters: back to back
            t2 = rand_dated_set(ns, rnd, t.tf_sd is not None)
            sp2 = spec_of(t2)
            sp2['ref_epoch'] = str(t.ref_epoch)
            c2 = dict(case)
            c2['set'] = sp2
            judge(ns, ctx, c2)
            if rnd.random() < 0.03:
                case['before'] = [rnd.randrange(1000) for _ in range(rnd.choice([1, 2]))]
            judge(ns, ctx, case)
            ctx.count('same_label_sequences')
    # shipped constants sharing labels and reference epoch, at the same epochs, interleaved
    groups = {}
    for k, v in cat.items():
        groups.setdefault((str(v.from_datum), str(v.to_datum), str(v.ref_epoch)), []).append(k)
    for g in [g for g in groups.values() if len(g) > 1]:
        for j in range(4):
            ep, cls = rand_epoch(rnd, cat[g[0]].ref_epoch)
            xyz = c06.rand_point(rnd, 1e7)
            order = list(g) + list(reversed(g))
            for name in order:
                judge(ns, ctx, {'set': name, 'epoch': str(ep), 'eclass': cls, 'xyz': xyz, 'vcv': None})
            ctx.count('same_label_sequences')
    for i in range(spec['n'] // 3):
        ep, cls = rand_epoch(rnd, datetime.date(2020, 1, 1))
        case = {'wrapper': True, 'epoch': str(ep), 'xyz': c06.rand_point(rnd, 1e7) if i % 2 else
                [rnd.uniform(-5e6, -3e6), rnd.uniform(2e6, 5e6), rnd.uniform(-4.5e6, -1e6)]}
        if i % 3 == 0:
            case['vcv'] = c06.rand_vcv(rnd, rnd.choice(['spd', 'zero', 'rank1', 'diag'])).tolist()
        if i % 5 == 1:
            # ONE call of one wrapper (or of conform14 with one of the two constants) at exactly the reference epoch, then the
            # judged pair at another epoch: a call at the reference epoch is where "nothing to propagate" short cuts live
            case['single_call_at_reference_epoch'] = rnd.choice(['transform_gda2020_to_atrf2014', 'transform_atrf2014_to_gda2020',
                                                                 'conform14:atrf2014_to_gda2020'])
        judge_wrappers(ns, ctx, case)


def replay(case, ctx):
    ns = core.load_repo()
    snapshot_pristine(ns)
    if case.get('wrapper'):
        judge_wrappers(ns, ctx, case)
    else:
        judge(ns, ctx, case)
