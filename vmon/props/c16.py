"""C16 Local-frame rotations preserve geometry and covariance; error measures match."""
import math
import random
import traceback

import numpy as np

from .. import core
from ..oracles import angle as ax
from ..oracles import local as lx

ID = 'C16'
TITLE = 'local frame, covariance rotation, error ellipse, relative error, coverage factors'
LEVEL = 'exploration'
TECHNIQUE = ('runtime monitoring: post-condition monitors wrapped around the eight live functions (internal calls '
             'included), each call judged against closed forms / numpy.linalg / scipy; relations between calls '
             '(inverse pair, round trip) judged by the driver; the coverage table enumerated completely')
RULE = ('every call of rotation_matrix, enu2xyz, xyz2enu, vcv_cart2local, vcv_local2cart, error_ellipse, relative_error and '
        'k_val95 (also the calls the library makes internally) is judged by its monitor.  Workload per case: a position '
        '(lat uniform / +-90 / 0 / within 1e-13..1e-1 deg of a pole / integer degrees; lon uniform in [-360, 360] / the nine '
        'cardinal meridians / within 1e-13..1e-3 deg of one / multiples of 15), a vector (zero, 1e-6 m .. 1e7 m, axis '
        'aligned, |v| = 1e7; float and the five angle-object argument types), an exactly symmetric PSD matrix (SPD, rank 1 '
        'in floating point, rank 1 exactly PSD with dyadic integer factors, rank 1 along a frame axis, rank 2, rank 2 with a '
        'singular horizontal block, zero, diagonal incl. zero entries, condition number up to and exactly 1e8, circular and '
        'nearly circular horizontal block; scale 1e-8..1e2 m^2), its 3x1 diagonal column, and a joint 6x6 PSD matrix of two '
        'stations (independent, SPD, strongly correlated, rank 1, exactly PSD rank 1, identical stations, rank 3).  A finite '
        'shard enumerates 18 latitudes x 65 longitudes (poles, equator, signed zero, every 15 deg, neighbours of the '
        'cardinal meridians), every integer dof -5..200, and runs the repository\'s own tests of these functions under the '
        'monitors.  non-trivial = input inside the quantified domain (others are '
        'counted, not judged); every returned object that holds an array is kept with a copy and compared again after later calls (results are values: `earlier-result-changed-by-later-call`).  distinct = (function, matrix/vector class, |lat| band, pole flag, cardinal-meridian flag) Matrix magnitudes 1e-14..1e12 and a class with sigmas differing by up to 1e6 inside one matrix.')
ASSUMPTIONS = ['numpy.linalg.eigh / scipy.stats.t.ppf, validated each shard against 40-digit mpmath closed forms',
               'tolerances are backward-error sized: 1e-14 absolute for the rotation matrix, 1e-12 relative to |v| for vectors, '
               '1e-12 * trace (largest eigenvalue for the ellipse) in variance units for covariances; orientation compared '
               'modulo 180 deg within 1e-12 * lambda_max / (lambda_max - lambda_min) rad, skipped when circular within 1e-9',
               'a floating-point matrix counts as PSD when its smallest eigenvalue is >= -8 ulp of the largest (singular '
               'matrices cannot be represented more exactly); exactly PSD singular inputs are generated as well',
               'relative_error: tolerance is relative to trace(var1) + trace(var2) + 2 |cov12|_F (the terms that are summed), '
               'the up component is judged as sqrt of the up variance of the same matrix',
               'k_val95 above 120 dof: the documented constant 1.96; below 1: the value returned for 1',
               'angle-object arguments are read by the angle_exact oracle, not by the library']
REQUIRED_COUNTERS = ['kept_results_compared_after_later_calls', 
    'rot_orthonormal', 'rot_right_handed', 'rot_up_is_normal', 'rot_east_north', 'rot_at_pole', 'rot_at_cardinal_meridian',
    'vec_oracle', 'vec_length', 'vec_inverse_pair', 'vec_angle_object_args', 'vec_1e7',
    'vcv_oracle', 'vcv_symmetry', 'vcv_trace', 'vcv_eigenvalues', 'vcv_round_trip', 'vcv_column', 'vcv_singular_inputs',
    'ell_axes', 'ell_order', 'ell_orientation', 'ell_singular_inputs', 'ell_exactly_psd_singular_inputs', 'ell_cond_ge_1e7',
    'rel_ellipse', 'rel_orientation', 'rel_up',
    'kval_table', 'kval_below_1', 'kval_above_120']
REQUIRED_MONITORS = ['rotation_matrix', 'enu2xyz', 'xyz2enu', 'vcv_cart2local', 'vcv_local2cart', 'error_ellipse',
                     'relative_error', 'k_val95']

N = {'quick': 6000, 'thorough': 25000}
SHARDS = {'quick': 15, 'thorough': 47}        # + one finite shard each

TOL_ROT = 1e-14
TOL_REL = 1e-12
CIRCULAR = 1e-9
PSD_SLACK = 8 * lx.EPS

CARDINAL = [-360.0, -270.0, -180.0, -90.0, 0.0, 90.0, 180.0, 270.0, 360.0]


def plan(tier, seed):
    return [{'kind': 'finite'}] + [{'kind': 'mix', 'n': N[tier]} for _ in range(SHARDS[tier])]


def finalize(m, tier):
    c = m['counters']
    want = {'kval_table_enumerated': 120, 'kval_below_1_enumerated': 6, 'kval_above_120_enumerated': 80}
    for k, v in want.items():
        if c.get(k, 0) != v:
            raise core.Inconclusive('coverage-factor enumeration incomplete: %s = %s, expected %s' % (k, c.get(k, 0), v))


# ------------------------------------------------------------------------------------------------------------
# classification helpers
# ------------------------------------------------------------------------------------------------------------
def lat_band(lat):
    a = abs(lat)
    if a == 90.0:
        return 'pole'
    if a == 0.0:
        return 'equator'
    if a > 89.9:
        return 'near-pole'
    return 'lat%d' % (int(a // 30) * 30)


def lon_flag(lon):
    if lon % 90.0 == 0.0:
        return 'cardinal'
    k = round(lon / 90.0) * 90.0
    if abs(lon - k) < 1e-2:
        return 'near-cardinal'
    return 'lon-general'


def as_deg(x):
    """Decimal degrees denoted by a float or angle-object argument (exact reading, correctly rounded)."""
    if isinstance(x, (int, float, np.floating, np.integer)):
        return float(x)
    v = ax.denote(x)
    if v is None:
        raise core.Inconclusive('angle object with invalid HP numeral in the workload: %r' % (x,))
    return float(v)


def is_sym(V):
    return bool(np.array_equal(V, V.T))


def psd_state(w):
    """w ascending eigenvalues -> (in_domain, singular)."""
    lmax = float(w[-1])
    lmin = float(w[0])
    if lmax < 0 or lmin < -PSD_SLACK * max(lmax, 0.0):
        return False, False
    return True, (lmin <= 1e-14 * lmax)


# ------------------------------------------------------------------------------------------------------------
# monitors
# ------------------------------------------------------------------------------------------------------------
class Monitors:
    NAMES = [('statistics', 'rotation_matrix'), ('statistics', 'vcv_cart2local'), ('statistics', 'vcv_local2cart'),
             ('statistics', 'error_ellipse'), ('statistics', 'relative_error'), ('statistics', 'k_val95'),
             ('geodesy', 'enu2xyz'), ('geodesy', 'xyz2enu')]

    def __init__(self, ns, ctx):
        self.ns, self.ctx = ns, ctx
        self.S, self.G, self.A = ns.statistics, ns.geodesy, ns.angles
        self.case = None            # the driver-level case being executed (what a replay re-runs)
        self.label = ('?',)         # class labels of the current case for the buckets
        self.hfail = None
        self.mon = {}

    def install(self):
        for modname, name in self.NAMES:
            mod = getattr(self.ns, modname)
            fn = getattr(mod, name)
            judge = getattr(self, 'post_' + name)
            m = self.ctx.monitor(fn, name, post=self._guard(judge)).attach()
            if m.bound < 1 or getattr(mod, name) is not m.wrapper:
                raise core.Inconclusive('monitor on %s could not be attached' % name)
            self.mon[name] = m
        if self.G.rotation_matrix is not self.mon['rotation_matrix'].wrapper:
            raise core.Inconclusive('geodesy holds an unmonitored reference to rotation_matrix')
        return self

    def uninstall(self):
        for m in self.mon.values():
            m.detach()

    def _guard(self, judge):
        def post(a, k, r, e):
            try:
                judge(a, k, r, e)
            except core.Inconclusive:
                raise
            except Exception:
                if self.hfail is None:
                    self.hfail = traceback.format_exc()
        return post

    def check_harness(self):
        if self.hfail is not None:
            raise RuntimeError('harness failure inside a monitor:\n' + self.hfail)

    def viol(self, mech, detail):
        self.ctx.violation(mech, self.case, detail)

    def bucket(self, fn, lat=None, lon=None):
        if lat is None:
            self.ctx.bucket(fn, *self.label)
        else:
            self.ctx.bucket(fn, *(self.label + (lat_band(lat), lon_flag(lon))))

    # -- rotation_matrix ---------------------------------------------------------------------------------
    def post_rotation_matrix(self, a, k, r, exc):
        ctx = self.ctx
        lat, lon = float(a[0]), float(a[1])
        if not (-90.0 <= lat <= 90.0 and -360.0 <= lon <= 360.0):
            ctx.count('out_of_domain:rotation_matrix')
            return
        ctx.judged()
        self.ctx.bucket('rotation_matrix', lat_band(lat), lon_flag(lon), 'S' if math.copysign(1, lat) < 0 else 'N')
        if abs(lat) == 90.0:
            ctx.count('rot_at_pole')
        if lon % 90.0 == 0.0:
            ctx.count('rot_at_cardinal_meridian')
        d = {'call': 'rotation_matrix', 'lat': lat, 'lon': lon}
        if exc is not None:
            return self.viol('rotation_matrix:exception', dict(d, exception=repr(exc)))
        R = np.asarray(r, dtype=float)
        if R.shape != (3, 3) or not np.all(np.isfinite(R)):
            return self.viol('rotation_matrix:shape-or-non-finite', dict(d, got=r))
        Ro = lx.rot(lat, lon)
        ctx.count('rot_orthonormal')
        err = float(np.max(np.abs(R.T @ R - np.eye(3))))
        if not ctx.ratio('rot_orthonormal', err, TOL_ROT):
            self.viol('rotation_matrix:not-orthonormal', dict(d, got=R, max_abs_RtR_minus_I=err, tol=TOL_ROT))
        ctx.count('rot_right_handed')
        det = lx.det3(R.tolist())
        if not ctx.ratio('rot_det', abs(det - 1.0), TOL_ROT):
            self.viol('rotation_matrix:not-right-handed', dict(d, got=R, det=det, expected=1.0, tol=TOL_ROT))
        ctx.count('rot_up_is_normal')
        err = float(np.max(np.abs(R[:, 2] - Ro[:, 2])))
        if not ctx.ratio('rot_up', err, TOL_ROT):
            self.viol('rotation_matrix:up-axis-not-ellipsoid-normal',
                      dict(d, got_col3=R[:, 2], normal=Ro[:, 2], err=err, tol=TOL_ROT))
        ctx.count('rot_east_north')
        err = float(np.max(np.abs(R[:, 0] - Ro[:, 0])))
        if not ctx.ratio('rot_east', err, TOL_ROT):
            self.viol('rotation_matrix:east-axis', dict(d, got_col1=R[:, 0], east=Ro[:, 0], err=err, tol=TOL_ROT))
        err = float(np.max(np.abs(R[:, 1] - Ro[:, 1])))
        if not ctx.ratio('rot_north', err, TOL_ROT):
            self.viol('rotation_matrix:north-axis', dict(d, got_col2=R[:, 1], north=Ro[:, 1], err=err, tol=TOL_ROT))

    # -- enu2xyz / xyz2enu ------------------------------------------------------------------------------------
    def _post_vec(self, name, to_cart, a, k, r, exc):
        ctx = self.ctx
        lat, lon = as_deg(a[0]), as_deg(a[1])
        v = [float(x) for x in a[2:5]]
        nv = math.sqrt(v[0] * v[0] + v[1] * v[1] + v[2] * v[2])
        if not (-90.0 <= lat <= 90.0 and -360.0 <= lon <= 360.0 and nv <= 1e7 * (1 + 1e-12)):
            ctx.count('out_of_domain:' + name)
            return
        ctx.judged()
        self.bucket(name, lat, lon)
        if not isinstance(a[0], float) or not isinstance(a[1], float):
            ctx.count('vec_angle_object_args')
        if nv >= 0.999e7:
            ctx.count('vec_1e7')
        d = {'call': name, 'lat': lat, 'lon': lon, 'arg_types': [type(a[0]).__name__, type(a[1]).__name__], 'vector': v}
        if exc is not None:
            return self.viol(name + ':exception', dict(d, exception=repr(exc)))
        try:
            out = [float(x) for x in r]
            ok = len(out) == 3 and all(math.isfinite(x) for x in out)
        except Exception:
            ok = False
        if not ok:
            return self.viol(name + ':shape-or-non-finite', dict(d, got=r))
        Ro = lx.rot(lat, lon)
        M = Ro if to_cart else Ro.T
        exp = [M[i, 0] * v[0] + M[i, 1] * v[1] + M[i, 2] * v[2] for i in range(3)]
        tol = TOL_REL * nv
        ctx.count('vec_oracle')
        err = math.sqrt(sum((out[i] - exp[i]) ** 2 for i in range(3)))
        if not ctx.ratio('vec_oracle', err, tol):
            self.viol(name + ':differs-from-closed-form-rotation', dict(d, got=out, expected=exp, err=err, tol=tol))
        ctx.count('vec_length')
        no = math.sqrt(out[0] ** 2 + out[1] ** 2 + out[2] ** 2)
        if not ctx.ratio('vec_length', abs(no - nv), tol):
            self.viol(name + ':length-not-preserved', dict(d, got=out, length_in=nv, length_out=no, tol=tol))

    def post_enu2xyz(self, a, k, r, exc):
        self._post_vec('enu2xyz', True, a, k, r, exc)

    def post_xyz2enu(self, a, k, r, exc):
        self._post_vec('xyz2enu', False, a, k, r, exc)

    # -- vcv_cart2local / vcv_local2cart ------------------------------------------------------------------------
    def _post_vcv(self, name, to_local, a, k, r, exc):
        ctx = self.ctx
        V, lat, lon = a[0], float(a[1]), float(a[2])
        shape = tuple(getattr(V, 'shape', ()))
        if shape not in ((3, 3), (3, 1)):
            # outside the statement (3x3 and 3x1 only); the code documents a ValueError
            ctx.count('other_shape_rejected' if isinstance(exc, ValueError) else 'other_shape_not_rejected')
            return
        V = np.asarray(V, dtype=float)
        if not (-90.0 <= lat <= 90.0 and -360.0 <= lon <= 360.0) or not np.all(np.isfinite(V)):
            ctx.count('out_of_domain:' + name)
            return
        ctx.judged()
        self.bucket(name + ('' if shape == (3, 3) else ':column'), lat, lon)
        d = {'call': name, 'lat': lat, 'lon': lon, 'matrix': V}
        if exc is not None:
            return self.viol(name + ':exception', dict(d, exception=repr(exc)))
        Ro = lx.rot(lat, lon)
        form = 'Rt.V.R' if to_local else 'R.V.Rt'
        if shape == (3, 1):
            ctx.count('vcv_column')
            D = np.diag(V[:, 0])
            full = (Ro.T @ D @ Ro) if to_local else (Ro @ D @ Ro.T)
            exp = np.array([[full[0, 0]], [full[1, 1]], [full[2, 2]]])
            got = np.asarray(r, dtype=float) if r is not None else None
            if got is None or got.shape != (3, 1) or not np.all(np.isfinite(got)):
                return self.viol(name + ':column-result-not-3x1', dict(d, got=r))
            tol = TOL_REL * float(np.sum(np.abs(V)))
            err = float(np.max(np.abs(got - exp)))
            if not ctx.ratio('vcv_column', err, tol):
                self.viol(name + ':column-not-rotated-diagonal', dict(d, got=got, expected=exp, form='diag(%s)' % form, err=err, tol=tol))
            return
        got = np.asarray(r, dtype=float) if r is not None else None
        if got is None or got.shape != (3, 3) or not np.all(np.isfinite(got)):
            return self.viol(name + ':result-not-3x3', dict(d, got=r))
        tr = float(np.trace(V))
        scale = max(tr, float(np.linalg.norm(V)))
        tol = TOL_REL * scale
        exp = (Ro.T @ V @ Ro) if to_local else (Ro @ V @ Ro.T)
        ctx.count('vcv_oracle')
        err = float(np.max(np.abs(got - exp)))
        if not ctx.ratio('vcv_oracle', err, tol):
            self.viol(name + ':differs-from-' + form, dict(d, got=got, expected=exp, err=err, tol=tol))
        if not is_sym(V):
            ctx.count('vcv_unsymmetric_input_oracle_only')      # e.g. the cov12 block inside relative_error
            return
        w0 = np.linalg.eigvalsh(V)
        indom, singular = psd_state(w0)
        if not indom:
            ctx.count('vcv_non_psd_input_oracle_only')
            return
        if singular:
            ctx.count('vcv_singular_inputs')
        ctx.count('vcv_symmetry')
        err = float(np.max(np.abs(got - got.T)))
        if not ctx.ratio('vcv_symmetry', err, tol):
            self.viol(name + ':symmetry-lost', dict(d, got=got, max_asymmetry=err, tol=tol))
        ctx.count('vcv_trace')
        err = abs(float(np.trace(got)) - tr)
        if not ctx.ratio('vcv_trace', err, tol):
            self.viol(name + ':trace-changed', dict(d, trace_in=tr, trace_out=float(np.trace(got)), tol=tol))
        ctx.count('vcv_eigenvalues')
        w1 = np.linalg.eigvalsh((got + got.T) / 2)
        err = float(np.max(np.abs(w1 - w0)))
        if not ctx.ratio('vcv_eigenvalues', err, tol):
            self.viol(name + ':eigenvalues-changed', dict(d, eig_in=w0, eig_out=w1, err=err, tol=tol))

    def post_vcv_cart2local(self, a, k, r, exc):
        self._post_vcv('vcv_cart2local', True, a, k, r, exc)

    def post_vcv_local2cart(self, a, k, r, exc):
        self._post_vcv('vcv_local2cart', False, a, k, r, exc)

    # -- error_ellipse ------------------------------------------------------------------------------------------
    def post_error_ellipse(self, a, k, r, exc):
        ctx = self.ctx
        V = np.asarray(a[0], dtype=float)
        if V.ndim != 2 or V.shape[0] < 2 or V.shape[1] < 2 or not np.all(np.isfinite(V[:2, :2])):
            ctx.count('out_of_domain:error_ellipse')
            return
        h00, h01, h10, h11 = float(V[0, 0]), float(V[0, 1]), float(V[1, 0]), float(V[1, 1])
        if abs(h01 - h10) > PSD_SLACK * max(abs(h00), abs(h11)):
            ctx.count('out_of_domain:error_ellipse')        # not a symmetric block (the code reads [0, 1] only)
            return
        if h01 != h10:
            # symmetric up to rounding (a matrix rotated by the library): the oracle takes the mean, the
            # difference is far inside the tolerance
            ctx.count('ell_block_symmetric_to_rounding')
            h01 = (h01 + h10) / 2
        l1, l2, brg = lx.ellipse(h00, h01, h11)
        indom, singular = psd_state([l2, l1])
        if not indom or h00 < 0 or h11 < 0:
            ctx.count('out_of_domain:error_ellipse')
            return
        ctx.judged()
        self.bucket('error_ellipse')
        exact = lx.block_exactly_psd(h00, h01, h11)
        if singular:
            ctx.count('ell_singular_inputs')
            if exact:
                ctx.count('ell_exactly_psd_singular_inputs')
        if l2 > 0 and l1 / l2 >= 1e7:
            ctx.count('ell_cond_ge_1e7')
        d = {'call': 'error_ellipse', 'matrix': V, 'horizontal_block_exactly_psd': exact,
             'oracle': {'lambda_max': l1, 'lambda_min': l2, 'bearing_major': brg}}
        if exc is not None:
            return self.viol('error_ellipse:exception', dict(d, exception=repr(exc)))
        try:
            ea, eb, eo = float(r[0]), float(r[1]), float(r[2])
            ok = len(r) == 3 and all(math.isfinite(x) for x in (ea, eb, eo))
        except Exception:
            ok = False
        if not ok:
            return self.viol('error_ellipse:shape-or-non-finite', dict(d, got=r))
        d['got'] = [ea, eb, eo]
        tol = TOL_REL * l1
        ctx.count('ell_axes')
        if not ctx.ratio('ell_semi_major', abs(ea * ea - l1), tol):
            self.viol('error_ellipse:semi-major-not-sqrt-eigenvalue', dict(d, a_squared=ea * ea, tol=tol))
        if not ctx.ratio('ell_semi_minor', abs(eb * eb - l2), tol):
            self.viol('error_ellipse:semi-minor-not-sqrt-eigenvalue', dict(d, b_squared=eb * eb, tol=tol))
        ctx.count('ell_order')
        if not (ea >= eb >= 0.0):
            self.viol('error_ellipse:axes-not-ordered-nonnegative', d)
        gap = l1 - l2
        if gap <= CIRCULAR * l1:
            ctx.count('ell_orientation_skipped_circular')
            return
        ctx.count('ell_orientation')
        tol_deg = math.degrees(TOL_REL * l1 / gap)
        err = abs(lx.mod180(eo - brg))
        if not ctx.ratio('ell_orientation', err, tol_deg):
            self.viol('error_ellipse:orientation-not-bearing-of-major-axis', dict(d, err_deg=err, tol_deg=tol_deg))

    # -- relative_error -----------------------------------------------------------------------------------------
    def post_relative_error(self, a, k, r, exc):
        ctx = self.ctx
        lat, lon = float(a[0]), float(a[1])
        try:
            v1, v2, c12 = (np.asarray(x, dtype=float) for x in a[2:5])
            ok = v1.shape == v2.shape == c12.shape == (3, 3) and is_sym(v1) and is_sym(v2)
            ok = ok and -90.0 <= lat <= 90.0 and -360.0 <= lon <= 360.0
        except Exception:
            ok = False
        if ok:
            J = np.block([[v1, c12], [c12.T, v2]])
            ok = bool(np.all(np.isfinite(J))) and psd_state(np.linalg.eigvalsh(J))[0]
        if not ok:
            ctx.count('out_of_domain:relative_error')
            return
        ctx.judged()
        self.bucket('relative_error', lat, lon)
        d = {'call': 'relative_error', 'lat': lat, 'lon': lon}
        Ro = lx.rot(lat, lon)
        D = v1 + v2 - c12 - c12.T
        L = Ro.T @ D @ Ro
        L = (L + L.T) / 2
        l1, l2, brg = lx.ellipse(float(L[0, 0]), float(L[0, 1]), float(L[1, 1]))
        S = float(np.trace(v1) + np.trace(v2) + 2 * np.linalg.norm(c12))
        tol = TOL_REL * S
        d['oracle'] = {'local_relative_vcv': L, 'lambda_max': l1, 'lambda_min': l2, 'bearing_major': brg,
                       'up_variance': float(L[2, 2]), 'tol_variance_units': tol}
        if exc is not None:
            return self.viol('relative_error:exception', dict(d, exception=repr(exc)))
        try:
            ra, rb, ro, ru = (float(x) for x in r)
            ok = len(r) == 4
        except Exception:
            ok = False
        if not ok:
            return self.viol('relative_error:shape', dict(d, got=r))
        d['got'] = [ra, rb, ro, ru]
        ctx.count('rel_ellipse')
        if not (math.isfinite(ra) and math.isfinite(rb) and math.isfinite(ro)):
            return self.viol('relative_error:ellipse-non-finite', d)
        if not ctx.ratio('rel_semi_major', abs(ra * ra - l1), tol):
            self.viol('relative_error:semi-major-not-ellipse-of-relative-vcv', dict(d, a_squared=ra * ra))
        if not ctx.ratio('rel_semi_minor', abs(rb * rb - l2), tol):
            self.viol('relative_error:semi-minor-not-ellipse-of-relative-vcv', dict(d, b_squared=rb * rb))
        if not (ra >= rb >= 0.0):
            self.viol('relative_error:axes-not-ordered-nonnegative', d)
        ctx.count('rel_up')
        if not (math.isfinite(ru) and ctx.ratio('rel_up', abs(ru * ru - float(L[2, 2])), tol)):
            self.viol('relative_error:up-not-sqrt-of-up-variance', dict(d, up_squared=ru * ru))
        gap = l1 - l2
        if gap <= CIRCULAR * l1:
            ctx.count('rel_orientation_skipped_circular')
            return
        tol_deg = math.degrees(TOL_REL * S / gap)
        if tol_deg > 1.0:
            ctx.count('rel_orientation_skipped_ill_conditioned')
            return
        ctx.count('rel_orientation')
        err = abs(lx.mod180(ro - brg))
        if not ctx.ratio('rel_orientation', err, tol_deg):
            self.viol('relative_error:orientation-not-bearing-of-major-axis', dict(d, err_deg=err, tol_deg=tol_deg))

    # -- k_val95 --------------------------------------------------------------------------------------------------
    def post_k_val95(self, a, k, r, exc):
        ctx = self.ctx
        dof = a[0]
        if isinstance(dof, bool) or not isinstance(dof, int) or not (-5 <= dof <= 200):
            ctx.count('out_of_domain:k_val95')
            return
        ctx.judged()
        which = 'kval_below_1' if dof < 1 else ('kval_above_120' if dof > 120 else 'kval_table')
        ctx.count(which)
        if self.case is not None and self.case.get('fn') == 'k_val95':
            ctx.count(which + '_enumerated')            # the complete enumeration (ambient calls are judged but not counted here)
        ctx.bucket('k_val95', which, dof if 1 <= dof <= 120 else '')
        d = {'call': 'k_val95', 'dof': dof}
        if exc is not None:
            return self.viol('k_val95:exception', dict(d, exception=repr(exc)))
        if isinstance(r, bool) or not isinstance(r, (int, float)):
            return self.viol('k_val95:result-type', dict(d, got=r))
        if dof < 1:
            ref = self.mon['k_val95'].fn(1)
            if r != ref:
                self.viol('k_val95:below-1-not-value-for-1', dict(d, got=r, value_for_1=ref))
        elif dof > 120:
            ctx.maxi('kval_above_120_documented_constant_minus_quantile', abs(1.96 - lx.t975(dof)))
            if r != 1.96:
                self.viol('k_val95:above-120-not-documented-constant', dict(d, got=r, documented=1.96))
        else:
            q = lx.t975(dof)
            cands = lx.round5_candidates(q)
            if len(cands) > 1:
                ctx.count('kval_quantile_on_rounding_boundary')
            ctx.maxi('kval_abs_diff_from_quantile', abs(r - q))
            if r not in cands:
                self.viol('k_val95:table-entry-not-t-quantile-to-5-decimals',
                          dict(d, got=r, quantile=q, rounded=sorted(cands)))


# ------------------------------------------------------------------------------------------------------------
# workload generators (everything from random.Random; matrices exactly symmetric by construction)
# ------------------------------------------------------------------------------------------------------------
def gvec(rnd, n):
    return np.array([rnd.gauss(0.0, 1.0) for _ in range(n)])


def gmat(rnd, r, c):
    return np.array([[rnd.gauss(0.0, 1.0) for _ in range(c)] for _ in range(r)])


def symm(V):
    V = (V + V.T) / 2
    assert np.array_equal(V, V.T)
    return V


def rand_orth(rnd):
    Q, _ = np.linalg.qr(gmat(rnd, 3, 3))
    return Q


def vscale(rnd):
    if rnd.random() < 0.12:
        return 10.0 ** rnd.choice([-14, -12, -10, 6, 9, 12])      # a covariance in other units, a loosely constrained solution
    return 10.0 ** rnd.uniform(-8, 2)


MATRIX_CLASSES = ['spd', 'rank1', 'rank1-exact', 'rank1-axis', 'rank2', 'rank2-flat', 'zero', 'diagonal', 'cond',
                  'cond1e8', 'circular', 'near-circular', 'range']
MATRIX_WEIGHTS = [16, 12, 8, 5, 10, 6, 2, 9, 12, 8, 4, 8, 7]


def gen_matrix(rnd, cls=None):
    if cls is None:
        cls = rnd.choices(MATRIX_CLASSES, MATRIX_WEIGHTS)[0]
    s = vscale(rnd)
    if cls == 'spd':
        A = gmat(rnd, 3, 3)
        V = symm(A @ A.T) * s
    elif cls == 'rank1':
        u = gvec(rnd, 3)
        V = np.outer(u, u) * s
    elif cls == 'rank1-exact':
        # integer factors times a power of two: every product is exact or correctly rounded symmetric, and for
        # factors below 2**26 the matrix is exactly u u^T (exactly PSD, exactly singular); larger factors are kept
        # only when the exact rational test of the horizontal block confirms PSD in the monitor
        bits = rnd.choice([8, 16, 20, 24, 26])
        u = np.array([float(rnd.randint(-2 ** bits, 2 ** bits)) for _ in range(3)]) * 2.0 ** rnd.randint(-40, 0)
        if rnd.random() < 0.15:
            u[rnd.randrange(3)] = 0.0
        V = np.outer(u, u)
    elif cls == 'rank1-axis':
        u = np.zeros(3)
        k = rnd.randrange(4)
        if k < 3:
            u[k] = rnd.choice([1.0, rnd.uniform(0.1, 10)])
        else:
            u[0], u[1] = rnd.gauss(0, 1), rnd.gauss(0, 1)
        V = np.outer(u, u) * s
    elif cls == 'rank2':
        u, w = gvec(rnd, 3), gvec(rnd, 3)
        V = (np.outer(u, u) + np.outer(w, w)) * s
    elif cls == 'rank2-flat':
        u = gvec(rnd, 3)
        V = np.outer(u, u)
        V[2, 2] += rnd.uniform(0.1, 10)
        V = V * s
    elif cls == 'zero':
        V = np.zeros((3, 3))
    elif cls == 'diagonal':
        dd = [0.0 if rnd.random() < 0.25 else rnd.random() for _ in range(3)]
        if rnd.random() < 0.2:
            dd[1] = dd[0]
        V = np.diag(dd) * s
    elif cls in ('cond', 'cond1e8'):
        Q = rand_orth(rnd)
        if cls == 'cond':
            ev = [1.0, 10.0 ** -rnd.uniform(0, 8), 10.0 ** -rnd.uniform(0, 8)]
        else:
            ev = [1.0, rnd.choice([1.0, 1e-8, 10.0 ** -rnd.uniform(0, 8)]), 1e-8]
        rnd.shuffle(ev)
        V = symm(Q @ np.diag(ev) @ Q.T) * s
    elif cls == 'circular':
        c = rnd.random() + 0.01
        V = np.diag([c, c, rnd.random()]) * s
    elif cls == 'near-circular':
        c = rnd.random() + 0.01
        dl = 10.0 ** rnd.uniform(-12, -3)
        t = rnd.uniform(0, math.pi)
        G = np.array([[math.cos(t), -math.sin(t), 0.0], [math.sin(t), math.cos(t), 0.0], [0.0, 0.0, 1.0]])
        V = symm(G @ np.diag([c, c * (1 + dl), rnd.random()]) @ G.T) * s
    elif cls == 'range':
        # sigmas that differ by up to 1e6 inside one matrix (unconstrained height beside mm-level horizontals, or the reverse)
        A = gmat(rnd, 3, 3)
        Cm = A @ A.T + 0.5 * np.eye(3)
        d = np.sqrt(np.diag(Cm))
        Cm = np.eye(3) if rnd.random() < 0.4 else Cm / np.outer(d, d)
        sig = [10.0 ** rnd.uniform(-3.5, -2)] * 3
        big = 10.0 ** rnd.uniform(0.7, 3)
        for ax in rnd.sample(range(3), rnd.choice([1, 1, 2])):
            sig[ax] = big * rnd.uniform(0.5, 1.0)
        V = symm(np.diag(sig) @ Cm @ np.diag(sig))
    else:
        raise ValueError(cls)
    assert np.array_equal(V, V.T)
    return cls, V


JOINT_CLASSES = ['independent', 'joint-spd', 'correlated', 'nearly-identical', 'joint-rank1', 'joint-rank1-exact', 'identical',
                 'joint-rank3']
JOINT_WEIGHTS = [14, 22, 14, 12, 14, 8, 4, 12]


def gen_joint(rnd, cls=None):
    if cls is None:
        cls = rnd.choices(JOINT_CLASSES, JOINT_WEIGHTS)[0]
    s = vscale(rnd)
    if cls == 'independent':
        v1, v2, c12 = gen_matrix(rnd)[1], gen_matrix(rnd)[1], np.zeros((3, 3))
        return cls, v1, v2, c12
    if cls == 'joint-spd':
        B = gmat(rnd, 6, 6)
    elif cls == 'joint-rank3':
        B = gmat(rnd, 6, 3)
    elif cls == 'joint-rank1':
        B = gmat(rnd, 6, 1)
    elif cls == 'joint-rank1-exact':
        bits = rnd.choice([8, 16, 24])
        B = np.array([[float(rnd.randint(-2 ** bits, 2 ** bits))] for _ in range(6)]) * 2.0 ** rnd.randint(-30, 0)
        s = 1.0
    elif cls == 'nearly-identical':
        C = gmat(rnd, 3, 4)
        B = np.vstack([C, C + 10.0 ** rnd.uniform(-6, -1) * gmat(rnd, 3, 4)])
    elif cls == 'correlated':
        V = gen_matrix(rnd, rnd.choice(['spd', 'cond', 'rank2']))[1]
        E = gen_matrix(rnd, 'spd')[1] * 10.0 ** rnd.uniform(-6, 0)
        rho = rnd.choice([0.5, 0.9, 0.99, 0.999])
        return cls, V, symm(V + E), V * rho
    elif cls == 'identical':
        V = gen_matrix(rnd)[1]
        return cls, V, V.copy(), V.copy()
    else:
        raise ValueError(cls)
    J = symm(B @ B.T) * s
    return cls, J[:3, :3].copy(), J[3:, 3:].copy(), J[:3, 3:].copy()


def gen_pos(rnd):
    r = rnd.random()
    if r < 0.50:
        lat = rnd.uniform(-90, 90)
    elif r < 0.60:
        lat = rnd.choice([-90.0, 90.0])
    elif r < 0.65:
        lat = rnd.choice([0.0, -0.0])
    elif r < 0.75:
        lat = rnd.choice([-1, 1]) * (90.0 - 10.0 ** rnd.uniform(-13, -1))
    elif r < 0.80:
        lat = rnd.choice([-1, 1]) * 10.0 ** rnd.uniform(-15, -3)
    else:
        lat = float(rnd.randint(-90, 90))
    r = rnd.random()
    if r < 0.50:
        lon = rnd.uniform(-360, 360)
    elif r < 0.72:
        lon = rnd.choice(CARDINAL)
    elif r < 0.84:
        lon = rnd.choice(CARDINAL) + rnd.choice([-1, 1]) * 10.0 ** rnd.uniform(-13, -3)
        lon = max(-360.0, min(360.0, lon))
    else:
        lon = 15.0 * rnd.randint(-24, 24)
    return lat, lon


VEC_CLASSES = ['zero', 'tiny', 'small', 'large', 'max-axis', 'max', 'axis']
VEC_WEIGHTS = [2, 10, 28, 30, 8, 10, 12]


def gen_vec(rnd):
    cls = rnd.choices(VEC_CLASSES, VEC_WEIGHTS)[0]
    if cls == 'zero':
        return cls, [0.0, 0.0, 0.0]
    if cls == 'max-axis':
        v = [0.0, 0.0, 0.0]
        v[rnd.randrange(3)] = rnd.choice([-1e7, 1e7])
        return cls, v
    if cls == 'axis':
        v = [0.0, 0.0, 0.0]
        v[rnd.randrange(3)] = rnd.choice([-1, 1]) * 10.0 ** rnd.uniform(-6, 7)
        return cls, v
    d = [rnd.gauss(0, 1) for _ in range(3)]
    n = math.sqrt(sum(x * x for x in d)) or 1.0
    if cls == 'tiny':
        m = 10.0 ** rnd.uniform(-6, -3)
    elif cls == 'small':
        m = 10.0 ** rnd.uniform(-3, 3)
    elif cls == 'large':
        m = 10.0 ** rnd.uniform(3, 7)
    else:
        m = 1e7
    v = [x / n * m for x in d]
    if cls == 'max':
        while math.sqrt(sum(x * x for x in v)) > 1e7:      # stay inside the quantified magnitude
            v = [math.nextafter(x, 0.0) for x in v]
    return cls, v


# ------------------------------------------------------------------------------------------------------------
# drivers: one function per case kind; used by the workload and by replay
# ------------------------------------------------------------------------------------------------------------
class Driver:
    def __init__(self, ns, ctx):
        self.ns, self.ctx = ns, ctx
        self.M = Monitors(ns, ctx).install()
        self.S, self.G, self.A = ns.statistics, ns.geodesy, ns.angles

    def call(self, f, *a):
        """Call a monitored library function; its monitor judges result or exception."""
        keeper = getattr(self, 'keeper', None)
        if keeper is None:
            keeper = self.keeper = core.ResultKeeper(self.M.ctx, getattr(f, '__name__', 'call'))
        keeper.verify()
        try:
            r = f(*a)
        except core.Inconclusive:
            raise
        except Exception:
            r = None
        self.M.check_harness()
        # results are values: a matrix handed out earlier must not change when another position is worked on
        keeper.verify()
        if r is not None:
            keeper.keep(r, dict(self.M.case or {}, note='value kept from an earlier call of the sequence'),
                        label=getattr(getattr(f, '__wrapped__', f), '__name__', 'call'))
        return r

    def arr(self, case, M):
        """The matrix delivered the way the case says (memory order, read-only, view, integer dtype)."""
        rep = case.get('arep')
        if rep:
            self.ctx.count('matrix_delivered_as:' + rep)
        return core.rep_array(rep, M)

    def begin(self, case, *label):
        self.M.case = case
        self.M.label = tuple(label)

    def run(self, case):
        kind = case['fn']
        getattr(self, 'do_' + kind)(case)
        self.M.check_harness()

    # rotation matrix ------------------------------------------------------------------------------------------
    def do_rotation_matrix(self, case):
        self.begin(case, 'direct')
        self.call(self.S.rotation_matrix, case['lat'], case['lon'])

    # vectors --------------------------------------------------------------------------------------------------
    def do_enu_xyz(self, case):
        ctx = self.ctx
        self.begin(case, case.get('vclass', '?'), case['atype'])
        lat = ax.make_object(self.A, case['atype'], case['lat'])
        lon = ax.make_object(self.A, case['atype'], case['lon'])
        v = [float(x) for x in case['vec']]
        first, second = (self.G.enu2xyz, self.G.xyz2enu) if case['first'] == 'enu2xyz' else (self.G.xyz2enu, self.G.enu2xyz)
        out = self.call(first, lat, lon, *v)
        if out is None:
            return
        try:
            o = [float(x) for x in out]
        except Exception:
            return
        back = self.call(second, lat, lon, *o)
        if back is None:
            return
        try:
            b = [float(x) for x in back]
        except Exception:
            return
        ctx.judged()
        ctx.count('vec_inverse_pair')
        nv = math.sqrt(sum(x * x for x in v))
        err = math.sqrt(sum((b[i] - v[i]) ** 2 for i in range(3)))
        if not ctx.ratio('vec_inverse_pair', err, TOL_REL * nv):
            ctx.violation('enu-xyz:not-inverse-pair', case,
                          {'order': case['first'] + ' then the other', 'vector': v, 'intermediate': o, 'back': b, 'err': err,
                           'tol': TOL_REL * nv})

    # covariance rotation ----------------------------------------------------------------------------------------
    def do_vcv(self, case):
        ctx = self.ctx
        self.begin(case, case.get('mclass', '?'))
        V = np.array(case['m'], dtype=float)
        lat, lon = case['lat'], case['lon']
        first, second = (self.S.vcv_cart2local, self.S.vcv_local2cart) if case['first'] == 'cart2local' \
            else (self.S.vcv_local2cart, self.S.vcv_cart2local)
        out = self.call(first, self.arr(case, V), lat, lon)
        if V.shape != (3, 3) or out is None or getattr(out, 'shape', None) != (3, 3):
            return
        back = self.call(second, out, lat, lon)
        if back is None or getattr(back, 'shape', None) != (3, 3):
            return
        ctx.judged()
        ctx.count('vcv_round_trip')
        tol = TOL_REL * max(float(np.trace(V)), float(np.linalg.norm(V)))
        err = float(np.max(np.abs(np.asarray(back, dtype=float) - V)))
        if not ctx.ratio('vcv_round_trip', err, tol):
            ctx.violation('vcv:round-trip-differs', case, {'order': case['first'] + ' then the other', 'matrix': V,
                                                          'intermediate': out, 'back': back, 'err': err, 'tol': tol})
        if case.get('ellipse_of_local') and case['first'] == 'cart2local':
            # realistic use: the ellipse of the rotated matrix
            self.call(self.S.error_ellipse, out)

    def do_vcv_shape(self, case):
        self.begin(case, 'other-shape')
        Z = np.zeros(tuple(case['shape']))
        self.call(self.S.vcv_cart2local, Z, case['lat'], case['lon'])
        self.call(self.S.vcv_local2cart, Z, case['lat'], case['lon'])

    # error ellipse ------------------------------------------------------------------------------------------------
    def do_error_ellipse(self, case):
        self.begin(case, case.get('mclass', '?'))
        self.call(self.S.error_ellipse, self.arr(case, np.array(case['vcv'], dtype=float)))

    # relative error -----------------------------------------------------------------------------------------------
    def do_relative_error(self, case):
        self.begin(case, case.get('jclass', '?'))
        self.call(self.S.relative_error, case['lat'], case['lon'], self.arr(case, np.array(case['var1'], dtype=float)),
                  self.arr(case, np.array(case['var2'], dtype=float)), self.arr(case, np.array(case['cov12'], dtype=float)))

    # coverage factor --------------------------------------------------------------------------------------------
    def do_k_val95(self, case):
        self.begin(case, 'dof')
        self.call(self.S.k_val95, int(case['dof']))


    # ambient workload: one test of the repository's own suite, all monitors attached --------------------------
    def do_ambient(self, case):
        import importlib
        import unittest
        self.begin(case, 'ambient')
        modname = case['test'].rsplit('.', 2)[0]
        mod = importlib.import_module(modname)          # imported after install(): `from x import f` binds the wrappers
        core._assert_under(mod, self.ns.root)
        suite = unittest.defaultTestLoader.loadTestsFromName(case['test'])
        res = unittest.TestResult()
        suite.run(res)
        self.ctx.count('ambient_tests_run', res.testsRun)
        if res.failures or res.errors:
            # the suite's own assertions are the baseline's business, not a verdict of this property
            self.ctx.count('ambient_tests_failing_their_own_assertions', len(res.failures) + len(res.errors))


AMBIENT = [('geodepy.tests.test_statistics', None), ('geodepy.tests.test_geodesy', ['TestGeodesy.test_enu2xyz'])]


def ambient_ids(ns):
    import importlib
    import unittest
    ids = []
    for modname, only in AMBIENT:
        if only:
            ids.extend('%s.%s' % (modname, n) for n in only)
            continue
        mod = importlib.import_module(modname)
        core._assert_under(mod, ns.root)

        def walk(s):
            for t in s:
                if isinstance(t, unittest.TestSuite):
                    walk(t)
                else:
                    ids.append(t.id())
        walk(unittest.defaultTestLoader.loadTestsFromModule(mod))
    return sorted(ids)


def reach_setup(ns):
    r = core.LineReach()
    for fn in (ns.statistics.rotation_matrix, ns.statistics.vcv_cart2local, ns.statistics.vcv_local2cart,
               ns.statistics.error_ellipse, ns.statistics.relative_error, ns.statistics.k_val95,
               ns.geodesy.enu2xyz, ns.geodesy.xyz2enu):
        r.watch(fn)
    r.start()
    return r


FINITE_LATS = [-90.0, math.nextafter(-90.0, 0.0), -89.999999999, -75.0, -60.0, -45.0, -30.0, -15.0, -1e-9, -0.0, 0.0, 1e-9,
               15.0, 30.0, 45.0, 60.0, 89.999999999, 90.0]


def finite_lons():
    lons = [float(x) for x in range(-360, 361, 15)]
    for c in CARDINAL:
        for t in (-1e9, 1e9):
            x = math.nextafter(c, t)
            if -360.0 <= x <= 360.0:
                lons.append(x)
    return sorted(set(lons))


def run_shard(spec, ctx):
    ns = core.load_repo()
    rnd = random.Random('%s-%s-%s' % (ID, spec['seed'], spec['shard']))
    try:
        res = lx.selfcheck(random.Random('%s-selfcheck-%s' % (ID, spec['seed'])), with_t=(spec['kind'] == 'finite'))
        ctx.info['oracle_selfcheck'] = {k: '%.3g' % v for k, v in res.items()}     # strings: merged as 'last wins'
    except AssertionError as e:
        raise core.Inconclusive('oracle self-check failed: %r' % (e,))
    reach = reach_setup(ns)
    drv = Driver(ns, ctx)
    try:
        if spec['kind'] == 'finite':
            _finite(drv, ctx, rnd)
        else:
            _mix(drv, ctx, rnd, spec['n'])
    finally:
        reach.stop()
        drv.M.uninstall()
    ctx.info['lines_reached'] = reach.summary()


def _finite(drv, ctx, rnd):
    # every integer number of degrees of freedom of the quantifier
    for dof in range(-5, 201):
        drv.run({'fn': 'k_val95', 'dof': dof})
    ctx.info['coverage_factor_enumeration'] = 'every integer dof -5..200 (206 calls), table entries 1..120 all compared'
    ctx.sample({'fn': 'k_val95', 'dof': 'every integer -5..200'})
    # position lattice: poles, equator, signed zero, every 15 deg of longitude, neighbours of the cardinal meridians
    lons = finite_lons()
    ctx.info['position_lattice'] = '%d latitudes x %d longitudes' % (len(FINITE_LATS), len(lons))
    i = 0
    for lat in FINITE_LATS:
        for lon in lons:
            drv.run({'fn': 'rotation_matrix', 'lat': lat, 'lon': lon})
            vclass, v = gen_vec(rnd)
            atype = ax.ARG_TYPES[i % len(ax.ARG_TYPES)]
            drv.run({'fn': 'enu_xyz', 'lat': lat, 'lon': lon, 'atype': atype, 'vec': v, 'vclass': vclass,
                     'first': 'enu2xyz' if i % 2 == 0 else 'xyz2enu'})
            mclass, V = gen_matrix(rnd)
            drv.run({'fn': 'vcv', 'lat': lat, 'lon': lon, 'm': V.tolist(), 'mclass': mclass,
                     'first': 'cart2local' if i % 2 == 0 else 'local2cart', 'ellipse_of_local': True})
            if i % 3 == 0:
                col = [[float(V[0, 0])], [float(V[1, 1])], [float(V[2, 2])]]
                drv.run({'fn': 'vcv', 'lat': lat, 'lon': lon, 'm': col, 'mclass': 'column:' + mclass,
                         'first': 'cart2local' if i % 2 else 'local2cart'})
            if i % 4 == 0:
                jclass, v1, v2, c12 = gen_joint(rnd)
                drv.run({'fn': 'relative_error', 'lat': lat, 'lon': lon, 'var1': v1.tolist(), 'var2': v2.tolist(),
                         'cov12': c12.tolist(), 'jclass': jclass})
            i += 1
    # the repository's own tests of these functions under the monitors (realistic calling patterns; guards against a
    # monitor that is stricter than the code's legitimate behaviour)
    for tid in ambient_ids(drv.ns):
        drv.run({'fn': 'ambient', 'test': tid})
    for shape in ([3, 2], [2, 3], [3, 4]):
        drv.run({'fn': 'vcv_shape', 'lat': 10.0, 'lon': 20.0, 'shape': shape})
    # fixed matrices: each class once more with unit scale and the repository's own test matrix
    fixed = [[[1.44, -1.32, 1.32], [-1.32, 1.22, -1.20], [1.32, -1.20, 1.20]],
             [[1.0, 2.0, 0.0], [2.0, 4.0, 0.0], [0.0, 0.0, 0.0]],
             [[0.0, 0.0, 0.0], [0.0, 0.0, 0.0], [0.0, 0.0, 0.0]],
             [[1.0, 0.0, 0.0], [0.0, 0.0, 0.0], [0.0, 0.0, 0.0]],
             [[0.0, 0.0, 0.0], [0.0, 1.0, 0.0], [0.0, 0.0, 0.0]],
             [[1.0, 0.0, 0.0], [0.0, 1e-8, 0.0], [0.0, 0.0, 1.0]]]
    for V in fixed:
        drv.run({'fn': 'error_ellipse', 'vcv': V, 'mclass': 'fixed'})


def _mix(drv, ctx, rnd, n):
    for i in range(n):
        lat, lon = gen_pos(rnd)
        mclass, V = gen_matrix(rnd)
        vclass, v = gen_vec(rnd)
        atype = ax.ARG_TYPES[i % len(ax.ARG_TYPES)] if i % 2 else 'float'
        cases = [
            {'fn': 'rotation_matrix', 'lat': lat, 'lon': lon},
            {'fn': 'enu_xyz', 'lat': lat, 'lon': lon, 'atype': atype, 'vec': v, 'vclass': vclass,
             'first': 'enu2xyz' if rnd.random() < 0.5 else 'xyz2enu'},
            {'fn': 'vcv', 'lat': lat, 'lon': lon, 'm': V.tolist(), 'mclass': mclass,
             'first': 'cart2local' if rnd.random() < 0.5 else 'local2cart', 'ellipse_of_local': True},
            {'fn': 'error_ellipse', 'vcv': V.tolist(), 'mclass': mclass},
        ]
        if i % 3 == 0:
            col = [[float(V[0, 0])], [float(V[1, 1])], [float(V[2, 2])]]
            cases.append({'fn': 'vcv', 'lat': lat, 'lon': lon, 'm': col, 'mclass': 'column:' + mclass,
                          'first': 'cart2local' if rnd.random() < 0.5 else 'local2cart'})
        if i % 2 == 0:
            jclass, v1, v2, c12 = gen_joint(rnd)
            cases.append({'fn': 'relative_error', 'lat': lat, 'lon': lon, 'var1': v1.tolist(), 'var2': v2.tolist(),
                          'cov12': c12.tolist(), 'jclass': jclass})
        if i % 7 == 3:
            # whole-number variances, as a caller types them (np.diag([4, 9, 25]), a column np.array([[4], [9], [25]])):
            # representable in an integer dtype
            w = [float(rnd.randint(0, 30)) for _ in range(3)]
            o = rnd.choice([0.0, 0.0, 1.0, 2.0])
            W = [[w[0] + o, o, 0.0], [o, w[1] + o, 0.0], [0.0, 0.0, w[2]]]
            cases.append({'fn': 'vcv', 'lat': lat, 'lon': lon, 'm': W, 'mclass': 'whole-numbers', 'arep': 'int64',
                          'first': 'cart2local' if rnd.random() < 0.5 else 'local2cart', 'ellipse_of_local': True})
            cases.append({'fn': 'vcv', 'lat': lat, 'lon': lon, 'm': [[w[0]], [w[1]], [w[2]]], 'mclass': 'column:whole-numbers',
                          'arep': 'int64', 'first': 'cart2local' if rnd.random() < 0.5 else 'local2cart'})
            cases.append({'fn': 'error_ellipse', 'vcv': W, 'mclass': 'whole-numbers', 'arep': 'int64'})
            cases.append({'fn': 'relative_error', 'lat': lat, 'lon': lon, 'var1': W, 'var2': np.diag(w).tolist(),
                          'cov12': [[1.0, 0.0, 0.0], [0.0, 0.0, 0.0], [0.0, 1.0, 0.0]], 'jclass': 'whole-numbers', 'arep': 'int64'})
        for c in cases:
            if 'arep' not in c and c['fn'] in ('vcv', 'error_ellipse', 'relative_error'):
                # the same matrix in another memory order, read-only, as a view into a larger array, rebuilt from lists
                ar = core.choose_array_rep(rnd, 0.2)
                if ar and ar != 'int64':
                    c['arep'] = ar
            if i == 0 and c['fn'] in ('vcv', 'relative_error', 'enu_xyz'):
                ctx.sample(c)
            drv.run(c)


def replay(case, ctx):
    ns = core.load_repo()
    drv = Driver(ns, ctx)
    try:
        drv.run(case)
    finally:
        drv.M.uninstall()
