"""C11 The shipped transformation catalogue is labelled, reversible and self-consistent."""
import datetime
import itertools
import random
import re
from fractions import Fraction as F

from .. import core
from ..oracles import helmert as hx

ID = 'C11'
TITLE = 'transformation catalogue: labels, reversal, epoch shift, ITRF triples, IERS units'
LEVEL = 'exploration'
TECHNIQUE = ('runtime monitoring: invariant check on the live catalogue objects at a quiescent point after import (complete '
             'enumeration), plus post-condition monitors on Transformation.__neg__, __add__ and iers2trans driven with random sets')
RULE = ('complete enumeration of the live geodepy.constants module: every Transformation constant (labels vs name), every '
        'forward/reverse pair (exact negation of 14 parameters, same epoch, swapped labels), every ordered triple (A->B, B->C, A->C) '
        'of ITRF sets at every reference epoch occurring in the catalogue (chained = direct within 0.15 mm / 0.015 ppb / 0.015 mas '
        'and per year); monitors on __neg__, __add__ (labels and rates kept, parameters advanced by rate * days/365.25) and '
        'iers2trans (mm->m, ppb->ppm, mas->arcsec with reversed rotation signs) fed with shipped and random sets/tuples. '
        'The enumeration is made twice: on the catalogue as imported and on the catalogue after every constant has been passed through conform7/conform14/the wrappers, negated and moved in time (at and off its reference epoch, an odd number of times).  distinct = constants + pairs + triples x epochs + random-call classes While the catalogue is used, a chaining caller accumulates the next leg into every negated / re-referenced set it obtained (fields of the returned set only).')
ASSUMPTIONS = ['first-order composition of small-parameter Helmert sets: chained parameters = sum of the parameters at a common epoch '
               '(second-order terms are < 1e-9 of the tolerances for ITRF sets)',
               'naming convention <from>_to_<to>[_suffix] as stated in geodepy/constants.py']
EXHAUSTIVE = True
REQUIRED_COUNTERS = ['catalogue_constants_used_before_enumeration', 'derived_sets_edited_by_caller', 'same_label_add_sequences', 'constants_checked', 'pairs_checked', 'triples_checked', 'neg_calls', 'add_calls', 'iers_calls']
NAME = re.compile(r'^([a-z]+[0-9]+)_to_([a-z]+[0-9]+)(_[a-z]+)?$')
TOL = {'t': F(15, 100000), 's': F(15, 1000000), 'r': F(15, 1000000)}     # m, ppm, arcsec  (0.15 mm, 0.015 ppb, 0.015 mas)


def plan(tier, seed):
    n = 400 if tier == 'quick' else 6000
    return [{'kind': 'enumerate'}, {'kind': 'enumerate', 'after_use': True}] + \
        [{'kind': 'random', 'n': n} for _ in range(3 if tier == 'quick' else 15)]


def catalogue(ns):
    C = ns.constants
    return {k: v for k, v in sorted(vars(C).items()) if isinstance(v, C.Transformation)}


def tol_of(p):
    base = p.replace('d_', '')
    return TOL['t'] if base[0] == 't' else (TOL['s'] if base == 'sc' else TOL['r'])


def use_catalogue(ns, ctx, rnd):
    """The catalogue as it stands after it has been used: every shipped set is passed through the transformation functions
    (at its reference epoch, at other epochs, once and an odd number of times, with and without covariance), negated and
    moved in time.  None of this is judged here (C06/C07 do that); the relations are then enumerated on what is left."""
    import numpy as np
    T = ns.transform
    V = np.diag([1e-4, 4e-4, 9e-4])
    pt = (-4052051.7643, 4212836.2017, -2545106.0245)
    for name, t in catalogue(ns).items():
        ctx.count('catalogue_constants_used_before_enumeration')
        core.unjudged(ctx, T.conform7, *pt, t)
        core.unjudged(ctx, T.conform7, *pt, t, V.copy())
        chain_into(ns, ctx, core.unjudged(ctx, lambda a: -a, t), t)
        if isinstance(t.ref_epoch, datetime.date):
            for ep in (t.ref_epoch, datetime.date(2025, 7, 1), t.ref_epoch, datetime.date(1994, 1, 1), t.ref_epoch,
                       datetime.date(rnd.randint(1985, 2040), rnd.randint(1, 12), rnd.randint(1, 28))):
                core.unjudged(ctx, T.conform14, *pt, ep, t)
                leg = core.unjudged(ctx, lambda a, b: a + b, t, ep)
                chain_into(ns, ctx, leg, t)
            core.unjudged(ctx, T.conform14, *pt, datetime.date(2021, 3, 4), t, V.copy())
    for ep in (datetime.date(2020, 1, 1), datetime.date(2018, 1, 1), datetime.date(2020, 1, 1)):
        core.unjudged(ctx, T.transform_atrf2014_to_gda2020, *pt, ep)
        core.unjudged(ctx, T.transform_gda2020_to_atrf2014, *pt, ep)
    core.unjudged(ctx, T.transform_gda2020_to_atrf2014, *pt, datetime.date(2020, 1, 1))
    core.unjudged(ctx, T.transform_mga94_to_mga2020, 53, 386352.3979, 7381850.7689, 586.0, V.copy())
    core.unjudged(ctx, T.transform_mga2020_to_mga94, 53, 386353.2343, 7381852.2986, 587.5, V.copy())


def chain_into(ns, ctx, leg, t):
    """A caller that chains transformations accumulates the next leg into the set it has just obtained from the catalogue
    (negated, or re-referenced to the epoch it works at) and relabels it.  What the operators return is the caller's own
    object; the catalogue must be as shipped afterwards.  Only the fields of the returned set itself are written - the
    uncertainty object it refers to is shared with its source by design."""
    if not isinstance(leg, ns.constants.Transformation):
        return
    ctx.count('derived_sets_edited_by_caller')
    try:
        for p in hx.P14:
            v = getattr(leg, p, None)
            if isinstance(v, (int, float)):
                setattr(leg, p, v + getattr(t, p) + 0.001)
        leg.to_datum = 'CHAINED'
        leg.from_datum = str(leg.from_datum) + '*'
        if isinstance(leg.ref_epoch, datetime.date):
            leg.ref_epoch = leg.ref_epoch + datetime.timedelta(days=1)
    except (AttributeError, TypeError):
        ctx.count('derived_set_refused_the_edit(read-only object)')      # a set that cannot be edited cannot be corrupted this way


AFTER_USE = [False]


def _case(d):
    if AFTER_USE[0]:
        d = dict(d, after_use=True)
    return d


def enumerate_catalogue(ns, ctx):
    cat = catalogue(ns)
    ctx.info['catalogue_size'] = len(cat)
    # --- labels ---
    for name, t in cat.items():
        ctx.judged()
        ctx.count('constants_checked')
        ctx.bucket('const', name)
        m = NAME.match(name)
        if not m:
            ctx.violation('catalogue:name-not-in-convention', _case({'constant': name}), {})
            continue
        if str(t.from_datum).lower() != m.group(1) or str(t.to_datum).lower() != m.group(2):
            ctx.violation('catalogue:label-differs-from-name', _case({'constant': name}), {'from': t.from_datum, 'to': t.to_datum})
    # --- forward / reverse pairs ---
    for name, t in cat.items():
        m = NAME.match(name)
        if not m:
            continue
        rname = '%s_to_%s%s' % (m.group(2), m.group(1), m.group(3) or '')
        if rname not in cat:
            ctx.count('no_reverse_partner')
            continue
        if rname < name:
            continue
        r = cat[rname]
        ctx.judged()
        ctx.count('pairs_checked')
        ctx.bucket('pair', name)
        bad = [p for p in hx.P14 if getattr(r, p) != -getattr(t, p)]
        if bad:
            ctx.violation('catalogue:reverse-not-negation', _case({'pair': [name, rname]}),
                          {p: [getattr(t, p), getattr(r, p)] for p in bad})
        if r.ref_epoch != t.ref_epoch:
            ctx.violation('catalogue:reverse-epoch-differs', _case({'pair': [name, rname]}), {'epochs': [str(t.ref_epoch), str(r.ref_epoch)]})
        if (r.from_datum, r.to_datum) != (t.to_datum, t.from_datum):
            ctx.violation('catalogue:reverse-labels-not-swapped', _case({'pair': [name, rname]}),
                          {'forward': [t.from_datum, t.to_datum], 'reverse': [r.from_datum, r.to_datum]})
    # --- ITRF triples ---
    itrf = {k: v for k, v in cat.items() if str(v.from_datum).startswith('ITRF') and str(v.to_datum).startswith('ITRF')
            and not k.endswith('_vel') and isinstance(v.ref_epoch, datetime.date)}
    epochs = sorted({v.ref_epoch for v in itrf.values()})
    ctx.info['itrf_sets'] = len(itrf)
    ctx.info['catalogue_epochs'] = [str(e) for e in epochs]

    def at(t, ep):
        dt = hx.years_between(t.ref_epoch, ep)
        d = {p: F(getattr(t, p)) + F(getattr(t, 'd_' + p)) * dt for p in hx.P7}
        d.update({'d_' + p: F(getattr(t, 'd_' + p)) for p in hx.P7})
        return d
    ntr = 0
    for (ka, a), (kb, b) in itertools.product(itrf.items(), itrf.items()):
        if a.to_datum != b.from_datum or a.from_datum == b.to_datum:
            continue
        kc = '%s_to_%s' % (str(a.from_datum).lower(), str(b.to_datum).lower())
        if kc not in itrf:
            continue
        c = itrf[kc]
        ntr += 1
        for ep in epochs:
            ctx.judged()
            ctx.count('triples_checked')
            ctx.bucket('triple', ka, kb, str(ep))
            A, B, Cc = at(a, ep), at(b, ep), at(c, ep)
            bad = {}
            for p in A:
                d = abs(A[p] + B[p] - Cc[p])
                ctx.maxi('ratio:C11.triple', float(d / tol_of(p)))
                if d > tol_of(p):
                    bad[p] = [float(A[p] + B[p]), float(Cc[p])]
            if bad:
                ctx.violation('catalogue:itrf-triple-inconsistent#' + '+'.join(sorted({ka, kb, kc})),
                              _case({'triple': [ka, kb, kc], 'epoch': str(ep)}), bad)
    ctx.info['itrf_triples'] = ntr
    ctx.sample({'kind': 'triple', 'example': list(itertools.islice((k for k in itrf), 3)), 'epochs': [str(e) for e in epochs]})


# ---------------------------------------------------------------------------------------------
def judge_neg(ctx, t, r, label):
    ctx.judged()
    ctx.count('neg_calls')
    case = {'op': 'neg', 'set': label}
    bad = [p for p in hx.P14 if getattr(r, p) != -getattr(t, p)]
    if bad:
        ctx.violation('__neg__:parameters-not-negated', case, {p: [getattr(t, p), getattr(r, p)] for p in bad})
    if r.ref_epoch != t.ref_epoch:
        ctx.violation('__neg__:epoch-changed', case, {'epochs': [str(t.ref_epoch), str(r.ref_epoch)]})
    if (r.from_datum, r.to_datum) != (t.to_datum, t.from_datum):
        ctx.violation('__neg__:labels-not-swapped', case, {'before': [t.from_datum, t.to_datum], 'after': [r.from_datum, r.to_datum]})


def judge_add(ctx, t, ep, r, label):
    ctx.judged()
    ctx.count('add_calls')
    case = {'op': 'add', 'set': label, 'epoch': str(ep)}
    if r is None:
        ctx.violation('__add__:returned-none', case, {})
        return
    if (r.from_datum, r.to_datum) != (t.from_datum, t.to_datum):
        ctx.violation('__add__:direction-labels-changed', case, {'before': [t.from_datum, t.to_datum], 'after': [r.from_datum, r.to_datum]})
    bad = [p for p in hx.P7 if getattr(r, 'd_' + p) != getattr(t, 'd_' + p)]
    if bad:
        ctx.violation('__add__:rates-changed', case, {p: [getattr(t, 'd_' + p), getattr(r, 'd_' + p)] for p in bad})
    if r.ref_epoch != ep:
        ctx.violation('__add__:epoch-not-set', case, {'epoch': str(r.ref_epoch)})
    want = hx.params_at(t, ep)
    bad = {}
    for p in hx.P7:
        d = abs(F(getattr(r, p)) - want[p])
        if d > F(6, 10 ** 9):          # the library rounds to 8 decimals
            bad[p] = [getattr(r, p), float(want[p])]
    if bad:
        ctx.violation('__add__:parameters-not-advanced-linearly', case, bad)


def rand_transformation(ns, rnd):
    C = ns.constants
    kw = {p: round(rnd.uniform(-1, 1) * 10 ** rnd.randint(-4, 0), 8) for p in hx.P14}
    if rnd.random() < 0.2:
        # whole-number parameters typed as int (a user table), zeros typed as int as in the shipped plate-motion model
        kw = {p: (rnd.randint(-3, 3) if rnd.random() < 0.5 else v) for p, v in kw.items()}
    ep = datetime.date(rnd.randint(1985, 2025), rnd.randint(1, 12), rnd.randint(1, 28))
    return C.Transformation(rnd.choice(['ITRF2014', 'GDA94', 'X1']), rnd.choice(['ITRF2008', 'GDA2020', 'Y2']), ep, **kw)


def rand_epoch(rnd, ref=None):
    r = rnd.random()
    if r < 0.1 and ref is not None:
        return ref
    if r < 0.2:
        return rnd.choice([datetime.date(2020, 2, 29), datetime.date(2000, 1, 1), datetime.date(1980, 1, 1), datetime.date(2060, 12, 31)])
    return datetime.date.fromordinal(rnd.randint(datetime.date(1980, 1, 1).toordinal(), datetime.date(2060, 12, 31).toordinal()))


def judge_iers(ns, ctx, args):
    C = ns.constants
    ctx.judged()
    ctx.count('iers_calls')
    case = {'op': 'iers2trans', 'args': [args[0], args[1], str(args[2])] + list(args[3:])}
    try:
        t = C.iers2trans(*args)
    except Exception as e:
        ctx.violation('iers2trans:exception', case, {'exception': repr(e)})
        return
    if (t.from_datum, t.to_datum, t.ref_epoch) != (args[0], args[1], args[2]):
        ctx.violation('iers2trans:labels-or-epoch', case, {'got': [t.from_datum, t.to_datum, str(t.ref_epoch)]})
    names = list(hx.P14)
    vals = dict(zip(['tx', 'ty', 'tz', 'sc', 'rx', 'ry', 'rz', 'd_tx', 'd_ty', 'd_tz', 'd_sc', 'd_rx', 'd_ry', 'd_rz'], args[3:]))
    bad = {}
    for p in names:
        v = F(vals[p]) / 1000
        if p.replace('d_', '')[0] == 'r':
            v = -v
        if abs(F(getattr(t, p)) - v) > F(6, 10 ** 9):
            bad[p] = [getattr(t, p), float(v)]
    if bad:
        ctx.violation('iers2trans:units-or-rotation-sign', case, bad)


def run_random(ns, ctx, rnd, n):
    cat = catalogue(ns)
    names = list(cat)
    for i in range(n):
        if i % 3 == 0:
            name = rnd.choice(names)
            t = cat[name]
            label = name
        else:
            t = rand_transformation(ns, rnd)
            label = {p: getattr(t, p) for p in hx.P14}
            label['ref_epoch'] = str(t.ref_epoch)
            label['labels'] = [t.from_datum, t.to_datum]
        ctx.bucket('neg', 'shipped' if isinstance(label, str) else 'random')
        judge_neg(ctx, t, -t, label)
        if isinstance(t.ref_epoch, datetime.date):
            ep = rand_epoch(rnd, t.ref_epoch)
            ctx.bucket('add', 'shipped' if isinstance(label, str) else 'random', 'before' if ep < t.ref_epoch else ('same' if ep == t.ref_epoch else 'after'))
            try:
                r = t + ep
            except Exception as e:
                ctx.judged()
                ctx.violation('__add__:exception', {'op': 'add', 'set': label, 'epoch': str(ep)}, {'exception': repr(e)})
                r = 'exc'
            if r != 'exc':
                judge_add(ctx, t, ep, r, label)
            # another set with the same labels and reference epoch moved to the same date right afterwards, and the first
            # one again: re-referencing must depend on the set's own parameters and rates only
            if isinstance(label, str):
                sibs = [k for k, v in cat.items() if k != name and (v.from_datum, v.to_datum, v.ref_epoch) == (t.from_datum, t.to_datum, t.ref_epoch)]
                others = [(k, cat[k]) for k in sibs[:2]]
            else:
                t2 = rand_transformation(ns, rnd)
                # (built through the constructor: a parameter set need not accept later assignments)
                t2 = ns.constants.Transformation(t.from_datum, t.to_datum, t.ref_epoch, tf_sd=t2.tf_sd, **{p: getattr(t2, p) for p in hx.P14})
                lab2 = {p: getattr(t2, p) for p in hx.P14}
                lab2['ref_epoch'] = str(t2.ref_epoch)
                lab2['labels'] = [t2.from_datum, t2.to_datum]
                others = [(lab2, t2)]
            for lab2, t2 in others:
                ctx.count('same_label_add_sequences')
                for tt, ll in ((t2, lab2), (t, label)):
                    try:
                        judge_add(ctx, tt, ep, tt + ep, ll)
                    except Exception as e:
                        ctx.violation('__add__:exception', {'op': 'add', 'set': ll, 'epoch': str(ep)}, {'exception': repr(e)})
        args = ['ITRF%d' % rnd.randint(1988, 2020), 'ITRF%d' % rnd.randint(1988, 2020), rand_epoch(rnd)] + \
               [round(rnd.uniform(-100, 100), rnd.choice([1, 2, 3])) for _ in range(14)]
        if i % 2:
            # table-like rows: most entries exactly zero (as in the published ITRF tables), every pattern of zero / non-zero
            # parameters against zero / non-zero rates
            vals = args[3:]
            for j in range(14):
                if rnd.random() < 0.55:
                    vals[j] = rnd.choice([0.0, 0, 0.0, -0.0])
            args = args[:3] + vals
        ctx.bucket('iers', sum(1 for a in args[3:] if a < 0) // 4)
        judge_iers(ns, ctx, args)
        if i < 1:
            ctx.sample({'iers2trans_args': [args[0], args[1], str(args[2])] + args[3:]})


def run_shard(spec, ctx):
    ns = core.load_repo()
    rnd = random.Random('%s-%s-%s' % (ID, spec['seed'], spec['shard']))
    if spec['kind'] == 'enumerate':
        if spec.get('after_use'):
            use_catalogue(ns, ctx, rnd)
            AFTER_USE[0] = True
        enumerate_catalogue(ns, ctx)
    else:
        run_random(ns, ctx, rnd, spec['n'])


def replay(case, ctx):
    ns = core.load_repo()
    C = ns.constants
    if 'constant' in case or 'pair' in case or 'triple' in case:
        if case.get('after_use'):
            # the relation was found broken on the catalogue as it stood after use: use it again first
            use_catalogue(ns, ctx, random.Random('%s-replay' % ID))
            AFTER_USE[0] = True
        enumerate_catalogue(ns, ctx)
        return
    if case.get('op') == 'iers2trans':
        a = case['args']
        y, m, d = (int(v) for v in a[2].split('-'))
        judge_iers(ns, ctx, [a[0], a[1], datetime.date(y, m, d)] + a[3:])
        return
    lab = case['set']
    if isinstance(lab, str):
        t = getattr(C, lab)
    else:
        y, m, d = (int(v) for v in lab['ref_epoch'].split('-'))
        t = C.Transformation(lab['labels'][0], lab['labels'][1], datetime.date(y, m, d), **{p: lab[p] for p in hx.P14})
    if case['op'] == 'neg':
        judge_neg(ctx, t, -t, lab)
    else:
        y, m, d = (int(v) for v in case['epoch'].split('-'))
        ep = datetime.date(y, m, d)
        judge_add(ctx, t, ep, t + ep, lab)
