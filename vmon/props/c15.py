"""C15 Coordinate objects convert consistently and carry heights unchanged."""
import math
import random
import warnings
from fractions import Fraction

from .. import core, tmwork
from ..oracles import angle as ax, tm
from ..oracles.geod import to_xyz

ID = 'C15'
TITLE = 'CoordCart / CoordGeo / CoordTM conversions'
LEVEL = 'exploration'
TECHNIQUE = ('runtime monitoring: every conversion method call of the three coordinate classes is judged against the functional API '
             'called with the same ellipsoid, projection and notation; random conversion programs (chains) carry a shadow model of '
             'position and heights')
RULE = ('random positions world-wide inside the TM band (NSW longitudes for ISG), heights present / absent / 0.0 in all 3x3 '
        'combinations, six notations (float + five classes) as source and target, ellipsoids GRS80/ANS, projections UTM/ISG; every '
        'single conversion (cart, geo, tm, notation; all 6x6 notation pairs) and random chains of length 2..8 over {cart, geo, tm, '
        'notation}.  Judged: numbers identical to the functional conversion; heights preserved by geo<->tm; N = h - H in every '
        'conversion to or from Cartesian; notation() keeps the position (1e-8") and the heights; a chain returns to the start within '
        '0.3 mm.  distinct = operation x source type x target notation x height-presence pattern x ellipsoid x projection The heights of every conversion result are edited and restored while the source\'s snapshot is compared; 8 % of the chains start at satellite / ocean-floor heights and run between Cartesian and geographic form only.')
ASSUMPTIONS = ['the functional conversions themselves are judged by C01/C02/C03/C08', 'angle_exact for the denoted latitude/longitude']
N = {'quick': 600, 'thorough': 10000}
SHARDS = {'quick': 16, 'thorough': 32}
REQUIRED_COUNTERS = ['source_objects_checked', 'results_edited_by_caller', 'reused_sources', 'alias_conversions', 'op:geo.cart', 'op:cart.geo', 'op:geo.tm', 'op:tm.geo', 'op:geo.notation', 'op:cart.tm', 'op:tm.cart',
                     'chains_closed', 'nval_zero_cases', 'height_zero_cases']
NOTATIONS = ['float'] + ax.ANGLE_CLASSES
HSTATES = ['absent', 'zero', 'value']


def plan(tier, seed):
    return [{'n': N[tier]} for _ in range(SHARDS[tier])]


def ncls(ns, name):
    return float if name == 'float' else getattr(ns.angles, name)


def tname(v):
    return 'float' if type(v) is float else type(v).__name__


def den(v):
    d = ax.denote(v)
    if d is None:
        raise ValueError('invalid HP held by coordinate')
    return d


def gen_start(rnd):
    prj = 'isg' if rnd.random() < 0.3 else 'utm'
    ell = 'ans' if (prj == 'isg' or rnd.random() < 0.3) else 'grs80'
    if prj == 'isg' and rnd.random() < 0.25:
        ell = 'grs80'        # the library warns and computes: ISG numbers on the ellipsoid that was asked for
    lat = rnd.uniform(-79.5, 83.5)
    if rnd.random() < 0.1:
        lat = rnd.choice([-0.5, 0.25, 1e-6, -1e-6, -33.5, 45.0, 0.0, -0.0, 0.0])
    if prj == 'isg':
        lon = rnd.uniform(138.01, 155.99)
        lat = rnd.uniform(-44.0, -20.0)      # ISG northings stay inside the range the inverse accepts
    else:
        lon = rnd.uniform(-179.99, 179.99)

    if prj == 'utm' and rnd.random() < 0.03:
        lon = rnd.choice([-180.0, 180.0, -179.99999999999, 179.99999999999])     # on the 180 degree meridian: zone 1 meets zone 60
    if rnd.random() < 0.35:
        k = rnd.choice([1, 2, 3, 'min'])
        if k == 'min':
            lat, lon = round(lat * 60) / 60.0, round(lon * 60) / 60.0
        else:
            lat, lon = round(lat, k), round(lon, k)
        if prj == 'isg':
            lon = min(max(lon, 138.01), 155.99)

    if prj == 'utm' and rnd.random() < 0.08:
        # a position whose grid ordinate xi = y / (k0 A) sits on (a millimetre to kilometres off) a zero of one of the
        # trigonometric factors of the Krueger series
        a_e, invf_e = tmwork.ell_published(ell)
        cm = math.floor((lon + 180.0) / 6.0) * 6.0 - 177.0
        y = tmwork.series_zero_y(rnd, a_e, invf_e, 0.9996) * rnd.choice([1, -1])
        try:
            x0 = tm.forward(math.degrees(y / 6.4e6), lon - cm, a_e, invf_e, 0.9996)[0]
            la_z, dl_z, _, _ = tm.inverse(x0, y, a_e, invf_e, 0.9996)
            if -79.5 <= la_z <= 83.5 and abs(dl_z) < 2.99:
                lat, lon = la_z, cm + dl_z
        except (ValueError, OverflowError, ZeroDivisionError):
            pass

    high = rnd.random() < 0.08       # a satellite or an ocean-floor position: heights of other magnitudes travel the same way

    def hs():
        s = rnd.choice(HSTATES)
        if s not in ('absent', 'zero') and high:
            return round(rnd.choice([-1.0e4, 1.0e5, 4.08e5, 2.02e7, 3.5786e7, 10 ** rnd.uniform(4, 7.6)]) * rnd.uniform(0.9, 1.0), 3)
        return None if s == 'absent' else (0.0 if s == 'zero' else round(rnd.uniform(-100, 3000), 3))
    st = {'ell': ell, 'prj': prj, 'lat': lat, 'lon': lon, 'h': hs(), 'H': hs(), 'notation': rnd.choice(NOTATIONS)}
    if rnd.random() < 0.3:
        st['omit_defaults'] = True      # conversion methods called with their default arguments left out
    return st


def build_geo(ns, st):
    la = ax.make_object(ns.angles, st['notation'], st['lat'])
    lo = ax.make_object(ns.angles, st['notation'], st['lon'])
    return ns.coord.CoordGeo(la, lo, st['h'], st['H'])


def hkey(h, H):
    def k(v):
        return 'absent' if v is None else ('zero' if v == 0 else 'value')
    return k(h) + '/' + k(H)


class Judge:
    def __init__(self, ns, ctx, ell, prj, omit_defaults=False):
        self.ns, self.ctx = ns, ctx
        self.ell_name, self.prj_name = ell, prj
        self.ell = tmwork.ell_obj(ns, ell)
        self.prj = tmwork.prj_obj(ns, prj)
        self.omit_defaults = omit_defaults

    def mcall(self, obj, meth, *vals):
        """Call a conversion method; when the chain says so, arguments equal to the documented defaults (GRS80, UTM, DECAngle)
        are left out and the others are passed by keyword (parameter names as the live method spells them)."""
        f = getattr(obj, meth)
        if not self.omit_defaults:
            return f(*vals)
        import inspect
        try:
            names = [q.name for q in inspect.signature(f).parameters.values()][:len(vals)]
        except (TypeError, ValueError):
            return f(*vals)
        if len(names) < len(vals):
            return f(*vals)
        C, A = self.ns.constants, self.ns.angles
        kw = {n: v for n, v in zip(names, vals) if not (v is C.grs80 or v is C.utm or v is A.DECAngle)}
        if len(kw) < len(vals):
            self.ctx.count('method_calls_with_defaults_left_out')
        return f(**kw)

    def v(self, mech, case, detail):
        self.ctx.violation(mech, case, detail)

    # each op returns the new object or None (after recording a violation)
    def geo_cart(self, g, case):
        ctx = self.ctx
        ctx.judged()
        ctx.count('op:geo.cart')
        ctx.bucket('geo.cart', tname(g.lat), hkey(g.ell_ht, g.orth_ht), self.ell_name)
        if g.ell_ht == 0 or g.orth_ht == 0:
            ctx.count('height_zero_cases')
        try:
            c = self.mcall(g, 'cart', self.ell)
        except Exception as e:
            self.v('CoordGeo.cart:exception', case, {'exception': repr(e)})
            return None
        h = 0 if g.ell_ht is None else g.ell_ht
        x, y, z = self.ns.convert.llh2xyz(g.lat, g.lon, h, self.ell)
        if (c.xaxis, c.yaxis, c.zaxis) != (float(x), float(y), float(z)):
            self.v('CoordGeo.cart:differs-from-llh2xyz', case, {'obj': [c.xaxis, c.yaxis, c.zaxis], 'func': [x, y, z]})
        want = None if (g.ell_ht is None or g.orth_ht is None) else g.ell_ht - g.orth_ht
        if want == 0:
            ctx.count('nval_zero_cases')
        if c.nval != want:
            self.v('CoordGeo.cart:N-not-h-minus-H', case, {'nval': c.nval, 'ell_ht': g.ell_ht, 'orth_ht': g.orth_ht, 'expected': want})
        return c

    def cart_geo(self, c, notation, case):
        ctx = self.ctx
        ctx.judged()
        ctx.count('op:cart.geo')
        ctx.bucket('cart.geo', notation, 'N-absent' if c.nval is None else ('N-zero' if c.nval == 0 else 'N'), self.ell_name)
        try:
            g = self.mcall(c, 'geo', self.ell, ncls(self.ns, notation))
        except Exception as e:
            self.v('CoordCart.geo:exception', case, {'exception': repr(e), 'notation': notation})
            return None
        lat, lon, h = self.ns.convert.xyz2llh(c.xaxis, c.yaxis, c.zaxis, self.ell)
        if not self.same_notation_value(g.lat, lat, notation) or not self.same_notation_value(g.lon, lon, notation):
            self.v('CoordCart.geo:differs-from-xyz2llh', case, {'obj': [repr(g.lat), repr(g.lon)], 'func': [lat, lon], 'notation': notation})
        if g.ell_ht != h:
            self.v('CoordCart.geo:height-differs-from-xyz2llh', case, {'obj': g.ell_ht, 'func': h})
        want = None if c.nval is None else h - c.nval
        if g.orth_ht != want:
            self.v('CoordCart.geo:H-not-h-minus-N', case, {'orth_ht': g.orth_ht, 'ell_ht': g.ell_ht, 'nval': c.nval, 'expected': want})
        return g

    def same_notation_value(self, got, dec_value, notation):
        """`got` must be of the requested notation and denote the functional result (float compare exact for float/DECAngle)."""
        if tname(got) != notation:
            return False
        if notation in ('float', 'DECAngle'):
            return float(got) == float(dec_value) if notation == 'float' else \
                (got.dec_angle == float(dec_value) and ax.float_value_mismatch(got) is None)
        return abs(den(got) - Fraction(float(dec_value))) <= ax.TOL_DEG

    def geo_tm(self, g, case):
        ctx = self.ctx
        ctx.judged()
        ctx.count('op:geo.tm')
        ctx.bucket('geo.tm', tname(g.lat), hkey(g.ell_ht, g.orth_ht), self.ell_name, self.prj_name)
        with warnings.catch_warnings():
            warnings.simplefilter('ignore')
            try:
                t = self.mcall(g, 'tm', self.ell, self.prj)
            except Exception as e:
                self.v('CoordGeo.tm:exception', case, {'exception': repr(e)})
                return None
            hemi, zone, e, n, _, _ = self.ns.convert.geo2grid(g.lat, g.lon, 0, self.ell, self.prj)
        if (t.zone, t.east, t.north, t.hemi_north) != (zone, float(e), float(n), hemi == 'North') or t.projection is not self.prj:
            self.v('CoordGeo.tm:differs-from-geo2grid', case, {'obj': [t.zone, t.east, t.north, t.hemi_north], 'func': [zone, e, n, hemi],
                                                               'projection_kept': t.projection is self.prj})
        if (t.ell_ht, t.orth_ht) != (g.ell_ht, g.orth_ht):
            self.v('CoordGeo.tm:heights-not-carried', case, {'before': [g.ell_ht, g.orth_ht], 'after': [t.ell_ht, t.orth_ht]})
        return t

    def tm_geo(self, t, notation, case):
        ctx = self.ctx
        ctx.judged()
        ctx.count('op:tm.geo')
        ctx.bucket('tm.geo', notation, hkey(t.ell_ht, t.orth_ht), self.ell_name, self.prj_name)
        with warnings.catch_warnings():
            warnings.simplefilter('ignore')
            try:
                g = self.mcall(t, 'geo', self.ell, ncls(self.ns, notation))
            except Exception as e:
                self.v('CoordTM.geo:exception', case, {'exception': repr(e), 'notation': notation})
                return None
            lat, lon, _, _ = self.ns.convert.grid2geo(t.zone, t.east, t.north, 'north' if t.hemi_north else 'south', self.ell, t.projection)
        if not self.same_notation_value(g.lat, lat, notation) or not self.same_notation_value(g.lon, lon, notation):
            self.v('CoordTM.geo:differs-from-grid2geo', case, {'obj': [repr(g.lat), repr(g.lon)], 'func': [lat, lon], 'notation': notation})
        if (g.ell_ht, g.orth_ht) != (t.ell_ht, t.orth_ht):
            self.v('CoordTM.geo:heights-not-carried', case, {'before': [t.ell_ht, t.orth_ht], 'after': [g.ell_ht, g.orth_ht]})
        return g

    def geo_notation(self, g, notation, case):
        ctx = self.ctx
        ctx.judged()
        ctx.count('op:geo.notation')
        ctx.bucket('geo.notation', tname(g.lat), notation)
        try:
            r = g.notation(ncls(self.ns, notation))
        except Exception as e:
            self.v('CoordGeo.notation:exception', case, {'exception': repr(e), 'from': tname(g.lat), 'to': notation})
            return None
        if tname(r.lat) != notation or tname(r.lon) != notation:
            self.v('CoordGeo.notation:wrong-type', case, {'got': [tname(r.lat), tname(r.lon)], 'want': notation})
            return r
        if abs(den(r.lat) - den(g.lat)) > ax.TOL_DEG or abs(den(r.lon) - den(g.lon)) > ax.TOL_DEG \
                or ax.float_value_mismatch(r.lat) or ax.float_value_mismatch(r.lon):
            self.v('CoordGeo.notation:position-changed', case, {'before': [repr(g.lat), repr(g.lon)], 'after': [repr(r.lat), repr(r.lon)]})
        if (r.ell_ht, r.orth_ht) != (g.ell_ht, g.orth_ht):
            self.v('CoordGeo.notation:heights-not-carried', case, {'before': [g.ell_ht, g.orth_ht], 'after': [r.ell_ht, r.orth_ht]})
        return r

    def cart_tm(self, c, case):
        ctx = self.ctx
        ctx.judged()
        ctx.count('op:cart.tm')
        ctx.bucket('cart.tm', 'N-absent' if c.nval is None else ('N-zero' if c.nval == 0 else 'N'), self.ell_name, self.prj_name)
        with warnings.catch_warnings():
            warnings.simplefilter('ignore')
            try:
                t = self.mcall(c, 'tm', self.ell, self.prj)
            except Exception as e:
                self.v('CoordCart.tm:exception', case, {'exception': repr(e)})
                return None
            lat, lon, h = self.ns.convert.xyz2llh(c.xaxis, c.yaxis, c.zaxis, self.ell)
            hemi, zone, e, n, _, _ = self.ns.convert.geo2grid(lat, lon, 0, self.ell, self.prj)
        if (t.zone, t.east, t.north, t.hemi_north) != (zone, float(e), float(n), hemi == 'North') or t.projection is not self.prj:
            self.v('CoordCart.tm:differs-from-functional-composition', case, {'obj': [t.zone, t.east, t.north], 'func': [zone, e, n]})
        want = None if c.nval is None else h - c.nval
        if t.ell_ht != h or t.orth_ht != want:
            self.v('CoordCart.tm:heights', case, {'obj': [t.ell_ht, t.orth_ht], 'expected': [h, want]})
        return t

    def tm_cart(self, t, case):
        ctx = self.ctx
        ctx.judged()
        ctx.count('op:tm.cart')
        ctx.bucket('tm.cart', hkey(t.ell_ht, t.orth_ht), self.ell_name, self.prj_name)
        with warnings.catch_warnings():
            warnings.simplefilter('ignore')
            try:
                c = self.mcall(t, 'cart', self.ell)
            except Exception as e:
                self.v('CoordTM.cart:exception', case, {'exception': repr(e)})
                return None
            lat, lon, _, _ = self.ns.convert.grid2geo(t.zone, t.east, t.north, 'north' if t.hemi_north else 'south', self.ell, t.projection)
            x, y, z = self.ns.convert.llh2xyz(lat, lon, 0 if t.ell_ht is None else t.ell_ht, self.ell)
        if math.dist((c.xaxis, c.yaxis, c.zaxis), (x, y, z)) > 1e-9:
            self.v('CoordTM.cart:differs-from-functional-composition', case, {'obj': [c.xaxis, c.yaxis, c.zaxis], 'func': [x, y, z]})
        want = None if (t.ell_ht is None or t.orth_ht is None) else t.ell_ht - t.orth_ht
        if c.nval != want:
            self.v('CoordTM.cart:N-not-h-minus-H', case, {'nval': c.nval, 'expected': want})
        return c


def snapshot(obj):
    """value snapshot of a coordinate object (angles by their stored fields)"""
    out = {}
    for k, v in sorted(vars(obj).items()):
        if hasattr(v, '__dict__') and type(v).__name__ in ax.ANGLE_CLASSES:
            out[k] = [type(v).__name__, sorted((a, repr(b)) for a, b in vars(v).items())]
        elif type(v).__name__ == 'Projection':
            out[k] = ['Projection', id(v)]
        else:
            out[k] = repr(v)
    return out


def position_of(ns, J, obj):
    """Cartesian position (metres) of any coordinate object, through the functional API (heights: absent -> 0)."""
    C = ns.coord
    a, invf = tmwork.ell_published(J.ell_name)
    if isinstance(obj, C.CoordCart):
        return (obj.xaxis, obj.yaxis, obj.zaxis)
    if isinstance(obj, C.CoordTM):
        with warnings.catch_warnings():
            warnings.simplefilter('ignore')
            lat, lon, _, _ = ns.convert.grid2geo(obj.zone, obj.east, obj.north, 'north' if obj.hemi_north else 'south', J.ell, obj.projection)
        return to_xyz(lat, lon, a, invf, 0.0 if obj.ell_ht is None else obj.ell_ht)
    return to_xyz(float(den(obj.lat)), float(den(obj.lon)), a, invf, 0.0 if obj.ell_ht is None else obj.ell_ht)


def run_chain(ns, ctx, start, ops, rec=True):
    J = Judge(ns, ctx, start['ell'], start['prj'], bool(start.get('omit_defaults')))
    case = {'start': start, 'ops': ops}
    try:
        cur = build_geo(ns, start)
    except ValueError:
        ctx.count('start_unconstructible')
        return
    p0 = position_of(ns, J, cur)
    first_h = start['h']
    kind = 'geo'
    for op in ops:
        name = op[0]
        before = snapshot(cur)
        src = cur
        if kind == 'geo':
            if name == 'cart':
                nxt, nk = J.geo_cart(cur, case), 'cart'
            elif name == 'tm':
                nxt, nk = J.geo_tm(cur, case), 'tm'
            elif name == 'notation':
                nxt, nk = J.geo_notation(cur, op[1], case), 'geo'
            else:
                continue
        elif kind == 'cart':
            if name == 'geo':
                nxt, nk = J.cart_geo(cur, op[1], case), 'geo'
            elif name == 'tm':
                nxt, nk = J.cart_tm(cur, case), 'tm'
            else:
                continue
        else:
            if name == 'geo':
                nxt, nk = J.tm_geo(cur, op[1], case), 'geo'
            elif name == 'cart':
                nxt, nk = J.tm_cart(cur, case), 'cart'
            else:
                continue
        if nxt is None:
            ctx.count('chain_aborted_by_step_failure')
            return
        # a conversion returns a new object and leaves its source as it was (the source may be converted again)
        ctx.count('source_objects_checked')
        if snapshot(src) != before:
            ctx.violation('%s.%s:source-object-changed' % (type(src).__name__, name), case, {'before': before, 'after': snapshot(src)})
        else:
            # ... also when the caller goes on to edit what it got back (strips or sets the heights of its copy)
            saved = dict(vars(nxt))
            try:
                ctx.count('results_edited_by_caller')
                for k in ('ell_ht', 'orth_ht', 'nval'):
                    if k in saved:
                        try:
                            setattr(nxt, k, None if saved[k] is not None else 1.25)
                        except (AttributeError, TypeError):
                            ctx.count('result_refused_the_edit(read-only object)')
                if snapshot(src) != before:
                    ctx.violation('%s.%s:result-shares-state-with-its-source' % (type(src).__name__, name), case,
                                  {'source_before': before, 'source_after_result_was_edited': snapshot(src), 'same_object': nxt is src})
            finally:
                vars(nxt).clear()
                vars(nxt).update(saved)
        if len(op) > 2 and op[2] == 'reuse':
            # the same source converted a second time must give the same result
            again = None
            if kind == 'geo' and name == 'cart':
                again = J.geo_cart(src, case)
            elif kind == 'geo' and name == 'tm':
                again = J.geo_tm(src, case)
            elif kind == 'cart' and name == 'geo':
                again = J.cart_geo(src, op[1], case)
            elif kind == 'tm' and name == 'geo':
                again = J.tm_geo(src, op[1], case)
            elif kind == 'tm' and name == 'cart':
                again = J.tm_cart(src, case)
            if again is not None and snapshot(again) != snapshot(nxt):
                ctx.violation('%s.%s:second-conversion-differs' % (type(src).__name__, name), case,
                              {'first': snapshot(nxt), 'second': snapshot(again)})
            ctx.count('reused_sources')
        if len(op) > 2 and op[2] == 'alias':
            # the same object converted once more with the other ellipsoid (and judged against the functional API for
            # that ellipsoid): a memo keyed on the numbers without the ellipsoid answers with the first conversion
            other = Judge(ns, ctx, 'ans' if start['ell'] == 'grs80' else 'grs80', start['prj'] if start['prj'] == 'utm' else 'utm')
            if kind == 'cart' and name == 'geo':
                other.cart_geo(cur, op[1], case)
            elif kind == 'geo' and name == 'cart':
                other.geo_cart(cur, case)
            elif kind == 'geo' and name == 'tm' and start['prj'] == 'utm':
                other.geo_tm(cur, case)
            elif kind == 'tm' and name == 'geo' and start['prj'] == 'utm':
                other.tm_geo(cur, op[1], case)
            ctx.count('alias_conversions')
        cur, kind = nxt, nk
    # closed chain: bring back to a geographic float coordinate and compare positions
    ctx.judged()
    ctx.count('chains_closed')
    p1 = position_of(ns, J, cur)
    # a chain that went through Cartesian with an absent ellipsoidal height comes back with height ~0: positions agree anyway
    d = math.dist(p0, p1)
    if first_h is not None and getattr(cur, 'ell_ht', 0) is None:
        pass
    if not ctx.ratio('C15.chain-closure', d, 3e-4):
        ctx.violation('chain:does-not-return-to-start', case, {'start_xyz': list(p0), 'end_xyz': list(p1), 'dist_m': d})


def gen_ops(rnd, n, no_tm=False):
    ops = []
    kind = 'geo'
    for _ in range(n):
        if kind == 'geo':
            name = rnd.choice(['cart', 'cart', 'notation'] if no_tm else ['cart', 'tm', 'notation', 'notation'])
        elif kind == 'cart':
            name = rnd.choice(['geo'] if no_tm else ['geo', 'geo', 'tm'])
        else:
            name = rnd.choice(['geo', 'geo', 'cart'])
        if name in ('geo', 'notation'):
            ops.append([name, rnd.choice(NOTATIONS)])
            kind = 'geo'
        else:
            ops.append([name, None])
            kind = name
        if name != 'notation' and rnd.random() < 0.25:
            ops[-1] = ops[-1][:2] + ['alias']
        elif name != 'notation' and rnd.random() < 0.3:
            ops[-1] = ops[-1][:2] + ['reuse']
    return ops


def run_shard(spec, ctx):
    ns = core.load_repo()
    rnd = random.Random('%s-%s-%s' % (ID, spec['seed'], spec['shard']))
    # complete 6x6 notation table and 3x3 height combinations in every shard
    k = 0
    for src in NOTATIONS:
        for dst in NOTATIONS:
            st = gen_start(rnd)
            st['notation'] = src
            st['h'], st['H'] = [(None, None), (0.0, 12.5), (100.0, 0.0), (0.0, 0.0), (55.5, None), (None, 3.0), (7.0, 7.0),
                                (None, 0.0), (0.0, None)][k % 9]
            k += 1
            run_chain(ns, ctx, st, [['notation', dst], ['cart'], ['geo', src], ['tm'], ['cart'], ['tm'], ['geo', dst]])
    for i in range(spec['n']):
        st = gen_start(rnd)
        # far above the ellipsoid (satellites) the chains run between Cartesian and geographic form only: a grid coordinate
        # is rounded to 0.1 mm *on the ellipsoid*, which is more than 0.3 mm at 36 000 km - the closure bound is a statement
        # about terrestrial heights wherever a projected step is involved
        hi = any(v is not None and abs(v) > 1.0e4 for v in (st['h'], st['H']))
        if hi:
            ctx.count('chains_far_above_or_below_the_ellipsoid(no projected step)')
        ops = gen_ops(rnd, rnd.randint(2, 8), no_tm=hi)
        if i < 2:
            ctx.sample({'start': st, 'ops': ops})
        run_chain(ns, ctx, st, ops)


def replay(case, ctx):
    ns = core.load_repo()
    run_chain(ns, ctx, case['start'], case['ops'])
