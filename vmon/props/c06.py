"""C06 7-parameter transformation equals its similarity formula and is reversible."""
import datetime
import math
import random

import numpy as np

from .. import core
from ..oracles import helmert as hx

ID = 'C06'
TITLE = 'conform7 = similarity formula; reversible; covariance = J Q J^T'
LEVEL = 'exploration'
RULE = ('every shipped Transformation constant (all enumerated) and random sets (|t|<=1000 m, |s|<=100 ppm, |r|<60", slivers '
        'r -> 60" and rotations with > 9 decimals) x points with |x|,|y|,|z| <= 5e7 m in all octants (log radius) x covariance '
        'inputs {none, SPD, rank-1, rank-2, zero, diagonal, condition 1e8}.  conform7 judged against the exact rational formula '
        '(1 um); set then negated set returns the start within the stated caps (0.01 mm; 2 mm for AGD sets) / the exactly '
        'evaluated second-order residual for random sets; with vcv and uncertainties: a covariance is returned, symmetric, PSD, '
        'equal to J Q J^T (1e-12 relative); without uncertainties: None.  3 % of the judged calls are preceded by calls the property does not speak about (strings, None, numbers or malformed covariance where a parameter set, a date or a 3x3 matrix is required; a Transformation plus a number): not judged, exceptions swallowed.  in half of the shards the very first call of the process is made with whole-metre coordinates typed as int; expectations for shipped sets are built from the parameters as imported; every returned object that holds an array is kept with a copy and compared again after later calls (results are values: `earlier-result-changed-by-later-call`).  distinct = set x octant x radius decade x vcv kind Covariance classes include exactly-PSD integer rank-1/2 matrices scaled up to 1e12, any structure scaled down to 1e-14, sigmas differing by up to 1e6 inside one matrix, perfectly correlated components.')
ASSUMPTIONS = ['helmert_exact rational evaluation (self-validated against mpmath and finite differences each shard)',
               'sign convention of the Australian technical manuals as written in the property statement: R = [[1,rz,-ry],[-rz,1,rx],[ry,-rx,1]]']
N = {'quick': 1800, 'thorough': 30000}
SHARDS = {'quick': 16, 'thorough': 32}
REQUIRED_COUNTERS = ['first_call_of_process_with_int_coordinates', 'kept_results_compared_after_later_calls', 'unjudged_calls_before_a_judged_one', 'same_label_sequences', 'shipped_sets_calls', 'random_sets_calls', 'vcv_judged', 'vcv_none_judged', 'roundtrip_judged']
VCV_KINDS = ['none', 'spd', 'rank1', 'rank2', 'zero', 'diag', 'cond1e8', 'whole', 'bigrank', 'tiny', 'range', 'tied']


def plan(tier, seed):
    return [{'n': N[tier], 'nshards': SHARDS[tier]} for _ in range(SHARDS[tier])]


AS_IMPORTED = {}


def as_imported(ns, name):
    """The 14 parameters and the reference epoch a shipped constant had when the modules were loaded (taken before the
    first library call of the shard): expectations for shipped sets are built from these, so that a constant a library call
    has quietly rewritten shows as a wrong result instead of rewriting the expectation with it."""
    import types
    if not AS_IMPORTED:
        for k, t in catalogue(ns).items():
            AS_IMPORTED[k] = types.SimpleNamespace(ref_epoch=t.ref_epoch, **{q: getattr(t, q) for q in hx.P14})
    return AS_IMPORTED[name]


def catalogue(ns):
    C = ns.constants
    return {k: v for k, v in sorted(vars(C).items()) if isinstance(v, C.Transformation)}


def rand_point(rnd, rmax=5e7):
    r = 10 ** rnd.uniform(0, math.log10(rmax)) if rnd.random() < 0.5 else rnd.uniform(6.3e6, 6.4e6)
    v = [rnd.gauss(0, 1) for _ in range(3)]
    n = math.sqrt(sum(c * c for c in v)) or 1.0
    p = [r * c / n for c in v]
    if rnd.random() < 0.1:
        p = [rnd.choice([-1, 1]) * rnd.uniform(0, rmax) for _ in range(3)]
    if rnd.random() < 0.05:
        p[rnd.randrange(3)] = 0.0
    if rnd.random() < 0.08:
        p = [int(round(c)) for c in p]          # whole metres typed as int (a rounded catalogue position)
    return p


def rand_vcv(rnd, kind):
    rs = np.random.RandomState(rnd.randrange(2 ** 31))
    if kind == 'none':
        return None
    if kind == 'spd':
        A = rs.randn(3, 3)
        V = A @ A.T * 1e-4
    elif kind == 'rank1':
        u = rs.randn(3, 1)
        V = u @ u.T * 1e-4
    elif kind == 'rank2':
        U = rs.randn(3, 2)
        V = U @ U.T * 1e-4
    elif kind == 'zero':
        V = np.zeros((3, 3))
    elif kind == 'diag':
        V = np.diag(rs.rand(3) * 1e-4)
    elif kind == 'whole':
        # whole-number entries (a caller's np.eye(3), np.diag([4, 9, 1]) ...): representable in an integer dtype
        A = rs.randint(-3, 4, (3, 3)).astype(float)
        V = rnd.choice([A @ A.T, np.eye(3), np.diag(rs.randint(0, 10, 3).astype(float))])
    elif kind == 'bigrank':
        # exactly positive semi-definite, rank-deficient and large: integer vectors, so that u u^T (and the sum of two) is
        # exact in binary floating point, times a power of ten up to 1e12 (a loosely constrained direction; a matrix in mm^2)
        U = rs.randint(-12, 13, (3, rnd.choice([1, 1, 2]))).astype(float)
        if not U.any():
            U[0, 0] = 3.0
        V = (U @ U.T) * 10.0 ** rnd.choice([0, 3, 6, 9, 12])
    elif kind == 'tiny':
        # the same structures at very small magnitude (a covariance in km^2, a sub-micrometre solution)
        V = rand_vcv(rnd, rnd.choice(['spd', 'rank1', 'rank2', 'diag', 'cond1e8'])) * 10.0 ** rnd.choice([-14, -12, -10, -9, -8, -6])
    elif kind == 'range':
        # wide range inside one matrix: V = S C S with a well-conditioned correlation-like C and sigmas that differ by up
        # to 1e6 (an unconstrained height beside mm-level horizontals, a bench mark with 20 m horizontal sigmas)
        A = rs.randn(3, 3)
        Cm = A @ A.T + 0.5 * np.eye(3)
        d = np.sqrt(np.diag(Cm))
        Cm = Cm / np.outer(d, d)
        if rnd.random() < 0.4:
            Cm = np.eye(3)
        sig = [10.0 ** rnd.uniform(-3.5, -2)] * 3
        big = 10.0 ** rnd.uniform(0.7, 3)
        for ax in rnd.sample(range(3), rnd.choice([1, 1, 2])):
            sig[ax] = big * rnd.uniform(0.5, 1.0)
        S = np.diag(sig)
        V = S @ Cm @ S
    elif kind == 'tied':
        # perfectly correlated components: singular although no row is zero (the variance is along one direction)
        s = [10.0 ** rnd.uniform(-3, -1) for _ in range(3)]
        sg = [rnd.choice([-1.0, 1.0]) for _ in range(3)]
        g = np.array([[s[i] * sg[i]] for i in range(3)])
        V = g @ g.T
        if rnd.random() < 0.5:
            ax = rnd.randrange(3)
            V[ax, :] = 0.0
            V[:, ax] = 0.0
            V[ax, ax] = 10.0 ** rnd.uniform(-6, -2)
    else:
        Q, _ = np.linalg.qr(rs.randn(3, 3))
        V = Q @ np.diag([1e-2, 1e-6, 1e-10]) @ Q.T
    return (V + V.T) / 2


def rand_set(ns, rnd, with_sd):
    C = ns.constants
    r = rnd.random()

    def rot():
        q = rnd.random()
        if q < 0.08:
            return rnd.choice([-1, 1]) * (60.0 - 10 ** rnd.uniform(-12, -1))      # sliver below one arc-minute
        if q < 0.3:
            return rnd.uniform(-60, 60)                                           # more than 9 decimals
        return round(rnd.uniform(-60, 60) * 10 ** -rnd.randint(0, 4), 7)
    kw = dict(tx=rnd.uniform(-1000, 1000), ty=rnd.uniform(-1000, 1000), tz=rnd.uniform(-1000, 1000),
              sc=rnd.uniform(-100, 100), rx=rot(), ry=rot(), rz=rot())
    if abs(kw['rx']) >= 60 or abs(kw['ry']) >= 60 or abs(kw['rz']) >= 60:
        return rand_set(ns, rnd, with_sd)
    if rnd.random() < 0.12:
        # two or three rotation components exactly equal (rounded tables often have such ties)
        a, b = rnd.sample(['rx', 'ry', 'rz'], 2)
        kw[b] = kw[a]
        if rnd.random() < 0.3:
            kw['rx'] = kw['ry'] = kw['rz'] = kw[a]
    if rnd.random() < 0.15:
        # parameters typed as whole numbers (Python int), as a user or a table might give them
        kw = {k: (int(v) if rnd.random() < 0.6 else v) for k, v in kw.items()}
    sd = None
    if with_sd:
        sd = C.TransformationSD(sd_tx=rnd.uniform(0, 0.01), sd_ty=rnd.uniform(0, 0.01), sd_tz=rnd.uniform(0, 0.01),
                                sd_sc=rnd.uniform(0, 0.001), sd_rx=rnd.uniform(0, 1e-4), sd_ry=rnd.uniform(0, 1e-4),
                                sd_rz=rnd.choice([0.0, rnd.uniform(0, 1e-4)]))
    return C.Transformation('A', 'B', 0, tf_sd=sd, **kw)


def spec_of(t):
    d = {p: getattr(t, p) for p in hx.P7}
    if t.tf_sd is not None:
        d['sd'] = hx.sd_of(t.tf_sd)
    return d


def set_from_spec(ns, spec):
    C = ns.constants
    if isinstance(spec, str):
        return getattr(C, spec)
    sd = C.TransformationSD(**spec['sd']) if 'sd' in spec else None
    return C.Transformation('A', 'B', 0, tf_sd=sd, **{p: spec[p] for p in hx.P7})


UNJUDGED = [('conform7', ('x', 1.0, 2.0, '$t')), ('conform7', (-4e6, 2.5e6, -3.6e6, None)), ('conform7', (-4e6, 2.5e6, -3.6e6, '$t', 'vcv')),
            ('conform7', (-4e6, 2.5e6, -3.6e6, '$t', [[1.0, 2.0]])), ('conform14', (-4e6, 2.5e6, -3.6e6, '2020-01-01', '$t')),
            ('conform14', (-4e6, 2.5e6, -3.6e6, 2020.5, '$t')), ('conform14', (-4e6, 2.5e6, -3.6e6, None, '$t')),
            ('conform14', (float('nan'), 'y', None, '$date', '$t')), ('add', ('$t', 5)), ('add', ('$t', 'tomorrow')), ('add', ('$t', None)),
            ('conform14', (-4e6, 2.5e6, -3.6e6, '$date', '$t', [[1.0, 2.0]]))]


def run_unjudged(ns, ctx, case, t):
    """calls the property does not speak about (rejected argument types and shapes) made before the judged one"""
    for k in case.get('before') or ():
        name, args = UNJUDGED[k % len(UNJUDGED)]
        args = [t if a == '$t' else (datetime.date(2021, 3, 4) if a == '$date' else a) for a in args]
        if name == 'add':
            core.unjudged(ctx, lambda a, b: a + b, *args)
        else:
            core.unjudged(ctx, getattr(ns.transform, name), *args)


KEEPER = {}


def judge(ns, ctx, case):
    C = ns.constants
    T = ns.transform
    t = set_from_spec(ns, case['set'])
    shipped = isinstance(case['set'], str)
    run_unjudged(ns, ctx, case, t)
    x, y, z = case['xyz']
    V = None if case.get('vcv') is None else np.array(case['vcv'], dtype=float)
    if V is not None and case.get('vrep'):
        # the same matrix delivered another way (memory order, read-only, a view, an integer dtype)
        V = core.rep_array(case['vrep'], V)
        ctx.count('covariance_delivered_as:' + case['vrep'] + ('(%s)' % V.dtype if case['vrep'] == 'int64' else ''))
    cx, cy, cz = core.rep_values(case.get('rep'), x, y, z)
    if case.get('rep'):
        ctx.count('argument_representation:' + case['rep'])
    p = hx.params_at(as_imported(ns, case['set']) if shipped else t)
    ctx.judged()
    ctx.count('shipped_sets_calls' if shipped else 'random_sets_calls')
    octant = ''.join('+' if c >= 0 else '-' for c in (x, y, z))
    rad = math.sqrt(x * x + y * y + z * z)
    ctx.bucket(case['set'] if shipped else 'random', octant, int(math.log10(rad)) if rad >= 1 else 0, case.get('vkind', 'none'))
    Vin = None if V is None else np.array(case['vcv'], dtype=float)
    keeper = KEEPER.get(id(ctx))
    if keeper is None:
        keeper = KEEPER[id(ctx)] = core.ResultKeeper(ctx, 'conform7')
    keeper.verify()
    try:
        if case.get('shape'):
            ctx.count('call_shape:' + case['shape'])
        r = core.shaped_call(T.conform7, ['x', 'y', 'z', 'trans', 'vcv'], [cx, cy, cz, t, V], case.get('shape'),
                             omit=('vcv',) if V is None else ())
        keeper.keep(r, dict(case, note='value kept from an earlier call of the sequence'))
    except Exception as e:
        mech = 'conform7:exception-with-covariance' if V is not None else 'conform7:exception'
        ctx.violation(mech, case, {'exception': repr(e)})
        return
    ex = hx.apply(x, y, z, p)
    d = math.dist(r[:3], ex)
    if not ctx.ratio('C06.point', d, 1e-6):
        ctx.violation('conform7:point-differs-from-formula', case, {'lib': list(r[:3]), 'exact': list(ex), 'dist_m': d})
    # reversibility
    try:
        back = T.conform7(r[0], r[1], r[2], -t)
        ctx.count('roundtrip_judged')
        miss = math.dist(back[:3], (x, y, z))
        exact_res = hx.apply(*hx.apply_exact(x, y, z, p), hx.negated(p))
        exact_miss = math.dist(exact_res, (x, y, z))
        if shipped:
            agd = 'agd' in case['set']
            cap = 2e-3 if agd else 1e-5
            ctx.maxi('C06.roundtrip_agd_m' if agd else 'C06.roundtrip_m', miss)
            if miss > cap:
                ctx.violation('conform7:negation-roundtrip-exceeds-cap', case, {'miss_m': miss, 'cap_m': cap, 'exact_second_order_m': exact_miss})
        if abs(miss - exact_miss) > 3e-6:
            ctx.violation('conform7:negation-roundtrip', case, {'miss_m': miss, 'exact_second_order_m': exact_miss})
    except Exception as e:
        ctx.violation('conform7:exception', case, {'exception': repr(e), 'with': 'negated set'})
    # covariance
    has_sd = type(t.tf_sd) is C.TransformationSD
    out = r[3]
    if V is None or not has_sd:
        ctx.count('vcv_none_judged')
        if out is not None:
            ctx.violation('conform7:covariance-returned-without-input-or-uncertainties', case, {'returned': core.jsonable(out)})
        return
    ctx.count('vcv_judged')
    if out is None:
        ctx.violation('conform7:no-covariance-returned', case, {})
        return
    out = np.asarray(out, dtype=float)
    if out.shape != (3, 3):
        ctx.violation('conform7:covariance-shape', case, {'shape': list(out.shape)})
        return
    if Vin is not None and not np.array_equal(Vin, V):
        ctx.violation('conform7:input-covariance-modified', case, {})
    A, B = hx.jqj(x, y, z, p, hx.sd_of(t.tf_sd), Vin)
    E = A + B
    scale = max(np.abs(E).max(), 1e-300)
    dev = np.abs(out - E).max() / scale
    if not ctx.ratio('C06.vcv', dev, 1e-12):
        ctx.violation('conform7:covariance-not-JQJt', case, {'returned': out.tolist(), 'expected': E.tolist(), 'rel_dev': float(dev)})
    asym = np.abs(out - out.T).max() / scale
    w = np.linalg.eigvalsh((out + out.T) / 2)
    if asym > 1e-13 or w.min() < -1e-12 * max(w.max(), 1e-300):
        ctx.violation('conform7:covariance-not-symmetric-psd', case, {'asymmetry_rel': float(asym), 'eigenvalues': w.tolist()})


def run_shard(spec, ctx):
    ns = core.load_repo()
    as_imported(ns, next(iter(catalogue(ns))))
    try:
        ctx.info['oracle_selfcheck'] = {k: float('%.3g' % v) for k, v in hx.self_check().items()}
    except AssertionError as e:
        raise core.Inconclusive('helmert oracle self-check failed: %r' % (e,))
    cat = catalogue(ns)
    names = list(cat)
    ctx.info['catalogue_size'] = len(names)
    rnd = random.Random('%s-%s-%s' % (ID, spec['seed'], spec['shard']))
    mine = names[spec['shard'] % spec['nshards']::spec['nshards']]
    # constants that share their direction labels and reference epoch with another constant (the five AGD66 sets, the
    # ITRF2020->ITRF2014 pair ...) are visited together, interleaved, in every shard that owns one of them: a cache keyed
    # on the labels would hand the second one the first one's parameters
    groups = {}
    for k, v in cat.items():
        groups.setdefault((str(v.from_datum), str(v.to_datum), str(v.ref_epoch)), []).append(k)
    extra = []
    for k in list(mine):
        t = cat[k]
        for other in groups[(str(t.from_datum), str(t.to_datum), str(t.ref_epoch))]:
            if other not in mine and other not in extra:
                extra.append(other)
    mine = mine + extra
    ctx.info['same_label_groups'] = [g for g in groups.values() if len(g) > 1][:8]
    order = []
    per = max(4, spec['n'] // (2 * max(1, len(mine))))
    n = 0
    rnd.shuffle(mine)
    for name in mine:
        t = cat[name]
        has_sd = type(t.tf_sd) is ns.constants.TransformationSD and t.tf_sd.sd_tx is not None
        for i in range(per):
            kind = VCV_KINDS[i % len(VCV_KINDS)] if has_sd or i % 3 == 0 else 'none'
            V = rand_vcv(rnd, kind)
            case = {'set': name, 'xyz': rand_point(rnd), 'vcv': None if V is None else V.tolist(), 'vkind': kind}
            deliver_choice(rnd, case)
            if n == 0 and spec['shard'] % 2 == 1:
                # the very first call of this process is made with whole-metre coordinates typed as int
                case['xyz'] = [int(round(c)) for c in case['xyz']]
                ctx.count('first_call_of_process_with_int_coordinates')
            if n < 2:
                ctx.sample({k: v for k, v in case.items()})
            n += 1
            if rnd.random() < 0.03:
                case['before'] = [rnd.randrange(1000) for _ in range(rnd.choice([1, 2]))]
            judge(ns, ctx, case)
            # interleave: the same point through another constant with the same labels
            t0 = cat[name]
            sibs = [o for o in groups[(str(t0.from_datum), str(t0.to_datum), str(t0.ref_epoch))] if o != name]
            if sibs:
                c2 = dict(case)
                c2['set'] = rnd.choice(sibs)
                if type(cat[c2['set']].tf_sd) is not ns.constants.TransformationSD:
                    c2['vcv'], c2['vkind'] = None, 'none'
                judge(ns, ctx, c2)
                ctx.count('same_label_sequences')
    for i in range(spec['n'] // 2):
        with_sd = rnd.random() < 0.6
        t = rand_set(ns, rnd, with_sd)
        kind = rnd.choice(VCV_KINDS)
        V = rand_vcv(rnd, kind)
        case = {'set': spec_of(t), 'xyz': rand_point(rnd), 'vcv': None if V is None else V.tolist(), 'vkind': kind}
        deliver_choice(rnd, case)
        if rnd.random() < 0.03:
            case['before'] = [rnd.randrange(1000) for _ in range(rnd.choice([1, 2]))]
        judge(ns, ctx, case)


def deliver_choice(rnd, case):
    """How the same call is delivered: the covariance in another memory layout / read-only / as a view / in an integer
    dtype (whole-number matrices), coordinates as numpy scalars or a float subclass, arguments by keyword."""
    if case.get('vcv') is not None:
        vrep = 'int64' if (case.get('vkind') == 'whole' and rnd.random() < 0.7) else core.choose_array_rep(rnd, 0.2)
        if vrep:
            case['vrep'] = vrep
    rep = core.choose_rep(rnd)
    if rep:
        case['rep'] = rep
        if core.rep_wants_integers(rep):
            case['xyz'] = [float(round(c)) for c in case['xyz']]
    shape = core.choose_shape(rnd, 0.08)
    if shape:
        case['shape'] = shape


def replay(case, ctx):
    ns = core.load_repo()
    judge(ns, ctx, case)
