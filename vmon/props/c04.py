"""C04 Direct geodesic solution follows the exact ellipsoidal geodesic."""
import random

from .. import core, geowork

ID = 'C04'
TITLE = 'direct geodesic (vincdir)'
LEVEL = 'exploration'
RULE = ('start points lat -90..90 (poles, equator), azimuths 0..360 incl. cardinals and +-1e-9 around them, distances '
        'log-uniform 1 mm..2e7 m, uniform, 0 and 2e7 exactly; equatorial, meridional, polar-start and pole-crossing families; '
        'GRS80/WGS84/ANS/Intl24/random ellipsoids (1/f 280..320); float and five angle classes.  vincdir judged against '
        'geod_exact.direct: end point within 1 mm (chord), reverse azimuth within 1e-8 deg when the end point is > 1 deg from a '
        'pole; angle-class calls compared with the float call.  4 % of the cases are preceded by one or two calls the property does not speak about (nearly antipodal or antipodal pairs, latitudes beyond the poles, NaN, a string; distances beyond half the circumference): not judged, exceptions swallowed, but the judged call after them must be as right as ever.  distinct = ellipsoid x family x |lat| band x azimuth quadrant x '
        'distance decade x argument type Lines of a nanometre to a millimetre at middle and high latitude are a class of their own.')
ASSUMPTIONS = ['geod_exact (vmon/oracles/geod.py), re-validated each shard against Karney GeodTest line 1, the GDA technical '
               'manual line, an ODE integration of the geodesic equations and mpmath']
N = {'quick': 1500, 'thorough': 25000}
SHARDS = {'quick': 16, 'thorough': 32}
REQUIRED_COUNTERS = ['unjudged_calls_before_a_judged_one', 'alias_sequences', 'reverse_azimuth_judged', 'angle_class_args']


def plan(tier, seed):
    return [{'n': N[tier]} for _ in range(SHARDS[tier])]


def run_shard(spec, ctx):
    ns = core.load_repo()
    geowork.geod_selfcheck(ctx)
    reach = core.LineReach()
    reach.watch(ns.geodesy.vincdir)
    reach.start()
    rnd = random.Random('%s-%s-%s' % (ID, spec['seed'], spec['shard']))
    try:
        for i in range(spec['n']):
            case = geowork.gen_direct_case(rnd)
            if rnd.random() < 0.04:
                case['before'] = geowork.gen_unjudged_calls(rnd, rnd.choice(['vincdir', 'vincdir', 'vincinv', 'vincdir']))
            if i < 2:
                ctx.sample(case)
            geowork.judge_direct(ns, ctx, case)
            if rnd.random() < 0.3:
                # the same line on another ellipsoid / with another argument type (aliasing sequence)
                c2 = dict(case)
                if rnd.random() < 0.8:
                    c2['ell'] = geowork.alias_ell(rnd, case['ell'])
                else:
                    c2['argt'] = rnd.choice(['float', 'DMSAngle', 'HPAngle'])
                geowork.judge_direct(ns, ctx, c2)
                ctx.count('alias_sequences')
    finally:
        reach.stop()
    ctx.info['lines_reached'] = reach.summary()


def replay(case, ctx):
    ns = core.load_repo()
    geowork.judge_direct(ns, ctx, case)
