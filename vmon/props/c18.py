"""C18 Editing a SINEX solution keeps exactly the remaining parameters and covariance."""
import itertools
import os
import random
import re
import sys
import tempfile

from .. import core
from ..oracles import sinex as sx

ID = 'C18'
TITLE = 'SINEX editing (remove stations / velocities / zero lines) and readers'
LEVEL = 'fault_enumeration'
TECHNIQUE = ('runtime monitoring: every output.snx written by the three editing functions, under a substituted clock, is '
             're-read by an independent SINEX parser and judged clause by clause against a sub-matrix model of the generated '
             'input; the three readers are judged against the model the file was written from')
RULE = ('sinex_synth writes SINEX 2.02 solutions from a model (1..12 stations, 1..3 solutions per station, with/without '
        'velocities, L and U triangle, dense positive-definite covariance, lower/upper-case exponents, agency codes with and '
        'without the letter V, three FILE/COMMENT styles).  remove_stns_sinex is called for EVERY proper subset of the stations '
        '(none ... all-but-one) of every file with <= 6 stations and for random subsets above; remove_velocity_sinex for every '
        'velocity file; remove_matrixzeros_sinex for every file plus files whose covariance is that of uncorrelated '
        'sub-networks or has isolated exact zeros (all-zero, partly-zero and zero-free lines of 1, 2 and 3 values).  Each '
        'call runs in its own working directory with geodepy.gnss.datetime replaced by a subclass whose now() is an input of '
        'the run.  The clock dimension is an ENUMERATED configuration space (fault enumeration): 9 times of day {00:00:00, '
        '00:00:07, 00:01:39, 00:16:39, 00:16:40, 02:46:39, 02:46:40, 12:00:00, 23:59:59} x microseconds {0, 600000} x 6 dates '
        '{1 Jan 2019, 31 Dec 2019 (day 365), 31 Dec 2024 (day 366), 29 Feb 2024, 4 Jul 2019 (day 185), 1 Jan 2000} = 108 '
        'configurations; every edit is executed under two of them, all 108 must be hit (otherwise INCONCLUSIVE) and the two '
        'outputs must agree outside the creation-time stamp.  non-trivial = a generated well-formed file with >= 1 remaining '
        'station; distinct = (function, stations, velocities, layout, exponent case, removal-size class, seconds-digit class '
        'of the clock) buckets Removal lists also name a station more than once or name an absent station; a share of the files carries its covariance scaled by 1e-9..1e-18 or 1e6.')
ASSUMPTIONS = ['pandas is absent: an empty stub module satisfies the unused top-level import of geodepy/gnss.py (core.load_repo)',
               'sinex_synth writer/parser follow the SINEX 2.02 column tables and are self-validated each shard (hand-typed '
               'reference lines, writer->parser round trip, sub-matrix model against numpy.delete)',
               'input files consist of the header, FILE/COMMENT, SITE/ID, SOLUTION/EPOCHS, SOLUTION/ESTIMATE and '
               'SOLUTION/MATRIX_ESTIMATE; other optional blocks are outside the statement and not generated',
               'header data start/end fields and the value of the creation time are not judged (only its YY:DDD:SSSSS form)',
               '"removing a set of stations" is read to include their SITE/ID and SOLUTION/EPOCHS lines: both blocks of the '
               'output must list exactly the remaining stations, lines unchanged',
               'read_sinex_matrix order: documented order for U; for L the lower-triangle order the docstring describes',
               'remove_matrixzeros_sinex must drop all-zero lines spelled 0.00000000000000e+00 (its documented form); all-zero '
               'lines in another spelling (E exponent) may stay or go, they are only counted',
               'matrix values are 15-significant-digit numerals (E21.14), compared as exact decimals']
REQUIRED_COUNTERS = ['calls_with_the_callers_own_list', 'clock_equal_to_parameter_count_edits', 'clock_reads', 'stns_edits_L', 'stns_edits_U', 'stns_edits_vel', 'stns_edits_novel', 'velocity_edits',
                     'zeros_edits', 'zero_lines_in_input', 'wellformed_judged', 'header_layout_judged',
                     'estimates_judged', 'matrix_judged', 'matrix_values_compared', 'clock_pairs_judged',
                     'read_estimate_judged', 'read_matrix_judged', 'read_sites_judged', 'agency_with_V_velocity_edits',
                     'exhaustive_subset_files']
SHARDS = {'quick': 16, 'thorough': 48}
SHARD_TIMEOUT = {'quick': 1800, 'thorough': 4 * 3600}

TIMES = [(0, 0, 0), (0, 0, 7), (0, 1, 39), (0, 16, 39), (0, 16, 40), (2, 46, 39), (2, 46, 40), (12, 0, 0), (23, 59, 59)]
MICROS = [0, 600000]
DATES = [(2019, 1, 1), (2019, 12, 31), (2024, 12, 31), (2024, 2, 29), (2019, 7, 4), (2000, 1, 1)]
CLOCKS = [[y, mo, d, h, mi, s, us] for (h, mi, s) in TIMES for us in MICROS for (y, mo, d) in DATES]
NC = len(CLOCKS)
EDIT_FN = {'stns': 'remove_stns_sinex', 'velocity': 'remove_velocity_sinex', 'zeros': 'remove_matrixzeros_sinex'}
COPIED_BLOCKS = ('FILE/COMMENT', 'SITE/ID', 'SOLUTION/EPOCHS', 'SOLUTION/ESTIMATE', 'SOLUTION/MATRIX_ESTIMATE')
CREATED_BY = '* File created by Geodepy'
TIME_TOKEN = re.compile(r'\d\d:\d\d\d:\d+')


def clock_label(c):
    return '%04d-%02d-%02dT%02d:%02d:%02d.%d' % (c[0], c[1], c[2], c[3], c[4], c[5], c[6] // 100000)


def seconds_class(c):
    s = c[3] * 3600 + c[4] * 60 + c[5] + c[6] / 1e6
    r = int(s + 0.5)
    return 'sec>=86400-rounded' if r >= 86400 else 'sec-%d-digits' % len(str(int(s)))


# ------------------------------------------------------------------------------------------------------------
# plan
# ------------------------------------------------------------------------------------------------------------
def _gen(seed, k, nst, nsol, vel, tri, expo, zero='dense'):
    ag = sx.AGENCIES[(k + seed) % len(sx.AGENCIES)]
    dag = sx.AGENCIES[(3 * k + 1 + seed) % len(sx.AGENCIES)]
    return {'fseed': '%s-%s-%s' % (ID, seed, 'f%d' % k), 'nst': nst, 'nsol': nsol, 'vel': bool(vel), 'tri': tri, 'expo': expo,
            'agency': ag, 'dagency': dag, 'cstyle': ['star', 'blank', 'none'][(k + seed) % 3], 'zero': zero,
            'order': 'by-solution' if (nsol > 1 and nst > 1 and (k + seed) % 3 == 1) else 'grouped',
            'lay': ['std', 'std', 'std', 'nohdr', 'extra', 'std', 'mid', 'blocks'][(k + 2 * seed) % 8],
            'eol': 'crlf' if (k + seed) % 11 == 5 else 'lf'}


def _nsubsets(f):
    n = f['gen']['nst']
    return (2 ** n - 1) if f['subsets'] == 'all' else (2 if f['subsets'] == 'none-and-first' else int(f['subsets']))


def _nedits(f):
    return _nsubsets(f) + (1 if f['velocity'] else 0) + (1 if f['zeros'] else 0)


def plan(tier, seed):
    files = []
    combos = [(v, t) for v in (False, True) for t in ('L', 'U')]

    def add(nst, nsol, vel, tri, expo, subsets, zero='dense', velocity=None, zeros=True):
        k = len(files)
        files.append({'gen': _gen(seed, k, nst, nsol, vel, tri, expo, zero), 'subsets': subsets,
                      'velocity': bool(vel) if velocity is None else velocity, 'zeros': zeros, 'readers': True})

    if tier == 'quick':
        for ci, (vel, tri) in enumerate(combos):
            for nst in range(1, 6):
                add(nst, 1 + (nst + ci + seed) % 3, vel, tri, 'eE'[(nst + ci + seed) % 2], 'all')
        six = [(True, 'L'), (False, 'U')] if seed % 2 == 0 else [(False, 'L'), (True, 'U')]
        for vel, tri in six:
            add(6, 2, vel, tri, 'e', 'all')
        for ci, (vel, tri) in enumerate(combos):
            for nst in range(7, 13):
                add(nst, 1 + (nst + ci) % 3, vel, tri, 'eE'[(nst + seed) % 2], 2)
        for i in range(16):      # velocity removal, agencies cycle through codes with and without V
            add(1 + (5 * i + seed) % 12, 1 + i % 3, True, 'LU'[i % 2], 'eE'[(i // 2) % 2], 0)
        for i in range(24):      # sub-network covariances: exact zeros for the zero-line removal
            add(2 + (i + seed) % 9, 1 + i % 3, i % 3 == 0, 'LU'[i % 2], 'e' if i % 4 else 'E', 1,
                zero='groups' if (i // 2) % 2 == 0 else 'sparse')
        for i in range(12):      # the same kind of solution with its all-zero records left out, after larger dense ones
            add(2 + (i + seed) % 6, 1 + i % 2, True, 'LU'[i % 2], 'e', 1, zero='groups', velocity=True)
            files[-1]['gen']['omit_zero_lines'] = True
        for L in range(1, 82):   # record-boundary alignment sweep: every offset of the matrix records modulo their length,
            for tri_ in 'LU':    # for both triangles (their short records fall in different places)
                add(12, 1, True, tri_, 'e', 'none-and-first', velocity=(L % 9 == 0), zeros=False)
                files[-1]['gen'].update({'cpad': L, 'lay': 'std', 'eol': 'lf', 'cstyle': 'star'})     # one layout for the whole sweep
                files[-1]['readers'] = (L % 9 == 0)
    else:
        k = 0
        for rep in range(3):
            for vel, tri in combos:
                for nsol in (1, 2, 3):
                    for expo in 'eE':
                        for nst in range(1, 7):
                            add(nst, nsol, vel, tri, expo, 'all')
        for vel, tri in combos:
            for nsol in (1, 2, 3):
                for expo in 'eE':
                    for nst in range(7, 13):
                        add(nst, nsol, vel, tri, expo, 20)
        for i in range(240):
            add(1 + (5 * i + seed) % 12, 1 + i % 3, True, 'LU'[i % 2], 'eE'[(i // 2) % 2], 0)
        for i in range(360):
            add(2 + (i + seed) % 10, 1 + i % 3, i % 3 == 0, 'LU'[i % 2], 'e' if i % 4 else 'E', 2,
                zero='groups' if (i // 2) % 2 == 0 else 'sparse')
            if i % 3 == 1:
                files[-1]['gen']['omit_zero_lines'] = True
        for nst_, nsol_ in ((12, 1), (12, 2), (11, 2)):
            for L in range(1, 82):
                add(nst_, nsol_, True, 'LU'[L % 2], 'e', 'none-and-first', velocity=(L % 5 == 0), zeros=(L % 7 == 0))
                files[-1]['gen'].update({'cpad': L, 'lay': 'std', 'eol': 'lf', 'cstyle': 'star'})
    # magnitude: a share of the files of every group carries its covariance at another power of ten
    QS = [None, None, None, 1e-9, None, 1e-12, None, None, 1e-15, None, 1e6, None, 1e-18]
    for k, f in enumerate(files):
        q = QS[(k + seed) % len(QS)]
        if q and 'cpad' not in f['gen']:
            f['gen']['qscale'] = q
    # clock offsets: consecutive edits walk through the enumerated clock configurations
    off = seed * 13
    for f in files:
        f['clock0'] = off
        off += _nedits(f)
    # shards balanced by estimated cost (parameters^2 x calls)
    n = SHARDS[tier]

    def cost(f):
        g = f['gen']
        npar = g['nst'] * (1 + g['nsol']) / 2.0 * (6 if g['vel'] else 3)
        return (npar ** 2 + 400.0) * (_nedits(f) * 2 + 3)
    loads = [0.0] * n
    specs = [{'files': []} for _ in range(n)]
    for f in sorted(files, key=cost, reverse=True):
        i = loads.index(min(loads))
        loads[i] += cost(f)
        specs[i]['files'].append(f)
    return specs


# ------------------------------------------------------------------------------------------------------------
# running the library under the substituted clock
# ------------------------------------------------------------------------------------------------------------
class Harness:
    def __init__(self, ctx, tmp=None):
        self.ctx = ctx
        self.ns = core.load_repo(need_gnss=True)
        self.G = self.ns.gnss
        import datetime as _dt
        ctx_ = ctx

        class VerifClock(_dt.datetime):
            """geodepy.gnss.datetime stand-in: the current time is an input of the run, whichever way it is asked for."""
            _now = None

            @classmethod
            def _read(cls):
                ctx_.count('clock_reads')
                if cls._now is None:
                    raise core.Inconclusive('substituted clock read before it was set')
                return cls._now

            @classmethod
            def now(cls, tz=None):
                return cls._read()

            @classmethod
            def utcnow(cls):
                return cls._read()

            @classmethod
            def today(cls):
                return cls._read()

        class ModuleProxy:
            """stand-in for a module object bound in geodepy.gnss (`import datetime` / `import time`): the clock functions
            answer from the substituted clock, everything else is the real module's"""

            def __init__(self, real, overrides):
                self.__dict__['_real'] = real
                self.__dict__['_over'] = overrides

            def __getattr__(self, name):
                if name in self._over:
                    return self._over[name]
                return getattr(self._real, name)

        import time as _time
        import types as _types

        def _stamp():
            return VerifClock._read()

        def _secs(t=None):
            return _time.mktime(_stamp().timetuple()) + _stamp().microsecond / 1e6

        time_over = {'time': lambda: _secs(), 'time_ns': lambda: int(_secs() * 1e9),
                     'localtime': lambda secs=None: _stamp().timetuple() if secs is None else _time.localtime(secs),
                     'gmtime': lambda secs=None: _stamp().timetuple() if secs is None else _time.gmtime(secs),
                     'strftime': lambda fmt, t=None: _time.strftime(fmt, _stamp().timetuple() if t is None else t)}
        self.substituted = []
        self.saved_names = {}
        for name, val in list(vars(self.G).items()):
            if isinstance(val, type) and issubclass(val, _dt.datetime):
                self.saved_names[name] = val
                setattr(self.G, name, VerifClock)
                self.substituted.append(name + ' (datetime class)')
            elif isinstance(val, _types.ModuleType) and val is _dt:
                self.saved_names[name] = val
                setattr(self.G, name, ModuleProxy(val, {'datetime': VerifClock}))
                self.substituted.append(name + ' (datetime module)')
            elif isinstance(val, _types.ModuleType) and val is _time:
                self.saved_names[name] = val
                setattr(self.G, name, ModuleProxy(val, time_over))
                self.substituted.append(name + ' (time module)')
            elif name in time_over and val is getattr(_time, name, None):
                self.saved_names[name] = val
                setattr(self.G, name, time_over[name])
                self.substituted.append(name + ' (time function)')
        if not self.substituted:
            raise core.Inconclusive('geodepy.gnss binds no clock (datetime class/module, time module/function) to substitute')
        ctx.info['clock_substituted_for'] = self.substituted
        self.real_datetime = self.saved_names.get('datetime')
        self.Clock = VerifClock
        self.pandas_stub = bool(getattr(sys.modules.get('pandas'), '__verif_stub__', False))

    def restore_clock(self):
        for name, val in self.saved_names.items():
            setattr(self.G, name, val)

    def set_clock(self, c):
        self.Clock._now = self.Clock(*c)

    def edit(self, op, inpath, removed, clock, removal_list=None):
        """One library call in its own working directory.  -> (text | None, exception repr | None)
        removal_list: the caller's own list object to pass (a batch passes one exclusion list to many calls)."""
        fn = getattr(self.G, EDIT_FN[op])
        text, exc = None, None
        old = os.getcwd()
        with tempfile.TemporaryDirectory(prefix='c18-') as wd:
            os.chdir(wd)
            try:
                self.set_clock(clock)
                try:
                    if op == 'stns':
                        fn(inpath, list(removed) if removal_list is None else removal_list)
                    else:
                        fn(inpath)
                except core.Inconclusive:
                    raise
                except (Exception, SystemExit) as e:       # remove_velocity_sinex calls exit() on some headers
                    exc = '%s: %s' % (type(e).__name__, str(e)[:200])
                if exc is None:
                    out = os.path.join(wd, 'output.snx')
                    if os.path.exists(out):
                        with open(out, newline='') as f:
                            text = f.read()
                    else:
                        exc = 'NoOutput: output.snx was not written in the working directory'
            finally:
                os.chdir(old)
        return text, exc


def exc_type(exc):
    return exc.split(':', 1)[0]


# ------------------------------------------------------------------------------------------------------------
# judges
# ------------------------------------------------------------------------------------------------------------
class Verdicts:
    """Collects the violations of ONE output so that each mechanism is reported once per output."""

    def __init__(self, ctx, case, prefix):
        self.ctx, self.case, self.prefix = ctx, case, prefix
        self.seen = set()

    def __call__(self, key, detail):
        mech = '%s:%s' % (self.prefix, key)
        if mech in self.seen:
            return
        self.seen.add(mech)
        self.ctx.violation(mech, self.case, detail)


def same_numeral(a, b):
    a, b = a.strip(), b.strip()
    if a == b or a.lower() == b.lower():
        return True
    da, db = sx.dec(a), sx.dec(b)
    return da is not None and da == db


def want_header(m):
    return {'version': m['version'], 'agency': m['agency'], 'data_agency': m['dagency'], 'obs_code': m['obs'],
            'constraint': m['constraint']}


def judge_structure(ctx, V, p):
    ctx.count('wellformed_judged')
    for key, det in p.problems:
        V('wellformed:' + key, {'observed': det, 'expected': 'every block closed on its own line, %ENDSNX on its own line'})
    return not p.problems


def judge_header(ctx, V, m, p, n, content):
    if p.header is None:
        return
    ctx.count('header_layout_judged')
    name, det = sx.header_layout(p.header, want_header(m))
    if name is not None:
        V('header:fixed-width:' + name, {'observed_header': p.header, 'first_field_off_its_columns': name,
                                         'input_header': sx.header_line(m)})
        return
    f = sx.header_fields(p.header)
    ctx.count('header_count_judged')
    if int(f['count']) != n:
        V('header:count', {'observed': f['count'], 'expected': '%05d' % n, 'header': p.header})
    ctx.count('header_content_judged')
    if f['content'].split() != content:
        V('header:content-codes', {'observed': f['content'], 'expected': ' '.join(content), 'header': p.header})


def est_tuple(e, soln=None):
    return (e['type'], e['code'], e['pt'], int(soln if soln is not None else e['soln']), e['epoch'], e['unit'], e['cons'])


def judge_estimates(ctx, V, m, p, keep):
    blk = p.blocks.get('SOLUTION/ESTIMATE')
    ctx.count('estimates_judged')
    if blk is None:
        V('estimates:block-missing', {'blocks': p.order})
        return
    got = [sx.parse_estimate_line(x) for x in blk['data']]
    exp = [m['est'][i] for i in keep]
    if len(got) != len(exp):
        V('estimates:count', {'observed': len(got), 'expected': len(exp)})
    idx = []
    for g in got:
        try:
            idx.append(int(g['index']))
        except ValueError:
            idx.append(g['index'])
    if idx != list(range(1, len(got) + 1)):
        bad = next((k for k, v in enumerate(idx) if v != k + 1), 0)
        V('estimates:numbering', {'observed_indices': idx[:12], 'first_wrong_position': bad + 1,
                                  'expected': 'consecutive 1..n in columns 1:6'})
    for k, (g, e) in enumerate(zip(got, exp)):
        try:
            gt = (g['type'], g['code'], g['pt'], int(g['soln']), g['epoch'], g['unit'], g['cons'])
        except ValueError:
            gt = None
        if gt != est_tuple(e) or not same_numeral(g['val'], e['val']) or not same_numeral(g['sd'], e['sd']):
            V('estimates:content', {'position': k + 1, 'observed': g, 'expected': {kk: e[kk] for kk in e}})
            break
    ctx.count('estimate_lines_compared', min(len(got), len(exp)))


def judge_matrix(ctx, V, m, p, keep):
    blk = p.blocks.get('SOLUTION/MATRIX_ESTIMATE')
    ctx.count('matrix_judged')
    if blk is None:
        V('matrix:block-missing', {'blocks': p.order})
        return
    tri, kind, el, prob = sx.parse_matrix(blk)
    if tri != m['tri'] or kind != 'COVA':
        V('matrix:layout-flag', {'observed': blk['open'], 'expected': '+SOLUTION/MATRIX_ESTIMATE %s COVA' % m['tri']})
    for key, det in prob[:1]:
        V('matrix:lines:' + key, {'observed': det})
    exp = sx.expected_triangle(m, keep)
    if set(el) != set(exp):
        extra = sorted(set(el) - set(exp))[:5]
        missing = sorted(set(exp) - set(el))[:5]
        V('matrix:index-set', {'layout': m['tri'], 'n': len(keep), 'elements_observed': len(el), 'elements_expected': len(exp),
                               'unexpected': extra, 'missing': missing})
        return
    bad = [k for k in exp if not same_numeral(el[k], exp[k])]
    ctx.count('matrix_values_compared', len(exp))
    if bad:
        k = min(bad)
        V('matrix:values', {'layout': m['tri'], 'wrong_elements': len(bad), 'first': list(k), 'observed': el[k].strip(),
                            'expected': exp[k].strip(), 'original_row_col': [keep[k[0] - 1] + 1, keep[k[1] - 1] + 1]})


def judge_id_blocks(ctx, V, m, p, removed):
    """SITE/ID and SOLUTION/EPOCHS list exactly the remaining stations, lines unchanged."""
    ctx.count('id_blocks_judged')
    rm = set(removed)
    want_sites = [sx.site_line(s) for s in m['sites'] if s['code'] not in rm]
    want_ep = [sx.epoch_line(m, c, s) for c, s in m['stasol'] if c not in rm]
    for name, want, key in (('SITE/ID', want_sites, 'site-id'), ('SOLUTION/EPOCHS', want_ep, 'epochs')):
        blk = p.blocks.get(name)
        got = None if blk is None else [x.rstrip() for x in blk['data']]
        if got != want:
            V('%s-block' % key, {'observed': (got or [])[:4], 'expected': want[:4], 'observed_lines': len(got or []),
                                 'expected_lines': len(want)})


def judge_zero_lines(ctx, V, m, in_lines, p):
    """Every line of the input other than all-zero matrix lines is present, unchanged, on its own line, in order."""
    exp = []
    cur = None
    for ln in in_lines[1:]:
        if ln.startswith('+'):
            cur = ln[1:].split()[0]
        kind = 'req'
        if cur == 'SOLUTION/MATRIX_ESTIMATE' and sx.is_matrix_data_line(ln):
            z = sx.zero_line_kind(ln)
            if z:
                kind = 'zero-' + z
        exp.append((ln, cur or 'top-level', kind))
        if ln.startswith('-'):
            cur = None
    # known finding (known_findings.txt): the editing functions re-assemble the file from the five blocks they know
    # (FILE/COMMENT, SITE/ID, SOLUTION/EPOCHS, SOLUTION/ESTIMATE, SOLUTION/MATRIX_ESTIMATE); every other block of the input is
    # dropped.  Classifier: ALL lines of such a block are absent from the output; a block that comes through in part is judged
    # line by line like every other line.
    out_set = set(p.lines[1:])
    other = {}
    for ln, blk, kind in exp:
        if blk not in COPIED_BLOCKS and blk != 'top-level':
            other.setdefault(blk, []).append(ln)
    dropped = sorted(b for b, ls in other.items() if not any(x in out_set for x in ls))
    if dropped:
        ctx.count('zeros_other_blocks_dropped', len(dropped))
        V('other-blocks-dropped', {'blocks_of_the_input_missing_from_the_output': dropped,
                                   'lines_missing': sum(len(other[b]) for b in dropped)})
        exp = [e for e in exp if e[1] not in dropped]
    j = 0
    compared = 0
    stopped = False
    for ol in p.lines[1:]:
        while j < len(exp) and exp[j][2] != 'req' and exp[j][0] != ol:
            ctx.count('zero_lines_removed' if exp[j][2] == 'zero-canonical' else 'zero_lines_other_spelling_removed')
            j += 1
        if j < len(exp) and exp[j][0] == ol:
            if exp[j][2] == 'zero-canonical':
                V('zero-line-kept', {'line': ol})
            elif exp[j][2] == 'zero-other':
                ctx.count('zero_lines_other_spelling_kept')
            compared += 1
            j += 1
            continue
        if ol.startswith('*'):
            ctx.count('zeros_added_comment_lines')
            continue
        want = exp[j] if j < len(exp) else None
        if want is None:
            V('extra-line', {'observed': ol[:160]})
        elif ol.startswith(want[0]) and len(ol) > len(want[0]):
            V('lines-joined:' + want[1], {'observed_line_start': ol[:200], 'observed_line_length': len(ol),
                                          'expected_own_line': want[0]})
        elif any(x[0] == ol for x in exp[j + 1:j + 400]):
            V('line-missing:' + want[1], {'expected': want[0][:160], 'next_output_line': ol[:160]})
        else:
            V('line-changed:' + want[1], {'observed': ol[:160], 'expected': want[0][:160]})
        stopped = True
        break
    if not stopped:
        while j < len(exp) and exp[j][2] != 'req':
            ctx.count('zero_lines_removed' if exp[j][2] == 'zero-canonical' else 'zero_lines_other_spelling_removed')
            j += 1
        if j < len(exp):
            V('line-missing:' + exp[j][1], {'expected': exp[j][0][:160], 'lines_missing': len(exp) - j})
    ctx.count('zeros_lines_compared', compared)


def normalise(text):
    """The output with everything that is allowed to depend on the clock masked."""
    lines = text.split('\n')
    out = []
    for k, ln in enumerate(lines):
        if k == 0:
            # the first time-like token is the creation time; masked character by character, so that a stamp whose
            # WIDTH depends on the clock (and moves every later field) still shows as a difference
            ln = TIME_TOKEN.sub(lambda mt: 'T' * len(mt.group(0)), ln, count=1)
        if ln.startswith(CREATED_BY):
            ln = CREATED_BY
        out.append(ln)
    return out


def judge_output(ctx, m, in_lines, op, removed, clock, text, case):
    V = Verdicts(ctx, case, EDIT_FN[op])
    p = sx.parse(text)
    judge_structure(ctx, V, p)
    if op == 'zeros':
        judge_header(ctx, V, m, p, m['npar'], ['S', 'V'] if m['vel'] else ['S'])
        judge_zero_lines(ctx, V, m, in_lines, p)
    else:
        keep = sx.keep_indices(m, removed, drop_velocity=(op == 'velocity'))
        content = ['S', 'V'] if (m['vel'] and op == 'stns') else ['S']
        judge_header(ctx, V, m, p, len(keep), content)
        judge_estimates(ctx, V, m, p, keep)
        judge_matrix(ctx, V, m, p, keep)
        judge_id_blocks(ctx, V, m, p, removed)
    # informational: does the creation time show the substituted clock?
    if p.header is not None and len(p.header) >= 27:
        s = clock[3] * 3600 + clock[4] * 60 + clock[5]
        import datetime as _dt
        doy = _dt.date(clock[0], clock[1], clock[2]).timetuple().tm_yday
        ok = p.header[15:27] == '%02d:%03d:%05d' % (clock[0] % 100, doy, s)
        ctx.count('creation_time_equals_clock' if ok else 'creation_time_differs_from_clock(not judged)')
    return len(V.seen)


def run_edit(h, ctx, m, in_lines, inpath, op, removed, clocks, sample=False):
    """One edit (function, file, removal set) under each of the given clock configurations."""
    case = {'gen': m['gen'], 'op': op, 'remove': list(removed), 'clocks': [list(c) for c in clocks]}
    g = m['gen']
    outs = []
    # one exclusion list object for the whole batch of calls, as a caller processing several files would hold it; in a share
    # of the edits the stations are handed over in another container (the function only asks `site in sites`)
    kind = 'list'
    if op == 'stns':
        kind = ['list', 'list', 'list', 'tuple', 'set', 'frozenset', 'dict-keys'][int(core.stable_hash([g['fseed'], list(removed)]), 16) % 7]
    given = list(removed)
    hh = int(core.stable_hash(['given', g['fseed'], list(removed)]), 16)
    if op == 'stns' and kind in ('list', 'tuple') and removed and hh % 4 == 0:
        # a station named more than once (two exclusion lists concatenated): the set of stations removed is the same
        given = given + [given[(hh // 4) % len(given)]] * (1 + (hh // 64) % 2)
        if (hh // 128) % 2:
            given = given[::-1]
        ctx.count('removal_lists_naming_a_station_more_than_once')
    if op == 'stns' and hh % 9 == 1:
        # ... or naming a station the file does not hold
        given.insert((hh // 16) % (len(given) + 1), 'ZZ9Q')
        ctx.count('removal_lists_naming_an_absent_station')
    case['given'] = list(given)
    shared = {'list': list, 'tuple': tuple, 'set': set, 'frozenset': frozenset,
              'dict-keys': lambda r: dict.fromkeys(r).keys()}[kind](given)
    shared_before = sorted(shared)
    case['container'] = kind
    if op == 'stns':
        ctx.count('stations_handed_over_as:' + kind)
    todo = list(clocks)
    extra = False
    while todo:
        c = todo.pop(0)
        text, exc = h.edit(op, inpath, removed, c, removal_list=shared)
        if op == 'stns':
            ctx.count('calls_with_the_callers_own_list')
            if sorted(shared) != shared_before and not todo and not extra:
                # the call rewrote the caller's list: what the property promises is judged on the next call of the batch
                ctx.count('removal_list_rewritten_by_call')
                todo.append(c)
                extra = True
        ctx.judged()
        ctx.count('edits_executed')
        lab = clock_label(c)
        cc = ctx.info.setdefault('clock_configurations_hit', {})
        cc[lab] = cc.get(lab, 0) + 1
        rm_class = 'none' if not removed else ('all-but-one' if len(removed) == g['nst'] - 1 else 'some')
        ctx.bucket(op, 'n%d' % g['nst'], 'vel' if g['vel'] else 'novel', g['tri'], g['expo'], rm_class, seconds_class(c))
        if exc is not None:
            ctx.violation('%s:exception:%s' % (EDIT_FN[op], exc_type(exc)), case,
                          {'exception': exc, 'clock': lab, 'input_header': in_lines[0]})
            outs.append(('exception', exc_type(exc)))
            continue
        judge_output(ctx, m, in_lines, op, removed, c, text, case)
        outs.append(('text', normalise(text)))
    if len(outs) >= 2:
        if all(o[0] == 'exception' for o in outs):
            ctx.count('clock_pairs_not_judged_all_raised')
        else:
            ctx.count('clock_pairs_judged')
            ref = outs[0]
            for c, o in zip(clocks[1:], outs[1:]):
                if o == ref:
                    continue
                if o[0] != ref[0]:
                    det = {'clock_a': clock_label(clocks[0]), 'outcome_a': ref[0] if ref[0] == 'text' else ref[1],
                           'clock_b': clock_label(c), 'outcome_b': o[0] if o[0] == 'text' else o[1]}
                elif o[0] == 'exception':
                    det = {'clock_a': clock_label(clocks[0]), 'outcome_a': ref[1], 'clock_b': clock_label(c), 'outcome_b': o[1]}
                else:
                    a, b = ref[1], o[1]
                    k = next((i for i in range(min(len(a), len(b))) if a[i] != b[i]), min(len(a), len(b)))
                    det = {'clock_a': clock_label(clocks[0]), 'clock_b': clock_label(c), 'first_differing_line': k + 1,
                           'line_a': (a[k] if k < len(a) else None), 'line_b': (b[k] if k < len(b) else None)}
                ctx.violation('%s:clock-dependent-output' % EDIT_FN[op], case, det)
                break
    if sample:
        ctx.sample({'function': EDIT_FN[op], 'stations': m['codes'], 'removed': list(removed), 'parameters': m['npar'],
                    'layout': g['tri'], 'velocities': g['vel'], 'clocks': [clock_label(c) for c in clocks],
                    'input_header': in_lines[0]})


# readers ----------------------------------------------------------------------------------------------------
def judge_readers(h, ctx, m, inpath, which=('estimate', 'matrix', 'sites')):
    G = h.G
    case = {'gen': m['gen'], 'op': 'read'}
    vel = m['vel']
    ppe = 6 if vel else 3
    entries = [m['est'][k:k + ppe] for k in range(0, m['npar'], ppe)]

    def call(fn, name):
        ctx.judged()
        try:
            return fn(inpath), None
        except Exception as e:
            ctx.violation('%s:exception:%s' % (name, type(e).__name__), case, {'exception': '%s: %s' % (type(e).__name__, e)})
            return None, e

    if 'estimate' in which:
        got, e = call(G.read_sinex_estimate, 'read_sinex_estimate')
        ctx.count('read_estimate_judged')
        if e is None:
            exp = []
            for ent in entries:
                t = (ent[0]['code'], str(ent[0]['soln']), ent[0]['epoch']) + tuple(float(x['val']) for x in ent[:3]) + \
                    tuple(float(x['sd']) for x in ent[:3])
                if vel:
                    t += tuple(float(x['val']) for x in ent[3:]) + tuple(float(x['sd']) for x in ent[3:])
                exp.append(t)
            got_l = [tuple(x) for x in got] if isinstance(got, (list, tuple)) else got
            if got_l != exp:
                k = next((i for i in range(min(len(got_l), len(exp))) if got_l[i] != exp[i]), None) \
                    if isinstance(got_l, list) else None
                ctx.violation('read_sinex_estimate:values', case,
                              {'entries_observed': len(got_l) if isinstance(got_l, list) else repr(got_l)[:100],
                               'entries_expected': len(exp), 'first_wrong_entry': k,
                               'observed': got_l[k] if k is not None else None, 'expected': exp[k] if k is not None else None})
            ctx.bucket('read_sinex_estimate', 'vel' if vel else 'novel', m['gen']['expo'], 'n%d' % m['gen']['nst'])
    if 'matrix' in which:
        got, e = call(G.read_sinex_matrix, 'read_sinex_matrix')
        ctx.count('read_matrix_judged')
        if e is None:
            Q = m['Q']
            exp = []
            for k, ent in enumerate(entries):
                b = ppe * k
                t = (ent[0]['code'], str(ent[0]['soln']))
                for o in ((0, 3) if vel else (0,)):
                    a = b + o
                    if m['tri'] == 'U':     # documented order: var_x, covar_xy, covar_xz, var_y, covar_yz, var_z
                        pairs = [(a, a), (a, a + 1), (a, a + 2), (a + 1, a + 1), (a + 1, a + 2), (a + 2, a + 2)]
                    else:                   # lower-triangle order (docstring ToDo): xx, yx, yy, zx, zy, zz
                        pairs = [(a, a), (a + 1, a), (a + 1, a + 1), (a + 2, a), (a + 2, a + 1), (a + 2, a + 2)]
                    t += tuple(float(Q[i][j]) for i, j in pairs)
                exp.append(t)
            got_l = [tuple(float(v) if not isinstance(v, str) else v for v in x) for x in got]
            if got_l != exp:
                k = next((i for i in range(min(len(got_l), len(exp))) if got_l[i] != exp[i]), None)
                ctx.violation('read_sinex_matrix:values', case,
                              {'layout': m['tri'], 'entries_observed': len(got_l), 'entries_expected': len(exp),
                               'first_wrong_entry': k, 'observed': got_l[k] if k is not None else None,
                               'expected': exp[k] if k is not None else None})
            ctx.bucket('read_sinex_matrix', m['tri'], 'vel' if vel else 'novel', m['gen']['expo'])
    if 'sites' in which:
        got, e = call(G.read_sinex_sites, 'read_sinex_sites')
        ctx.count('read_sites_judged')
        if e is None:
            if len(got) != len(m['sites']):
                ctx.violation('read_sinex_sites:count', case, {'observed': len(got), 'expected': len(m['sites'])})
            for g, s in zip(got, m['sites']):
                line = sx.site_line(s)
                ctx.count('site_lines_compared')
                try:
                    site, point, domes, obs, desc, lon, lat, hgt = g
                except (TypeError, ValueError):
                    ctx.violation('read_sinex_sites:fields', case, {'observed': repr(g)[:200], 'line': line})
                    break
                if (site, point, domes, obs, str(desc).rstrip()) != (s['code'], s['pt'].strip(), s['domes'], s['tech'], s['desc']):
                    ctx.violation('read_sinex_sites:fields', case,
                                  {'observed': [site, point, domes, obs, desc], 'line': line,
                                   'expected': [s['code'], s['pt'].strip(), s['domes'], s['tech'], s['desc']]})
                    break
                want_h = float(line[68:75])
                if not (isinstance(hgt, float) and hgt == want_h):
                    ctx.violation('read_sinex_sites:height', case,
                                  {'observed': hgt, 'expected': want_h, 'line': line, 'SITE/ID height columns (0-based slice)': '68:75'})
                    break
                bad = None
                for nm, ang, wd, wm, ws, wneg in (('longitude', lon, s['lon'][0], s['lon'][1], float(s['lon'][2]), False),
                                                   ('latitude', lat, s['lat'][1], s['lat'][2], float(s['lat'][3]), s['lat'][0])):
                    try:
                        o = (ang.degree, ang.minute, ang.second, ang.positive)
                    except AttributeError:
                        bad = (nm, repr(ang))
                        break
                    zero = (wd == 0 and wm == 0 and ws == 0.0)
                    if o[:3] != (wd, wm, ws) or (not zero and o[3] != (not wneg)):
                        bad = (nm, list(o), [wd, wm, ws, not wneg])
                        break
                if bad:
                    ctx.violation('read_sinex_sites:dms', case, {'which': bad[0], 'observed': bad[1:], 'line': line})
                    break
            ctx.bucket('read_sinex_sites', 'n%d' % m['gen']['nst'])


# ------------------------------------------------------------------------------------------------------------
# shard
# ------------------------------------------------------------------------------------------------------------
def selfcheck():
    bad = sx.selfcheck()
    if bad:
        raise core.Inconclusive('sinex_synth oracle failed its self-validation: %s' % '; '.join(bad)[:600])


def subsets_of(f, m, rnd):
    codes = m['codes']
    n = len(codes)
    if f['subsets'] == 'all':
        for r in range(0, n):
            for c in itertools.combinations(codes, r):
                c = list(c)
                if len(c) > 1 and rnd.random() < 0.5:
                    rnd.shuffle(c)          # the removal list need not be in file order
                yield c
        return
    if f['subsets'] == 'none-and-first':
        # nothing removed (every record of the input has to come through) and the first station removed
        yield []
        if n > 1:
            yield [codes[0]]
        return
    for j in range(int(f['subsets'])):
        if n == 1:
            yield []
        elif j % 5 == 0:
            keep = rnd.randrange(n)
            yield [c for k, c in enumerate(codes) if k != keep]
        elif j % 5 == 1:
            yield [rnd.choice(codes)]
        else:
            yield rnd.sample(codes, rnd.randint(0, n - 1))


def clocks_for(e, seed):
    i = (e + seed * 17) % NC
    j = (7 * e + 3 + seed) % NC
    if j == i:
        j = (j + 1) % NC
    return [CLOCKS[i], CLOCKS[j]]


def run_file(h, ctx, f, seed, rnd, tmp):
    m = sx.make_model(f['gen'])
    lines = sx.write_lines(m)
    inpath = os.path.join(tmp, 'input-%s.snx' % f['gen']['fseed'])
    eol = '\r\n' if f['gen'].get('eol') == 'crlf' else '\n'
    with open(inpath, 'w', newline='') as fh:
        fh.write(eol.join(lines) + eol)
    ctx.count('input_files_layout:' + f['gen'].get('lay', 'std'))
    ctx.count('input_files_line_ending:' + f['gen'].get('eol', 'lf'))
    g = f['gen']
    e = f.get('clock0', 0)
    first = True
    nsub = 0
    for sub in subsets_of(f, m, rnd):
        clocks = clocks_for(e, seed)
        if nsub % 3 == 0:
            # hostile clocks built from the file's own numbers: the second of the day equal to the parameter count of the
            # input and of the expected output (header edits that search for the count as a string meet it in the time stamp)
            old_n = int(lines[0][60:65])
            new_n = len(sx.keep_indices(m, sub))
            for n_ in {old_n, new_n}:
                if 0 < n_ < 86400:
                    clocks = clocks + [[2024, 3, 1, n_ // 3600, (n_ % 3600) // 60, n_ % 60, 0]]
            ctx.count('clock_equal_to_parameter_count_edits')
        run_edit(h, ctx, m, lines, inpath, 'stns', sub, clocks, sample=(first and g['nst'] > 1))
        first = False
        e += 1
        nsub += 1
        ctx.count('stns_edits_' + g['tri'])
        ctx.count('stns_edits_vel' if g['vel'] else 'stns_edits_novel')
    if f['subsets'] == 'all':
        ctx.count('exhaustive_subset_files')
        ex = ctx.info.setdefault('exhaustive_subset_files_by_station_count', {})
        ex['n%d' % g['nst']] = ex.get('n%d' % g['nst'], 0) + 1
        if nsub != 2 ** g['nst'] - 1:
            raise core.Inconclusive('subset enumeration incomplete for %s' % g['fseed'])
    if f.get('velocity') and g['vel']:
        run_edit(h, ctx, m, lines, inpath, 'velocity', [], clocks_for(e, seed), sample=(g['nst'] == 2))
        e += 1
        ctx.count('velocity_edits')
        if 'V' in g['agency'] or 'V' in g['dagency']:
            ctx.count('agency_with_V_velocity_edits')
    if f.get('zeros'):
        nz = sum(1 for ln in lines if sx.is_matrix_data_line(ln) and sx.zero_line_kind(ln) == 'canonical')
        ctx.count('zero_lines_in_input', nz)
        ctx.count('zeros_edits')
        if nz:
            ctx.count('zeros_edits_with_zero_lines')
        run_edit(h, ctx, m, lines, inpath, 'zeros', [], clocks_for(e, seed), sample=(nz > 0 and g['nst'] == 3))
        e += 1
    if f.get('readers'):
        judge_readers(h, ctx, m, inpath)
    os.remove(inpath)


def reach_setup(G):
    reach = core.LineReach()
    for name in ('set_creation_time', 'remove_stns_sinex', 'remove_velocity_sinex', 'remove_matrixzeros_sinex',
                 'read_sinex_estimate', 'read_sinex_matrix', 'read_sinex_sites'):
        fn = getattr(G, name, None)
        if fn is not None:
            reach.watch(fn, name)
    reach.start()
    return reach


def run_shard(spec, ctx):
    selfcheck()
    h = Harness(ctx)
    ctx.info['pandas_stub_used'] = h.pandas_stub
    reach = reach_setup(h.G)
    rnd = random.Random('%s-%s-%s' % (ID, spec['seed'], spec['shard']))
    cwd0 = os.getcwd()
    try:
        with tempfile.TemporaryDirectory(prefix='c18-in-') as tmp:
            for f in spec['files']:
                run_file(h, ctx, f, spec['seed'], rnd, tmp)
    finally:
        reach.stop()
        os.chdir(cwd0)
        h.restore_clock()
    ctx.info['lines_reached'] = reach.summary()


def finalize(m, tier):
    hit = m['info'].get('clock_configurations_hit', {})
    missing = [clock_label(c) for c in CLOCKS if clock_label(c) not in hit]
    m['info']['clock_configurations'] = '%d of %d enumerated configurations executed' % (NC - len(missing), NC)
    if missing:
        raise core.Inconclusive('clock configurations never executed: %s' % ', '.join(missing[:8]))


def replay(case, ctx):
    selfcheck()
    h = Harness(ctx)
    m = sx.make_model(case['gen'])
    lines = sx.write_lines(m)
    cwd0 = os.getcwd()
    try:
        with tempfile.TemporaryDirectory(prefix='c18-in-') as tmp:
            inpath = os.path.join(tmp, 'input.snx')
            with open(inpath, 'w', newline='') as fh:
                fh.write('\n'.join(lines) + '\n')
            if case['op'] == 'read':
                judge_readers(h, ctx, m, inpath)
            else:
                run_edit(h, ctx, m, lines, inpath, case['op'], case.get('remove', []), case['clocks'])
    finally:
        os.chdir(cwd0)
        h.restore_clock()
