"""C03 Geodetic <-> Cartesian conversion is exact and self-inverse on every ellipsoid."""
import math
import random

from .. import core, tmwork
from ..oracles import angle as ax
from ..oracles.geod import sincosd

ID = 'C03'
TITLE = 'llh2xyz / xyz2llh'
LEVEL = 'exploration'
RULE = ('geodetic inputs lat -90..90 (exactly 0, +-0.0, +-90, +-1e-12), lon -360..360, h -1e4..4e7 (uniform and log), shipped and '
        'random ellipsoids (a 6.3e6..6.4e6 m, 1/f 150..400 only: flatter ellipsoids are not generated; every eighth case is drawn at the flat end 1/f 150..165, h 1e5..4e7, |lat| < 50), float and angle-object arguments, functional and CoordGeo/CoordCart API: llh2xyz against the closed '
        'form (prime-vertical radius of that ellipsoid) within 1 um; Cartesian inputs generated from geodetic ones and directly in '
        'all octants with distance from the axis 1e-9..4e7 m: xyz2llh result mapped back by the closed form within 0.02 mm, '
        'longitude in [-180,180].  a surface point followed by points on the same geocentric ray at other heights; 3 % of the cases are preceded by calls the property does not speak about (latitudes beyond the poles, NaN, inf, strings, None, the geocentre): not judged, exceptions swallowed, the judged call after them must be as right as ever.  distinct = ellipsoid x |lat| class x height decade x axis-distance decade x argument type x api')
ASSUMPTIONS = ['closed form x=(nu+h)cos(lat)cos(lon), y=(nu+h)cos(lat)sin(lon), z=(nu(1-e^2)+h)sin(lat), nu=a/sqrt(1-e^2 sin^2 lat), '
               'evaluated in float64 with exact quadrant handling (checked against mpmath on a sample each shard)']
N = {'quick': 4000, 'thorough': 60000}
SHARDS = {'quick': 16, 'thorough': 32}
REQUIRED_COUNTERS = ['same_ray_sequences', 'unjudged_calls_before_a_judged_one', 'alias_sequences', 'branch:llh2xyz-equator-test', 'forward_judged', 'inverse_judged', 'equator_exact', 'pole_exact', 'near_axis']


def plan(tier, seed):
    return [{'n': N[tier]} for _ in range(SHARDS[tier])]


def closed_form(lat, lon, h, a, invf):
    f = 1.0 / invf
    e2 = f * (2.0 - f)
    sp, cp = sincosd(lat)
    sl, cl = sincosd(lon)
    nu = a / math.sqrt(1.0 - e2 * sp * sp)
    return (nu + h) * cp * cl, (nu + h) * cp * sl, (nu * (1.0 - e2) + h) * sp


def self_check(seed):
    import mpmath as mp
    rnd = random.Random(seed)
    old = mp.mp.dps
    mp.mp.dps = 40
    mx = 0.0
    try:
        for _ in range(12):
            lat = rnd.choice([rnd.uniform(-90, 90), 0.0, 90.0, -90.0, 1e-12])
            lon = rnd.uniform(-360, 360)
            h = rnd.uniform(-1e4, 4e7)
            a, invf = rnd.choice([(6378137.0, 298.257222101), (6378388.0, 297.0), (6300000.0, 150.0)])
            x, y, z = closed_form(lat, lon, h, a, invf)
            f = 1 / mp.mpf(invf)
            e2 = f * (2 - f)
            p, l = mp.radians(mp.mpf(lat)), mp.radians(mp.mpf(lon))
            nu = a / mp.sqrt(1 - e2 * mp.sin(p) ** 2)
            X, Y, Z = (nu + h) * mp.cos(p) * mp.cos(l), (nu + h) * mp.cos(p) * mp.sin(l), (nu * (1 - e2) + h) * mp.sin(p)
            mx = max(mx, abs(x - float(X)), abs(y - float(Y)), abs(z - float(Z)))
    finally:
        mp.mp.dps = old
    if mx > 5e-8:
        raise core.Inconclusive('closed-form oracle disagrees with mpmath by %g m' % mx)
    return mx


HUNG = set()
LATS = [0.0, -0.0, 90.0, -90.0, 1e-12, -1e-12, 1e-9, 89.999999999, -89.999999999, 45.0]


def rand_ell(rnd):
    r = rnd.random()
    if r < 0.35:
        return 'grs80'
    if r < 0.45:
        return 'wgs84'
    if r < 0.57:
        return 'ans'
    if r < 0.70:
        return 'intl24'
    if r < 0.78:
        return rnd.choice([[6300000.0, 150.0], [6400000.0, 400.0]])
    return [round(rnd.uniform(6.3e6, 6.4e6), 3), round(rnd.uniform(150.0, 400.0), 6)]


def rand_h(rnd):
    r = rnd.random()
    if r < 0.4:
        return rnd.uniform(-1e4, 4e7)
    if r < 0.8:
        return rnd.choice([1, 1, 1, -1]) * 10 ** rnd.uniform(-3, math.log10(4e7))
    return rnd.choice([0.0, -1e4, 4e7, 1200.0, -100.0])


def gen_case(rnd):
    ell = rand_ell(rnd)
    a, invf = tmwork.ell_published(ell)
    mode = rnd.random()
    if mode < 0.6:
        lat = rnd.choice(LATS) if rnd.random() < 0.2 else rnd.uniform(-90, 90)
        lon = rnd.choice([rnd.uniform(-360, 360), rnd.uniform(-180, 180), 180.0, -180.0, 0.0, 90.0, -90.0, 360.0,
                          rnd.choice([1, -1]) * (180.0 - 10 ** rnd.uniform(-7, -1.5)), rnd.choice([90.0, -90.0, 0.0]) + rnd.choice([1, -1]) * 10 ** rnd.uniform(-9, -3)])
        h = rand_h(rnd)
        if mode < 0.04:
            h = max(h, -1e4)
        argt = rnd.choice(ax.ANGLE_CLASSES) if rnd.random() < 0.2 else 'float'
        api = 'coord' if rnd.random() < 0.1 else 'func'
        c = {'mode': 'geo', 'ell': ell, 'lat': lat, 'lon': lon, 'h': min(max(h, -1e4), 4e7), 'argt': argt, 'api': api}
        if api == 'coord' and rnd.random() < 0.3:
            c['h'], c['no_height'] = 0.0, True
        return c
    # Cartesian drawn directly: distance from the axis log-uniform, all octants, height within range
    p = 10 ** rnd.uniform(-9, 7.6)
    th = rnd.uniform(-math.pi, math.pi)
    b = a * (1 - 1 / invf)
    if p < a:
        # on/near the surface above |z| ~ b*sqrt(1-(p/a)^2), shifted by a height in range
        z0 = b * math.sqrt(max(0.0, 1 - (p / a) ** 2))
        z = rnd.choice([1, -1]) * (z0 + rand_h(rnd))
    else:
        z = rnd.uniform(-1, 1) * math.sqrt(max(0.0, (a + 4e7) ** 2 - p * p))
    if rnd.random() < 0.08:
        th = rnd.choice([math.pi, -math.pi, math.pi / 2, 0.0]) + rnd.choice([1, -1]) * 10 ** rnd.uniform(-9, -3.5)
    x, y = p * math.cos(th), p * math.sin(th)
    if rnd.random() < 0.08:
        x, y = rnd.choice([(p, 0.0), (0.0, p), (-p, 0.0), (0.0, -p), (-p, -0.0)])
    return {'mode': 'cart', 'ell': ell, 'x': x, 'y': y, 'z': z, 'api': 'coord' if rnd.random() < 0.1 else 'func'}


def gen_flat_case(rnd):
    """The slow end of the latitude iteration inside the generated range: the flattest ellipsoids drawn (1/f 150..165) at
    heights of 100 km .. 40 000 km and low or middle latitude, where a shortened iteration shows first (own random stream)."""
    ell = [round(rnd.uniform(6.3e6, 6.4e6), 3), round(rnd.uniform(150.0, 165.0), 6)]
    return {'mode': 'geo', 'ell': ell, 'lat': rnd.uniform(-50, 50), 'lon': rnd.uniform(-180, 180),
            'h': min(10 ** rnd.uniform(5, 7.61), 4e7), 'argt': 'float', 'api': 'func'}


def ray_sequence(rnd):
    """A point on the ellipsoid (h = 0) followed by points on the same geocentric ray at other heights (a mark and
    the satellite geocentrically above it), at the same or another longitude: for the second point the first guess of the
    latitude iteration coincides with the first point's final latitude."""
    ell = rand_ell(rnd)
    a, invf = tmwork.ell_published(ell)
    f = 1.0 / invf
    e2 = f * (2 - f)
    lat = rnd.uniform(-89.5, 89.5)
    lon = rnd.uniform(-180, 180)
    nu = a / math.sqrt(1 - e2 * math.sin(math.radians(lat)) ** 2)
    p = nu * math.cos(math.radians(lat))
    z = nu * (1 - e2) * math.sin(math.radians(lat))
    out = [{'mode': 'geo', 'ell': ell, 'lat': lat, 'lon': lon, 'h': 0.0, 'argt': 'float', 'api': 'func', 'kind': 'ray-foot'}]
    for _ in range(rnd.choice([1, 2])):
        k = rnd.choice([1.0 + 10 ** rnd.uniform(-6, -2), rnd.uniform(1.01, 6.5), 4.1646, 1.0 - 10 ** rnd.uniform(-6, -3)])
        lon2 = lon if rnd.random() < 0.5 else rnd.uniform(-180, 180)
        out.append({'mode': 'cart', 'ell': ell, 'x': k * p * math.cos(math.radians(lon2)), 'y': k * p * math.sin(math.radians(lon2)),
                    'z': k * z, 'api': 'func', 'kind': 'same-ray'})
    return out


def _dec(v):
    return int(math.floor(math.log10(abs(v)))) if v else -99


def gen_unjudged_calls(rnd):
    out = []
    for _ in range(rnd.choice([1, 1, 2])):
        ell = rnd.choice(['grs80', 'ans', 'wgs84', [6378200.0, 299.5]])
        if rnd.random() < 0.5:
            out.append({'fn': 'llh2xyz', 'args': [rnd.choice([95.0, -91.0, float('nan'), 'x', None, 1e308]), rnd.choice([400.0, float('nan'), 10.0]),
                                                  rnd.choice([0.0, float('inf'), 'h', -7e6])], 'ell': ell})
        else:
            out.append({'fn': 'xyz2llh', 'args': [rnd.choice([0.0, float('nan'), 'x', 1e308, 3.0]), rnd.choice([0.0, float('nan'), 4.0]),
                                                  rnd.choice([0.0, 6.4e6, float('inf'), -6.3e6])], 'ell': ell})
    return out


def judge(ns, ctx, case):
    for call in case.get('before') or ():
        core.unjudged(ctx, getattr(ns.convert, call['fn']), *call['args'], tmwork.ell_obj(ns, call['ell']))
    ell = tmwork.ell_obj(ns, case['ell'])
    a, invf = tmwork.ell_published(case['ell'])
    en = case['ell'] if isinstance(case['ell'], str) else 'custom-ell'
    if case['mode'] == 'geo':
        lat, lon, h = case['lat'], case['lon'], case['h']
        argt = case.get('argt', 'float')
        la, lo, dla, dlo = lat, lon, float(lat), float(lon)
        if argt != 'float':
            try:
                la = ax.make_object(ns.angles, argt, lat)
                lo = ax.make_object(ns.angles, argt, lon)
            except ValueError:
                ctx.count('argument_object_not_constructible')
                return
            dla, dlo = float(ax.denote(la)), float(ax.denote(lo))
        ctx.judged()
        ctx.count('forward_judged')
        try:
            if case.get('api') == 'coord':
                if argt == 'float':
                    la, lo = float(la), float(lo)
                if h == 0 and case.get('no_height'):
                    c = ns.coord.CoordGeo(la, lo).cart(ell)        # no ellipsoidal height given: converted at 0 m
                else:
                    c = ns.coord.CoordGeo(la, lo, h).cart(ell)
                x, y, z = c.xaxis, c.yaxis, c.zaxis
            else:
                rep, shape = core.delivery_of(case)
                if argt != 'float':
                    rep = None
                omit = ('ellipsoid',) if (case['ell'] == 'grs80' and shape) else ()
                for k_, lab in ((rep, 'argument_representation:'), (shape, 'call_shape:')):
                    if k_:
                        ctx.count(lab + k_)
                x, y, z = core.shaped_call(ns.convert.llh2xyz, ['lat', 'lon', 'ellht', 'ellipsoid'],
                                           list(core.rep_values(rep, la, lo, h)) + [ell], shape, omit)
        except Exception as e:
            ctx.violation('llh2xyz:exception', case, {'exception': repr(e)})
            return
        ox, oy, oz = closed_form(dla, dlo, h, a, invf)
        if dla == 0:
            ctx.count('equator_exact')
        if abs(dla) == 90:
            ctx.count('pole_exact')
        d = math.dist((x, y, z), (ox, oy, oz))
        ctx.bucket('fwd', en, 'eq' if dla == 0 else ('pole' if abs(dla) == 90 else int(abs(dla) // 30)), _dec(h), argt,
                   case.get('api'), 'h<0' if h < 0 else 'h>=0')
        if not ctx.ratio('C03.llh2xyz', d, 1e-6):
            mech = 'llh2xyz:wrong-on-equator' if dla == 0 else 'llh2xyz:differs-from-closed-form'
            ctx.violation(mech, case, {'lib': [x, y, z], 'closed_form': [ox, oy, oz], 'dist_m': d})
        # feed the Cartesian point to the inverse as well (Cartesian inputs generated from geodetic ones)
        if math.hypot(ox, oy) > 0:
            judge_inverse(ns, ctx, case, ell, a, invf, en, ox, oy, oz, 'func')
    else:
        judge_inverse(ns, ctx, case, ell, a, invf, en, case['x'], case['y'], case['z'], case.get('api', 'func'))


def judge_inverse(ns, ctx, case, ell, a, invf, en, x, y, z, api):
    p = math.hypot(x, y)
    if p <= 0:
        ctx.count('out_of_domain')
        return
    if 'xyz2llh' in HUNG:
        ctx.count('skipped_after_nontermination')
        return
    ctx.judged()
    ctx.count('inverse_judged')
    if p < 1000.0:
        ctx.count('near_axis')
    try:
        if api == 'coord':
            # the same conversion asked for in any of the six notations of the coordinate class
            NOTS = ['float', 'float', 'DECAngle', 'HPAngle', 'GONAngle', 'DMSAngle', 'DDMAngle']
            nname = NOTS[int(core.stable_hash([case, 'notation']), 16) % len(NOTS)]
            ncls = float if nname == 'float' else getattr(ns.angles, nname)
            ctx.count('coord_inverse_notation:' + nname)
            with core.deadline(30):
                g = ns.coord.CoordCart(x, y, z).geo(ell, notation=ncls)
            lat, lon, h = g.lat, g.lon, g.ell_ht
            if nname != 'float':
                dla, dlo = ax.denote(lat), ax.denote(lon)
                if dla is None or dlo is None:
                    ctx.violation('xyz2llh:invalid-hp-in-coordinate', case, {'lat': repr(lat), 'lon': repr(lon), 'notation': nname})
                    return
                lat, lon = float(dla), float(dlo)
        else:
            rep, shape = core.delivery_of([case, 'inverse'])
            omit = ('ellipsoid',) if (case['ell'] == 'grs80' and shape) else ()
            for k_, lab in ((rep, 'argument_representation:'), (shape, 'call_shape:')):
                if k_:
                    ctx.count(lab + k_)
            with core.deadline(30):
                lat, lon, h = core.shaped_call(ns.convert.xyz2llh, ['x', 'y', 'z', 'ellipsoid'],
                                               list(core.rep_values(rep, x, y, z)) + [ell], shape, omit)
    except core.DidNotReturn as e:
        HUNG.add('xyz2llh')        # circuit breaker: one witness is enough, do not wait 30 s per case
        ctx.violation('xyz2llh:did-not-return', case, {'exception': repr(e), 'xyz': [x, y, z]})
        return
    except Exception as e:
        ctx.violation('xyz2llh:exception', case, {'exception': repr(e), 'xyz': [x, y, z]})
        return
    if not (-1e4 - 1 <= h <= 4e7 + 1):
        # heights outside the quantified range are not judged (decided on the library's own height only when the
        # closed form confirms it)
        bx, by, bz = closed_form(lat, lon, h, a, invf)
        if math.dist((bx, by, bz), (x, y, z)) <= 2e-5:
            ctx.count('height_out_of_range')
            return
    ctx.bucket('inv', en, int(abs(lat) // 30), _dec(p), _dec(h), api, (x > 0, y > 0, z > 0))
    if not (-180.0 <= lon <= 180.0):
        ctx.violation('xyz2llh:longitude-range', case, {'lon': lon, 'xyz': [x, y, z]})
    bx, by, bz = closed_form(lat, lon, h, a, invf)
    d = math.dist((bx, by, bz), (x, y, z))
    if not ctx.ratio('C03.xyz2llh-roundtrip', d, 2e-5):
        mech = 'xyz2llh:near-axis-height' if p < 1e4 else 'xyz2llh:roundtrip'
        ctx.violation(mech, case, {'lib': [lat, lon, h], 'maps_back_to': [bx, by, bz], 'input': [x, y, z], 'dist_m': d,
                                   'axis_distance_m': p})


def run_shard(spec, ctx):
    ns = core.load_repo()
    ctx.info['oracle_selfcheck'] = {'closed_form_vs_mpmath_m': self_check(ctx.seed + 7)}
    reach = core.LineReach()
    reach.watch(ns.convert.llh2xyz)
    reach.watch(ns.convert.xyz2llh)
    reach.start()
    rnd = random.Random('%s-%s-%s' % (ID, spec['seed'], spec['shard']))
    rnd_flat = random.Random('%s-flat-%s-%s' % (ID, spec['seed'], spec['shard']))
    try:
        for i in range(spec['n']):
            if i % 8 == 0:
                judge(ns, ctx, gen_flat_case(rnd_flat))
                ctx.count('flat_end_cases')
            case = gen_case(rnd)
            if rnd.random() < 0.03:
                case['before'] = gen_unjudged_calls(rnd)
            if i < 2:
                ctx.sample(case)
            judge(ns, ctx, case)
            if rnd.random() < 0.3:
                # the same point on another ellipsoid (same 1/f and other a, other 1/f, another shipped one)
                c2 = dict(case)
                c2['ell'] = tmwork.alias_ell(rnd, case['ell'])
                a2 = c2['ell'][0] if not isinstance(c2['ell'], str) else 6378137.0
                if 6.3e6 <= a2 <= 6.4e6:
                    judge(ns, ctx, c2)
                    ctx.count('alias_sequences')
            if rnd.random() < 0.12:
                for c3 in ray_sequence(rnd):
                    judge(ns, ctx, c3)
                ctx.count('same_ray_sequences')
    finally:
        reach.stop()
    ctx.info['lines_reached'] = reach.summary()
    hit = reach.branch_hit(ns.convert.llh2xyz, 'if lat == 0')
    if hit is None or hit:
        ctx.count('branch:llh2xyz-equator-test')


def replay(case, ctx):
    ns = core.load_repo()
    judge(ns, ctx, case)
