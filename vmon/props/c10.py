"""C10 Point scale factor and grid convergence belong to the projection actually used."""
import random

from .. import core, tmwork

ID = 'C10'
TITLE = 'point scale factor and grid convergence'
LEVEL = 'exploration'
RULE = ('geographic cases as C01 and grid-lattice cases as C02; psf and convergence returned by geo2grid and grid2geo '
        'are compared with tm_exact (scale = k0|dM/dw|/(nu cos phi), convergence = arg dM/dw) for the ellipsoid and '
        'projection of the call; the inverse output is fed back into the forward call and the two reports compared; '
        'all four quadrants about equator/CM and the axes are class buckets; 3 % of the cases are preceded by one or two calls the property does not speak about (latitude/longitude/zone outside the accepted ranges, NaN, strings, invalid hemisphere words): not judged, exceptions swallowed, the judged call after them must be as right as ever.  distinct = class buckets')
ASSUMPTIONS = ['tm_exact oracle (self-validated each shard, incl. numerical conformality and published Flinders Peak '
               'psf/convergence for the sign convention)']
N = {'quick': 1500, 'thorough': 25000}
SHARDS = {'quick': 16, 'thorough': 32}
REQUIRED_COUNTERS = ['unjudged_calls_before_a_judged_one', 'across_antimeridian_cases', 'alias_sequences', 'regime_run_sequences', 'near_axis_cases', 'psfconv_forward', 'psfconv_inverse', 'psfconv_agreement']


def plan(tier, seed):
    specs = [{'n': N[tier]} for _ in range(SHARDS[tier])]
    if tier == 'thorough':
        specs += [{'n': 0, 'lattice': [i, 8], 'ell': ['grs80', 'ans', 'intl24', 'wgs84'][i % 4]} for i in range(8)]
    return specs


def _one(ns, ctx, case):
    if case['mode'] == 'geo':
        tmwork.judge_forward(ns, ctx, case, ('K', 'KI'))
    else:
        tmwork.judge_grid(ns, ctx, case, ('KI',))


def run_shard(spec, ctx):
    ns = core.load_repo()
    tmwork.tm_selfcheck(ctx, n_mp=3)
    reach = tmwork.reach_setup(ns)
    seen = {'ell': set(), 'prj': set()}

    def post(args, kwargs, result, exc):
        # trace: which ellipsoid / projection reach the psf routine (evidence, not a verdict)
        ell = kwargs.get('ellipsoid', args[6] if len(args) > 6 else None)
        prj = kwargs.get('prj', args[7] if len(args) > 7 else None)
        seen['ell'].add('default' if ell is None else ('%r/%r' % (ell.semimaj, ell.inversef)))
        seen['prj'].add('default' if prj is None else ('%r' % (prj.cmscale,)))
    mon = ctx.monitor(ns.convert.psfandgridconv, 'psfandgridconv', post).attach()
    rnd = random.Random('%s-%s-%s' % (ID, spec['seed'], spec['shard']))
    try:
        if spec.get('lattice'):
            for case in tmwork.lattice_cases(spec['lattice'][0], spec['lattice'][1], spec['ell']):
                tmwork.judge_forward(ns, ctx, case, ('K', 'KI'))
            ctx.sample({'kind': '1x1 degree lattice x 3 zone modes', 'part': spec['lattice'], 'ell': spec['ell']})
        for i in range(spec['n']):
            case = tmwork.gen_geo_case(rnd, coordapi=False)
            if rnd.random() < 0.03:
                case['before'] = tmwork.gen_unjudged_calls(rnd)
            # axes: exactly on the central meridian / equator in a share of cases
            r = rnd.random()
            if r < 0.05 and case['zone'] != 0:
                case['lon'] = tmwork.central_meridian(case['prj'], case['zone'])
                case['kind'] = 'on-cm'
            elif r < 0.10:
                case['lat'] = rnd.choice([0.0, -0.0])
                case['kind'] = 'on-equator'
            if i < 1:
                ctx.sample(case)
            _one(ns, ctx, case)
            case = tmwork.gen_grid_case(rnd)
            if rnd.random() < 0.03:
                case['before'] = tmwork.gen_unjudged_calls(rnd)
            if i < 1:
                ctx.sample(case)
            _one(ns, ctx, case)
            if rnd.random() < 0.3:
                _one(ns, ctx, tmwork.alias_grid_case(rnd, case))
                g0 = tmwork.gen_geo_case(rnd, coordapi=False)
                _one(ns, ctx, g0)
                _one(ns, ctx, tmwork.alias_geo_case(rnd, g0))
                ctx.count('alias_sequences')
            if rnd.random() < 0.15:
                _one(ns, ctx, tmwork.near_axis_grid_case(rnd))
                ctx.count('near_axis_cases')
            if i % 400 == 7:
                _one(ns, ctx, tmwork.regime_run(rnd))
                ctx.count('regime_run_sequences')
    finally:
        reach.stop()
        mon.detach()
    ctx.info['lines_reached'] = reach.summary()
    ctx.info['psf_routine_args_seen'] = {'ellipsoids': sorted(seen['ell'])[:12], 'cmscales': sorted(seen['prj'])[:12]}


def replay(case, ctx):
    ns = core.load_repo()
    _one(ns, ctx, case)
