"""C13 MGA94 <-> MGA2020 transformations are mutual inverses and match their definition."""
import math
import random

import numpy as np

from .. import core, tmwork
from ..oracles import tm, helmert as hx
from ..oracles.geod import sincosd
from . import c03, c06

ID = 'C13'
TITLE = 'MGA94 <-> MGA2020: stepwise composition, round trip, heights, covariance'
LEVEL = 'exploration'
TECHNIQUE = ('runtime monitoring: post-condition on the two wrapper functions against the composition of the independent oracles '
             '(tm_exact inverse, closed-form Cartesian, exact Helmert with the published GDA94->GDA2020 set, closed-form inverse, '
             'tm_exact forward in the natural zone), plus a call-trace monitor on the internal pipeline steps as evidence')
RULE = ('grid coordinates in zones 46..59, eastings 100 000..900 000, latitudes -60..-5, heights -100..3000 / absent / 0, points at '
        'zone edges (result in the neighbouring zone), and for the algebraic part the whole southern UTM domain of C02; covariance '
        'inputs SPD / rank-1 / zero / diagonal 3x3 and 3x1 variance columns.  Judged per direction: result = oracle composition '
        '(0.3 mm horizontally as a ground position, 0.2 mm in height), zone = natural zone of the transformed position, height 0 '
        'and horizontal result of the point on the ellipsoid when no height is given; round trip returns the same ground position '
        '(0.3 mm / 0.2 mm); returned covariance symmetric PSD and equal to R2^T (Jx R1 V R1^T Jx^T + Jp S Jp^T) R2 with the '
        'published uncertainties.  every returned object that holds an array is kept with a copy and compared again after later calls (results are values: `earlier-result-changed-by-later-call`).  distinct = direction x zone x |lat| band x height class x covariance kind x edge flag Covariance classes as in C06 (magnitudes 1e-14..1e12, wide range inside one matrix, tied components, extreme variance columns).')
ASSUMPTIONS = ['tm_exact, helmert_exact and the closed-form Cartesian oracle (each self-validated per shard)',
               'GDA94->GDA2020 parameters and uncertainties as published in the GDA2020 technical manual, typed in this file',
               '"the same ground position" is compared after re-projection into one zone (the result is by definition expressed in '
               'its natural zone)', 'a 3x1 variance column stands for the diagonal matrix of those variances']
N = {'quick': 500, 'thorough': 8000}
SHARDS = {'quick': 16, 'thorough': 32}
REQUIRED_COUNTERS = ['kept_results_compared_after_later_calls', 'same_point_sequences', 'forward_judged', 'reverse_judged', 'roundtrip_judged', 'no_height_judged', 'vcv3x3_judged', 'vcv3x1_judged',
                     'zone_change_cases']
A, INVF = 6378137.0, 298.257222101
K0, FE, FN = 0.9996, 500000.0, 10000000.0
PUB = {'tx': 0.06155, 'ty': -0.01087, 'tz': -0.04019, 'sc': -0.009994, 'rx': -0.0394924, 'ry': -0.0327221, 'rz': -0.0328979}
PUB_SD = {'sd_tx': 0.0007, 'sd_ty': 0.0006, 'sd_tz': 0.0007, 'sd_sc': 0.00010, 'sd_rx': 0.000011, 'sd_ry': 0.000010,
          'sd_rz': 0.000011}


def plan(tier, seed):
    return [{'n': N[tier]} for _ in range(SHARDS[tier])]


def cm_of(zone):
    return zone * 6.0 - 183.0


def natural_zone(lon):
    return int((lon + 186.0) / 6.0)


def xyz2llh_exact(x, y, z):
    f = 1.0 / INVF
    e2 = f * (2 - f)
    p = math.hypot(x, y)
    lon = math.degrees(math.atan2(y, x))
    lat = math.atan2(z, p * (1 - e2))
    for _ in range(30):
        nu = A / math.sqrt(1 - e2 * math.sin(lat) ** 2)
        new = math.atan2(z + e2 * nu * math.sin(lat), p)
        if abs(new - lat) < 1e-17:
            lat = new
            break
        lat = new
    nu = A / math.sqrt(1 - e2 * math.sin(lat) ** 2)
    h = p * math.cos(lat) + z * math.sin(lat) - A * A / nu
    return math.degrees(lat), lon, h


def frame(lat, lon):
    sp, cp = sincosd(lat)
    sl, cl = sincosd(lon)
    return np.array([[-sl, -sp * cl, cp * cl], [cl, -sp * sl, cp * sl], [0.0, cp, sp]])


def compose(zone, east, north, h, forward, V):
    """Oracle composition.  Returns (lat2, lon2, h2, cov_local or None)."""
    lat, dl, _, _ = tm.inverse(east - FE, north - FN, A, INVF, K0)
    lon = cm_of(zone) + dl
    x, y, z = c03.closed_form(lat, lon, h, A, INVF)
    p = PUB if forward else {k: -v for k, v in PUB.items()}
    X, Y, Z = hx.apply(x, y, z, p)
    lat2, lon2, h2 = xyz2llh_exact(X, Y, Z)
    # oracle self-consistency of the inverse closed form
    bx, by, bz = c03.closed_form(lat2, lon2, h2, A, INVF)
    if math.dist((bx, by, bz), (X, Y, Z)) > 1e-8:
        raise core.Inconclusive('closed-form inverse oracle does not round-trip')
    cov = None
    if V is not None:
        R1 = frame(lat, lon)
        Vc = R1 @ V @ R1.T
        a, b = hx.jqj(x, y, z, p, PUB_SD, Vc)
        R2 = frame(lat2, lon2)
        cov = R2.T @ (a + b) @ R2
    return (lat, lon), (lat2, lon2, h2), cov


def gen_case(rnd):
    r = rnd.random()
    edge = False
    if r < 0.7:
        zone = rnd.randint(46, 59)
        lat = rnd.uniform(-60.0, -5.0)
        e = rnd.uniform(100000.0, 900000.0)
    elif r < 0.85:
        # near a zone edge so that the transformed point (moved ~1.8 m NE) can fall into the neighbouring zone
        zone = rnd.randint(46, 58)
        lat = rnd.uniform(-60.0, -5.0)
        edge = True
        e = None
    else:
        zone = rnd.randint(1, 60)
        lat = -rnd.choice([rnd.uniform(0.01, 80.0), rnd.uniform(75.0, 79.9), rnd.uniform(0.001, 1.0)])
        e = rnd.uniform(100000.0, 900000.0)
    if edge:
        # longitude within +-3 m of the eastern edge of the zone
        nu_cos = A * math.cos(math.radians(lat))
        dlon = 3.0 + math.degrees(rnd.uniform(-3.0, 3.0) / nu_cos)
        x, y, _, _ = tm.forward(lat, dlon, A, INVF, K0)
        e, n = x + FE, y + FN
    else:
        nu_cos = A * math.cos(math.radians(lat))
        dlon = math.degrees((e - FE) / K0 / max(nu_cos, 1.0))
        if abs(dlon) > 25:
            dlon = math.copysign(25.0, dlon)
        x, y, _, _ = tm.forward(lat, dlon, A, INVF, K0)
        e, n = x + FE, y + FN
    if not edge and rnd.random() < 0.08:
        # a northing at which one of the trigonometric factors of the inverse Krueger series vanishes (a millimetre to
        # kilometres off): a series cut short "when the term is small" is cut there by the factor, not by the coefficient
        for _ in range(20):
            y = tmwork.series_zero_y(rnd, A, INVF, K0)
            if 0.6e6 < y < 6.6e6:
                n = FN - y
                break
    e, n = round(e, rnd.choice([3, 4])), round(n, rnd.choice([3, 4]))
    hr = rnd.random()
    if hr < 0.25:
        h = None
    elif hr < 0.35:
        h = 0.0
    else:
        h = round(rnd.uniform(-100.0, 3000.0), rnd.choice([0, 3, 4]))
    vr = rnd.random()
    vkind = 'none'
    V = None
    if vr < 0.35:
        vkind = rnd.choice(['spd', 'rank1', 'rank2', 'zero', 'diag', 'cond1e8', 'bigrank', 'tiny', 'range', 'tied'])
        V = c06.rand_vcv(rnd, vkind).tolist()
    elif vr < 0.5:
        vkind = 'column'
        V = [[rnd.uniform(0, 1e-4)], [rnd.uniform(0, 1e-4)], [rnd.uniform(0, 1e-3)]]
        if rnd.random() < 0.3:
            # a variance column with a wide range: unconstrained height, or horizontals of a bench mark
            V[rnd.randrange(3)][0] = 10.0 ** rnd.uniform(1.4, 6)
        elif rnd.random() < 0.15:
            V = [[v[0] * 10.0 ** rnd.choice([-12, -9, 6, 12])] for v in V]
    case = {'zone': zone, 'east': e, 'north': n, 'h': h, 'vcv': V, 'vkind': vkind, 'edge': edge,
            'direction': rnd.choice(['94->2020', '2020->94'])}
    # how the same call is delivered: numbers as int / numpy scalars / a float subclass (whole metres for the integer kinds:
    # a height read from an integer array), the covariance in another layout or dtype, arguments by keyword
    rep = core.choose_rep(rnd, 0.1)
    if rep:
        case['rep'] = rep
        if core.rep_wants_integers(rep) and not edge:
            case['east'], case['north'] = float(round(e)), float(round(n))
            if h is not None:
                case['h'] = float(round(h))
    if V is not None:
        vrep = core.choose_array_rep(rnd, 0.2)
        if vkind in ('column', 'diag') and rnd.random() < 0.15:
            # whole-number variances in an integer dtype
            k = 3 if vkind == 'column' else 9
            vals = [float(rnd.randint(0, 9)) for _ in range(3)]
            case['vcv'] = [[vals[0]], [vals[1]], [vals[2]]] if vkind == 'column' else [[vals[0], 0.0, 0.0], [0.0, vals[1], 0.0], [0.0, 0.0, vals[2]]]
            vrep = 'int64'
        if vrep:
            case['vrep'] = vrep
    shape = core.choose_shape(rnd, 0.08)
    if shape:
        case['shape'] = shape
    return case


def ground_distance(lat_a, lon_a, lat_b, lon_b):
    """metres between two nearby geodetic positions (local metric of GRS80)"""
    f = 1.0 / INVF
    e2 = f * (2 - f)
    phi = math.radians((lat_a + lat_b) / 2)
    w = math.sqrt(1 - e2 * math.sin(phi) ** 2)
    rho = A * (1 - e2) / w ** 3
    nu = A / w
    dlon = (lon_b - lon_a + 180.0) % 360.0 - 180.0
    return math.hypot(math.radians(lat_b - lat_a) * rho, math.radians(dlon) * nu * math.cos(phi))


KEEPER = [None]        # core.ResultKeeper of the running shard: returned covariances must keep their values


def call(ns, direction, zone, e, n, h, V, case=None, ctx=None):
    T = ns.transform
    fn = T.transform_mga94_to_mga2020 if direction == '94->2020' else T.transform_mga2020_to_mga94
    case = case or {}
    rep, shape = case.get('rep'), case.get('shape')
    if V is not None and case.get('vrep'):
        V = core.rep_array(case['vrep'], np.asarray(V))
    if ctx is not None:
        for k, label in ((rep, 'argument_representation:'), (shape, 'call_shape:'), (case.get('vrep') if V is not None else None, 'covariance_delivered_as:')):
            if k:
                ctx.count(label + k)
    keeper = KEEPER[0]
    if keeper is not None:
        keeper.verify()
    omit = tuple(nm for nm, v in (('ell_ht', h), ('vcv', V)) if v is None)
    res = core.shaped_call(fn, ['zone', 'east', 'north', 'ell_ht', 'vcv'],
                           list(core.rep_values(rep, zone, e, n)) + [core.rep_value(rep, h), V],
                           shape or ('keywords' if ('ell_ht' in omit and V is not None) else None), omit)
    if keeper is not None:
        keeper.verify()
        keeper.keep(res, {'direction': direction, 'zone': zone, 'east': e, 'north': n, 'h': h,
                          'vcv': None if V is None else np.asarray(V).tolist(), 'note': 'value kept from an earlier call of the sequence'})
    return res


def judge(ns, ctx, case):
    direction = case['direction']
    forward = direction == '94->2020'
    zone, e, n, h = case['zone'], case['east'], case['north'], case['h']
    V = None if case['vcv'] is None else np.array(case['vcv'], dtype=float)
    Vfull = None
    if V is not None:
        Vfull = np.diagflat(V) if V.shape == (3, 1) else V
    ctx.judged()
    ctx.count('forward_judged' if forward else 'reverse_judged')
    (lat1, lon1), (olat, olon, oh), ocov = compose(zone, e, n, 0.0 if h is None else h, forward, Vfull)
    ctx.bucket(direction, zone, int(abs(lat1) // 10), 'absent' if h is None else ('zero' if h == 0 else 'given'),
               case.get('vkind'), case.get('edge'))
    Vin = None if V is None else V.copy()
    try:
        r = call(ns, direction, zone, e, n, h, V, case, ctx)
    except Exception as ex:
        mech = 'wrapper:exception'
        if V is not None:
            mech = 'wrapper:exception-with-3x1-column' if V.shape == (3, 1) else 'wrapper:exception-with-covariance'
        ctx.violation(mech, case, {'exception': repr(ex)})
        return
    z2, e2, n2, h2, cov = r
    # natural zone of the transformed position
    nz = natural_zone((olon + 180.0) % 360.0 - 180.0)
    if nz != zone:
        ctx.count('zone_change_cases')
    near_edge = abs(((olon + 186.0) / 6.0) - round((olon + 186.0) / 6.0)) * 6.0 * 111000.0 * math.cos(math.radians(olat)) < 1e-3
    if z2 != nz and not near_edge:
        ctx.violation('wrapper:not-natural-zone', case, {'zone': z2, 'natural_zone': nz, 'lon': olon})
        return
    # position: compare on the ground through the oracle inverse of the returned grid coordinate
    try:
        rlat, rdl, _, _ = tm.inverse(e2 - FE, n2 - FN, A, INVF, K0)
    except Exception:
        ctx.violation('wrapper:result-not-a-grid-coordinate', case, {'result': [z2, e2, n2]})
        return
    rlon = cm_of(z2) + rdl
    d = ground_distance(rlat, rlon, olat, olon)
    if not ctx.ratio('C13.position', d, 3e-4):
        ctx.violation('wrapper:differs-from-stepwise-composition', case, {'lib': [z2, e2, n2], 'lib_geo': [rlat, rlon],
                                                                          'oracle_geo': [olat, olon], 'ground_m': d})
    if h is None:
        ctx.count('no_height_judged')
        if h2 != 0:
            ctx.violation('wrapper:height-not-zero-when-absent', case, {'height': h2})
    else:
        if not ctx.ratio('C13.height', abs(h2 - oh), 2e-4):
            ctx.violation('wrapper:height-differs', case, {'lib': h2, 'oracle': oh})
    # covariance
    if V is None:
        if cov is not None:
            ctx.violation('wrapper:covariance-returned-without-input', case, {})
    else:
        ctx.count('vcv3x1_judged' if V.shape == (3, 1) else 'vcv3x3_judged')
        if not np.array_equal(Vin, V):
            ctx.violation('wrapper:input-covariance-modified', case, {})
        if cov is None:
            ctx.violation('wrapper:no-covariance-returned', case, {})
        else:
            cov = np.asarray(cov, dtype=float)
            if cov.shape != (3, 3):
                ctx.violation('wrapper:covariance-shape', case, {'shape': list(cov.shape)})
            else:
                scale = max(np.abs(ocov).max(), 1e-300)
                dev = np.abs(cov - ocov).max() / scale
                asym = np.abs(cov - cov.T).max() / scale
                w = np.linalg.eigvalsh((cov + cov.T) / 2)
                if not ctx.ratio('C13.vcv', dev, 1e-8):
                    ctx.violation('wrapper:covariance-not-propagated-input-plus-parameter-uncertainty', case,
                                  {'returned': cov.tolist(), 'expected': ocov.tolist(), 'rel_dev': float(dev)})
                if asym > 1e-12 or w.min() < -1e-12 * max(w.max(), 1e-300):
                    ctx.violation('wrapper:covariance-not-symmetric-psd', case, {'asymmetry_rel': float(asym), 'eig': w.tolist()})
    # round trip through the other direction
    other = '2020->94' if forward else '94->2020'
    try:
        b = call(ns, other, z2, e2, n2, None if h is None else h2, None)
    except Exception as ex:
        ctx.violation('wrapper:exception', case, {'exception': repr(ex), 'with': 'round trip'})
        return
    ctx.count('roundtrip_judged')
    try:
        blat, bdl, _, _ = tm.inverse(b[1] - FE, b[2] - FN, A, INVF, K0)
    except Exception:
        ctx.violation('wrapper:result-not-a-grid-coordinate', case, {'result': list(b[:3])})
        return
    blon = cm_of(b[0]) + bdl
    d = ground_distance(blat, blon, lat1, lon1)
    ok = ctx.ratio('C13.roundtrip', d, 3e-4)
    okh = True if h is None else ctx.ratio('C13.roundtrip-height', abs(b[3] - h), 2e-4)
    if not (ok and okh):
        ctx.violation('wrapper:round-trip', case, {'back': list(b[:4]), 'ground_m': d, 'height_diff': None if h is None else b[3] - h})


class PipelineTrace:
    """evidence only: which internal steps the wrappers call and in which order"""

    NAMES = ('grid2geo', 'vcv_local2cart', 'llh2xyz', 'conform7', 'xyz2llh', 'vcv_cart2local', 'geo2grid')

    def __init__(self, ns):
        self.seq = []
        self.orders = {}
        T = ns.transform
        for name in self.NAMES:
            fn = getattr(T, name, None)
            if fn is None:
                continue        # another tree may compose the pipeline from other helpers: the trace is evidence only

            def mk(name, fn):
                def w(*a, **k):
                    self.seq.append(name)
                    return fn(*a, **k)
                w.__wrapped__ = fn
                return w
            setattr(T, name, mk(name, fn))

    def flush(self):
        key = '>'.join(self.seq)
        if key:
            self.orders[key] = self.orders.get(key, 0) + 1
        self.seq = []


def run_shard(spec, ctx):
    ns = core.load_repo()
    KEEPER[0] = core.ResultKeeper(ctx, 'wrapper')
    tmwork.tm_selfcheck(ctx, n_mp=2)
    sc = {'tm': ctx.info.pop('oracle_selfcheck')}
    try:
        sc['helmert'] = {k: float('%.3g' % v) for k, v in hx.self_check().items()}
    except AssertionError as e:
        raise core.Inconclusive('helmert oracle self-check failed: %r' % (e,))
    sc['closed_form_vs_mpmath_m'] = c03.self_check(ctx.seed + 3)
    ctx.info['oracle_selfcheck'] = sc
    tr = PipelineTrace(ns)
    rnd = random.Random('%s-%s-%s' % (ID, spec['seed'], spec['shard']))
    for i in range(spec['n']):
        case = gen_case(rnd)
        if i < 2:
            ctx.sample(case)
        tr.seq = []
        judge(ns, ctx, case)
        tr.flush()
        if rnd.random() < 0.35:
            # the same grid coordinate again with another height presence (absent / 0 / 0.0 / value), other direction or
            # other covariance: a memo keyed on too little (False == 0 == 0.0) answers with the earlier call's result
            c2 = dict(case)
            r = rnd.random()
            if r < 0.6:
                c2['h'] = rnd.choice([v for v in (None, 0, 0.0, 12.5) if not (v == case['h'] and type(v) is type(case['h']))])
            elif r < 0.8:
                c2['direction'] = '2020->94' if case['direction'] == '94->2020' else '94->2020'
            else:
                c2['vcv'], c2['vkind'] = (None, 'none') if case['vcv'] is not None else (c06.rand_vcv(rnd, 'spd').tolist(), 'spd')
            judge(ns, ctx, c2)
            judge(ns, ctx, case)
            ctx.count('same_point_sequences')
    ctx.info['internal_call_orders_observed'] = dict(sorted(tr.orders.items(), key=lambda kv: -kv[1])[:6])


def replay(case, ctx):
    ns = core.load_repo()
    judge(ns, ctx, case)
