"""C09 Library calls are pure: no hidden state, no mutation of constants or arguments."""
import datetime
import importlib
import json
import math
import os
import random
import subprocess
import sys
import tempfile
import threading
import time

import numpy as np

from .. import core

ID = 'C09'
TITLE = 'purity: constants, arguments, repeatability, threads'
LEVEL = 'exploration'
TECHNIQUE = ('runtime monitoring: write barrier (__setattr__/__delattr__) on the four constants classes logging every write to an '
             'object that existed at import, deep catalogue snapshots around every history, argument snapshots around every call, and '
             'bit-exact comparison of every result with a golden evaluation in a separate interpreter after a full module reload; '
             'threaded replays with switch interval 1e-6 s and sys.monitoring yield injection inside Transformation.__add__, conform7, '
             'conform14')
RULE = ('per shard a pool of call specifications over ~60 public functions (conversion, geodesic, statistics, survey, transformation '
        'with/without covariance in both directions, angle and coordinate objects, Transformation negation and epoch shift) with '
        'random valid arguments, plus NTv2 interpolation through one grid object read once per process from a synthetic file (interior, node, outermost-ring - where bicubic raises - and outside positions); histories of 1..50 calls drawn with repetition from the pool, executed sequentially and again split '
        'over 2..8 threads.  Refuting events: a logged write (new != old) to a shipped Ellipsoid/Projection/Transformation/'
        'TransformationSD; a catalogue snapshot differing after a history; a caller-owned list/array/angle/coordinate argument whose '
        'snapshot differs after the call; a result not bit-identical to the golden result of the same call.  '
        'distinct = distinct call signatures x (sequential | threaded) After its digest is taken every result is edited in place by the caller wherever it is mutable (a shipped constant handed back as a result is reported instead); the pool holds calls the library refuses (repeated / too few readings, invalid HP in an array, wrong-shaped covariance, short parameter list, latitude outside the band): their arguments must come back untouched and the refusal must repeat.')
ASSUMPTIONS = ['golden = the same call evaluated in a fresh interpreter immediately after a full reload of the geodepy modules with '
               'nothing else executed', 'CPython GIL: the interleavings explored are those the switch interval and the injected yields '
               'produce (counted in the evidence), not all interleavings', 'writes that bypass __setattr__ (object.__setattr__, '
               '__dict__ surgery) are seen only by the snapshots']
REQUIRED_COUNTERS = ['histories', 'threaded_histories', 'interleaved_histories', 'calls_with_covariance', 'repeated_identical_calls', 'catalogue_snapshots',
                     'mutable_arguments_checked', 'context_switches_observed', 'results_edited_by_caller', 'calls_with_degenerate_list']
N = {'quick': (20, 5, 150), 'thorough': (190, 50, 360)}       # histories, threaded histories, pool size   (per shard)
SHARDS = {'quick': 16, 'thorough': 32}
MODS = ['constants', 'angles', 'convert', 'statistics', 'survey', 'geodesy', 'ntv2reader', 'transform', 'coord']


def plan(tier, seed):
    h, t, p = N[tier]
    return [{'histories': h, 'threaded': t, 'pool': p} for _ in range(SHARDS[tier])]


# ---------------------------------------------------------------------------------------------
# canonical digests
# ---------------------------------------------------------------------------------------------
def digest(o, depth=0):
    if depth > 12:
        return ['deep']
    if o is None or isinstance(o, (bool, str)):
        return o
    if isinstance(o, int):
        return ['i', o]
    if isinstance(o, np.generic):
        return ['np', o.dtype.str, o.tobytes().hex()]
    if isinstance(o, float):
        if type(o) is not float and hasattr(o, '__dict__'):
            return [type(o).__name__, {k: digest(v, depth + 1) for k, v in sorted(vars(o).items())}, float(o).hex()]
        return ['f', o.hex()]
    if isinstance(o, np.generic):
        return ['np', o.dtype.str, o.tobytes().hex()]
    if isinstance(o, np.ndarray):
        return ['nd', list(o.shape), o.dtype.str, o.tobytes().hex()]
    if isinstance(o, (list, tuple)):
        return [type(o).__name__, [digest(x, depth + 1) for x in o]]
    if isinstance(o, dict):
        return ['dict', {str(k): digest(v, depth + 1) for k, v in sorted(o.items(), key=lambda kv: str(kv[0]))}]
    if isinstance(o, (datetime.date, datetime.datetime)):
        return ['date', o.isoformat()]
    if isinstance(o, BaseException):
        return ['exc', type(o).__name__, str(o)[:200]]
    if hasattr(o, '__dict__'):
        return [type(o).__name__, {k: digest(v, depth + 1) for k, v in sorted(vars(o).items())}]
    return ['repr', repr(o)]


def dkey(o):
    return json.dumps(digest(o), sort_keys=True)


# ---------------------------------------------------------------------------------------------
# call specifications (JSON-able) and their execution
# ---------------------------------------------------------------------------------------------
_GRID = {}


def grid_model():
    """One deterministic synthetic NTv2 model (parent + child) shared by the pool, the histories and the golden worker."""
    if 'model' not in _GRID:
        from . import c17
        _GRID['model'] = c17.gen_model(random.Random(20241), lay='PC', small=True)
    return _GRID['model']


def grid_object(ns):
    """The caller's grid object: read once per process (and once per reload of the reader) from this process's own copy of
    the file, then passed to every NTv2 call of every history - like an application that opens its grid at start-up."""
    import atexit
    from ..oracles import ntv2 as nx
    if 'path' not in _GRID:
        path = os.path.join(tempfile.gettempdir(), 'vmon-c09-grid-%d.gsb' % os.getpid())
        nx.write(grid_model(), path)
        _GRID['path'] = path
        atexit.register(lambda: os.path.exists(path) and os.remove(path))
    key = id(ns.ntv2reader.NTv2Grid)
    if _GRID.get('key') != key:
        _GRID['obj'] = ns.ntv2reader.read_ntv2_file(_GRID['path'])
        _GRID['key'] = key
    return _GRID['obj']


def grid_points(rnd):
    """query positions (decimal degrees, longitude positive east) relative to the model: interior, outermost ring of cells
    (bicubic fails there on the unchanged tree: a call that raises is part of the histories), on a node, outside"""
    from ..oracles import ntv2 as nx
    sg = rnd.choice(grid_model()['subgrids'])
    S, N, E, W, dlat, dlon = (float(v) for v in nx.extents(sg))
    kind = rnd.choice(['interior', 'interior', 'interior', 'ring', 'node', 'outside'])
    if kind == 'interior':
        lat, lonw = rnd.uniform(S + 1.2 * dlat, N - 1.2 * dlat), rnd.uniform(E + 1.2 * dlon, W - 1.2 * dlon)
    elif kind == 'ring':
        lat = rnd.choice([rnd.uniform(S, S + dlat), rnd.uniform(N - dlat, N)])
        lonw = rnd.uniform(E, W)
    elif kind == 'node':
        lat, lonw = S + dlat * rnd.randint(1, max(1, sg['nrows'] - 2)), E + dlon * rnd.randint(1, max(1, sg['ncols'] - 2))
    else:
        lat, lonw = N + rnd.uniform(1, 5) * dlat + 7200.0, W + rnd.uniform(1, 5) * dlon + 7200.0
    return lat / 3600.0, -lonw / 3600.0


def dec_arg(ns, a):
    C = ns.constants
    if isinstance(a, dict):
        if '$grid' in a:
            return grid_object(ns)
        if '$ell' in a:
            v = a['$ell']
            return getattr(C, v) if isinstance(v, str) else C.Ellipsoid(v[0], v[1])
        if '$prj' in a:
            return getattr(C, a['$prj'])
        if '$trans' in a:
            return getattr(C, a['$trans'])
        if '$neg' in a:
            return -getattr(C, a['$neg'])
        if '$date' in a:
            y, m, d = (int(x) for x in a['$date'].split('-'))
            return datetime.date(y, m, d)
        if '$nd' in a:
            return np.array(a['$nd'], dtype=float)
        if '$list' in a:
            return list(a['$list'])
        if '$angle' in a:
            from ..oracles import angle as ax
            return ax.make_object(ns.angles, a['$angle'][0], a['$angle'][1])
        if '$geo' in a:
            from ..oracles import angle as ax
            cls, la, lo, h, H = a['$geo']
            return ns.coord.CoordGeo(ax.make_object(ns.angles, cls, la), ax.make_object(ns.angles, cls, lo), h, H)
        if '$cart' in a:
            return ns.coord.CoordCart(*a['$cart'])
        if '$tm' in a:
            z, e, n, h, H, hn, prj = a['$tm']
            return ns.coord.CoordTM(z, e, n, h, H, hn, getattr(C, prj))
        if '$cls' in a:
            return float if a['$cls'] == 'float' else getattr(ns.angles, a['$cls'])
    return a


MUTABLE = ('$nd', '$list', '$angle', '$geo', '$cart', '$tm')


def run_call(ns, spec):
    """Returns (result_digest_key, [arg-mutation flags])."""
    fn = spec['fn']
    args = [dec_arg(ns, a) for a in spec['args']]
    kwargs = {k: dec_arg(ns, v) for k, v in spec.get('kwargs', {}).items()}
    mut_idx = [i for i, a in enumerate(spec['args']) if isinstance(a, dict) and any(k in a for k in MUTABLE)]
    mut_kw = [k for k, a in spec.get('kwargs', {}).items() if isinstance(a, dict) and any(m in a for m in MUTABLE)]
    before = {('a', i): dkey(args[i]) for i in mut_idx}
    before.update({('k', k): dkey(kwargs[k]) for k in mut_kw})
    try:
        if fn.startswith('method:'):
            res = getattr(args[0], fn.split(':')[1])(*args[1:], **kwargs)
        elif fn == 'op:neg':
            res = -args[0]
        elif fn == 'op:add':
            res = args[0] + args[1]
        elif fn.startswith('angleop:'):
            import operator
            res = getattr(operator, fn.split(':')[1])(args[0], args[1])
        else:
            mod, name = fn.split('.')
            res = getattr(getattr(ns, mod), name)(*args, **kwargs)
    except Exception as e:
        res = e
    mutated = [str(k) for k, v in before.items() if dkey(args[k[1]] if k[0] == 'a' else kwargs[k[1]]) != v]
    key = dkey(res)
    shared = caller_edits_result(ns, res)
    return key, mutated, len(before), shared


def catalogue_ids(ns):
    C = ns.constants
    key = id(C.Transformation)
    if _GRID.get('cat_key') != key:
        classes = (C.Ellipsoid, C.Projection, C.Transformation, C.TransformationSD)
        _GRID['cat_ids'] = {id(v): k for k, v in vars(C).items() if isinstance(v, classes)}
        _GRID['cat_key'] = key
    return _GRID['cat_ids']


def caller_edits_result(ns, res):
    """What a caller may do with what a call handed back: the result is the caller's own, so after its digest has been
    taken it is edited in place (array elements, list items, the top-level fields of a returned parameter set, angle or
    coordinate object).  Nothing of that may reach the library: later calls in the history are still compared with the
    fresh-interpreter results, the catalogue with its snapshot.  A shipped constant handed back as the result is not
    edited (that would corrupt everything after it) but reported by name.  The uncertainty object a derived parameter
    set refers to is left alone: the library documents it as shared with the set it was derived from."""
    cat = catalogue_ids(ns)
    C = ns.constants
    shared = []
    items = list(res) if isinstance(res, (tuple, list)) else [res]
    for it in items:
        if id(it) in cat:
            shared.append(cat[id(it)])
            continue
        try:
            if isinstance(it, np.ndarray):
                if it.size and it.flags.writeable and it.dtype.kind in 'fiu':
                    it.flat[0] = it.flat[0] + 1
                    it.flat[it.size - 1] = 0
            elif isinstance(it, list):
                if it and isinstance(it[0], (int, float)):
                    it[0] = it[0] + 1.0
                it.append(0.125)
            elif isinstance(it, dict):
                it['edited-by-caller'] = 1
            elif isinstance(it, C.Transformation):
                for p in ('tx', 'ty', 'tz', 'sc', 'rx', 'ry', 'rz', 'd_tx', 'd_rz'):
                    v = getattr(it, p, None)
                    if isinstance(v, (int, float)):
                        setattr(it, p, v + 0.25)
                it.from_datum = 'EDITED'
            elif type(it).__module__.startswith('geodepy.') and hasattr(it, '__dict__') and not isinstance(it, (float, BaseException)):
                for p, v in list(vars(it).items()):
                    if type(v) in (int, float):
                        try:
                            setattr(it, p, v + 1)
                        except Exception:
                            pass
        except Exception:
            pass
    if isinstance(res, list):
        res.append(0.125)
    return shared


def V(rnd, kind=None):
    rs = np.random.RandomState(rnd.randrange(2 ** 31))
    r = rnd.random()
    if r < 0.15:
        return {'$nd': np.zeros((3, 3)).tolist()}        # a fixed station: exactly zero covariance
    if r < 0.25:
        u = rs.randn(3, 1)
        return {'$nd': (u @ u.T * 1e-4).tolist()}
    if r < 0.40:
        # a VCV that came out of an earlier rotation: symmetric only up to the last bit
        A = rs.randn(3, 3)
        M = A @ A.T * 1e-4
        Q, _ = np.linalg.qr(rs.randn(3, 3))
        return {'$nd': (Q @ M @ Q.T).tolist()}
    A = rs.randn(3, 3)
    M = A @ A.T * 1e-4
    return {'$nd': ((M + M.T) / 2).tolist()}


def degenerate_list(rnd):
    """Observation lists the routine may well refuse: a reading booked twice (anywhere in the list), all readings equal, too
    few readings, none.  A call that raises is still a call: the caller's list must come back as it went in and the outcome
    must repeat."""
    vals = [round(rnd.uniform(88, 100), 4) for _ in range(rnd.randint(3, 6))]
    k = rnd.choice(['repeat-end', 'repeat-any', 'repeat-any', 'all-equal', 'two', 'one', 'empty', 'repeat-twice'])
    if k == 'repeat-end':
        vals.append(vals[-1])
    elif k == 'repeat-any':
        vals.insert(rnd.randrange(len(vals) + 1), rnd.choice(vals))
    elif k == 'repeat-twice':
        vals = vals + [vals[0], vals[1]]
        rnd.shuffle(vals)
    elif k == 'all-equal':
        vals = [vals[0]] * len(vals)
    elif k == 'two':
        vals = vals[:2]
    elif k == 'one':
        vals = vals[:1]
    else:
        vals = []
    return {'$list': vals}


def gen_pool(ns, rnd, size):
    C = ns.constants
    trans = sorted(k for k, v in vars(C).items() if isinstance(v, C.Transformation))
    dated = [k for k in trans if isinstance(getattr(C, k).ref_epoch, datetime.date)]
    with_sd = [k for k in dated if type(getattr(C, k).tf_sd) is C.TransformationSD
               and all(v is not None for v in vars(getattr(C, k).tf_sd).values())]
    static_sd = [k for k in trans if type(getattr(C, k).tf_sd) is C.TransformationSD and k not in dated]
    ells = ['grs80', 'wgs84', 'ans', 'intl24']
    classes = ['DECAngle', 'HPAngle', 'GONAngle', 'DMSAngle', 'DDMAngle']

    def lat():
        return round(rnd.uniform(-79, 83), rnd.choice([4, 8, 11]))

    def lon():
        return round(rnd.uniform(-179, 179), rnd.choice([4, 8, 11]))

    def xyz():
        if rnd.random() < 0.6:
            return list(rnd.choice(POINTS))
        return [rnd.uniform(-5e6, -3e6), rnd.uniform(2e6, 5e6), rnd.uniform(-4.5e6, -1e6)]

    DATES = ['2018-01-01', '2020-01-01', '2031-07-01', '%04d-%02d-%02d' % (rnd.randint(1990, 2040), rnd.randint(1, 12), rnd.randint(1, 28))]
    POINTS = [[-4052051.767, 4212836.215, -2545106.027], [-3753473.196, 3912741.029, -3347959.698],
              [rnd.uniform(-5e6, -3e6), rnd.uniform(2e6, 5e6), rnd.uniform(-4.5e6, -1e6)]]

    def date():
        # few distinct dates: different sets meet at the same epoch, the same set at different epochs
        if rnd.random() < 0.7:
            return {'$date': rnd.choice(DATES)}
        return {'$date': '%04d-%02d-%02d' % (rnd.randint(1990, 2040), rnd.randint(1, 12), rnd.randint(1, 28))}

    def ell():
        return {'$ell': rnd.choice(ells)}
    gens = [
        lambda: {'fn': 'convert.geo2grid', 'args': [lat(), lon(), 0, ell()]},
        lambda: {'fn': 'convert.geo2grid', 'args': [{'$angle': [rnd.choice(classes), lat()]}, {'$angle': [rnd.choice(classes), lon()]}]},
        lambda: {'fn': 'convert.geo2grid', 'args': [rnd.uniform(-40, -25), rnd.uniform(141, 153), 0, {'$ell': 'ans'}, {'$prj': 'isg'}]},
        lambda: {'fn': 'convert.grid2geo', 'args': [rnd.randint(1, 60), round(rnd.uniform(2e5, 8e5), 3), round(rnd.uniform(1e6, 9e6), 3),
                                                    rnd.choice(['south', 'north']), ell()]},
        lambda: {'fn': 'convert.llh2xyz', 'args': [lat(), lon(), round(rnd.uniform(-100, 9000), 3), ell()]},
        lambda: {'fn': 'convert.xyz2llh', 'args': xyz() + [ell()]},
        lambda: {'fn': 'convert.rect_radius', 'args': [ell()]},
        lambda: {'fn': 'convert.alpha_coeff', 'args': [ell()]},
        lambda: {'fn': 'convert.beta_coeff', 'args': [ell()]},
        lambda: {'fn': 'convert.polar2rect', 'args': [rnd.uniform(0, 1e5), rnd.uniform(0, 360)]},
        lambda: {'fn': 'convert.rect2polar', 'args': [rnd.uniform(-1e5, 1e5), rnd.uniform(-1e5, 1e5)]},
        lambda: {'fn': 'angles.dec2hp', 'args': [rnd.uniform(-360, 360)]},
        lambda: {'fn': 'angles.hp2dec', 'args': [round(rnd.randint(-359, 359) + rnd.randint(0, 59) / 100 + rnd.randint(0, 59) / 10000, 4)]},
        lambda: {'fn': 'angles.dec2dms', 'args': [rnd.uniform(-360, 360)]},
        lambda: {'fn': 'angles.hp2dec_v', 'args': [{'$nd': [round(rnd.randint(0, 359) + rnd.randint(0, 59) / 100, 2) for _ in range(4)]}]},
        lambda: {'fn': 'angles.dec2hp_v', 'args': [{'$nd': [rnd.uniform(-360, 360) for _ in range(4)]}]},
        lambda: {'fn': 'angleop:add', 'args': [{'$angle': [rnd.choice(classes), rnd.uniform(-170, 170)]},
                                               {'$angle': [rnd.choice(classes), rnd.uniform(-170, 170)]}]},
        lambda: {'fn': 'method:dms', 'args': [{'$angle': [rnd.choice(['DECAngle', 'HPAngle', 'GONAngle', 'DDMAngle']), rnd.uniform(-170, 170)]}]},
        lambda: {'fn': 'geodesy.vincinv', 'args': [lat(), lon(), lat(), lon(), ell()]},
        lambda: {'fn': 'geodesy.vincdir', 'args': [lat(), lon(), rnd.uniform(0, 360), rnd.uniform(1, 1e6), ell()]},
        lambda: {'fn': 'geodesy.vincinv_utm', 'args': [55, round(rnd.uniform(2e5, 8e5), 3), round(rnd.uniform(5e6, 7e6), 3),
                                                       55, round(rnd.uniform(2e5, 8e5), 3), round(rnd.uniform(5e6, 7e6), 3)]},
        lambda: {'fn': 'geodesy.vincdir_utm', 'args': [rnd.randint(49, 56), round(rnd.uniform(2e5, 8e5), 3), round(rnd.uniform(5e6, 7e6), 3),
                                                       rnd.uniform(0, 360), rnd.uniform(10, 5e4)]},
        lambda: {'fn': 'geodesy.line_sf', 'args': [55, 3e5, 6e6, 55, 3.1e5 + rnd.uniform(0, 1e4), 6.01e6]},
        lambda: {'fn': 'geodesy.rho', 'args': [lat(), ell()]},
        lambda: {'fn': 'geodesy.nu', 'args': [lat(), ell()]},
        lambda: {'fn': 'geodesy.enu2xyz', 'args': [lat(), lon(), rnd.uniform(-10, 10), rnd.uniform(-10, 10), rnd.uniform(-10, 10)]},
        lambda: {'fn': 'geodesy.xyz2enu', 'args': [lat(), lon(), rnd.uniform(-10, 10), rnd.uniform(-10, 10), rnd.uniform(-10, 10)]},
        lambda: {'fn': 'statistics.rotation_matrix', 'args': [lat(), lon()]},
        lambda: {'fn': 'statistics.vcv_cart2local', 'args': [V(rnd), lat(), lon()]},
        lambda: {'fn': 'statistics.vcv_local2cart', 'args': [V(rnd), lat(), lon()]},
        lambda: {'fn': 'statistics.vcv_local2cart', 'args': [{'$nd': [[1e-4], [2e-4], [rnd.uniform(0, 1e-3)]]}, lat(), lon()]},
        lambda: {'fn': 'statistics.error_ellipse', 'args': [V(rnd)]},
        lambda: {'fn': 'statistics.relative_error', 'args': [lat(), lon(), V(rnd), V(rnd), {'$nd': (np.eye(3) * 1e-6).tolist()}]},
        lambda: {'fn': 'statistics.relative_error', 'args': [lat(), lon(), V(rnd), V(rnd),
                                                             {'$nd': (np.random.RandomState(rnd.randrange(2 ** 31)).randn(3, 3) * 1e-6).tolist()}]},
        lambda: {'fn': 'statistics.vcv_local2cart', 'args': [{'$nd': (np.random.RandomState(rnd.randrange(2 ** 31)).randn(3, 3) * 1e-6).tolist()},
                                                             lat(), lon()]},
        lambda: {'fn': 'statistics.k_val95', 'args': [rnd.randint(-2, 150)]},
        lambda: {'fn': 'statistics.circ_hz_pu', 'args': [rnd.uniform(0.01, 0.1), rnd.uniform(0.001, 0.01)]},
        lambda: {'fn': 'survey.first_vel_params', 'args': [rnd.uniform(0.5, 1.0), rnd.uniform(1e7, 5e7)]},
        lambda: {'fn': 'survey.first_vel_corrn', 'args': [rnd.uniform(10, 5000), {'$list': [281.781, 79.393]}, rnd.uniform(-10, 40),
                                                          rnd.uniform(900, 1050), rnd.uniform(0, 100)]},
        lambda: {'fn': 'survey.first_vel_corrn', 'args': [rnd.uniform(10, 5000), {'$list': [281.781, 79.393]}, rnd.uniform(-10, 40),
                                                          rnd.uniform(900, 1050), rnd.uniform(0, 100)],
                 'kwargs': {'CO2_ppm': rnd.uniform(350, 500), 'wavelength': 0.85}},
        lambda: {'fn': 'survey.precise_inst_ht', 'args': [{'$list': [round(rnd.uniform(88, 100), 4) for _ in range(rnd.randint(3, 7))]},
                                                          0.1, 0.3]},
        lambda: {'fn': 'survey.precise_inst_ht', 'args': [degenerate_list(rnd), 0.1, 0.3], 'degenerate': True},
        lambda: {'fn': 'survey.precise_inst_ht', 'args': [degenerate_list(rnd), rnd.choice([0.1, 0.0]), rnd.choice([0.3, 0.1])], 'degenerate': True},
        # other calls the library refuses: what the caller handed over must come back untouched and the refusal must repeat
        lambda: {'fn': 'angles.hp2dec_v', 'args': [{'$nd': [12.3045, rnd.choice([45.6, 10.0075, -3.6]), 359.5959, 45.0]}], 'degenerate': True},
        lambda: {'fn': rnd.choice(['statistics.vcv_cart2local', 'statistics.vcv_local2cart']),
                 'args': [{'$nd': rnd.choice([[[1e-4, 0.0], [0.0, 2e-4]], [[1e-4, 2e-4, 3e-4]], [1e-4, 2e-4, 3e-4], []])}, lat(), lon()], 'degenerate': True},
        lambda: {'fn': 'survey.first_vel_corrn', 'args': [rnd.uniform(10, 5000), {'$list': rnd.choice([[281.781], [], [281.781, 79.393, 1.0]])},
                                                          rnd.uniform(-10, 40), rnd.uniform(900, 1050), rnd.uniform(0, 100)], 'degenerate': True},
        lambda: {'fn': 'convert.geo2grid', 'args': [{'$angle': [rnd.choice(classes), rnd.choice([84.5, -80.5, 91.0])]},
                                                    {'$angle': [rnd.choice(classes), lon()]}], 'degenerate': True},
        lambda: {'fn': 'statistics.error_ellipse', 'args': [{'$nd': rnd.choice([[[1e-4, 0.0], [0.0, 2e-4]], [[-1e-4, 0, 0], [0, -2e-4, 0], [0, 0, 1e-4]], []])}],
                 'degenerate': True},
        lambda: {'fn': 'survey.va_conv', 'args': [rnd.uniform(60, 120), rnd.uniform(1, 1000), 1.5, 1.7]},
        lambda: {'fn': 'survey.radiations', 'args': [rnd.uniform(0, 1e6), rnd.uniform(0, 1e7), rnd.uniform(0, 360), rnd.uniform(0, 1e4)]},
        lambda: {'fn': 'survey.joins', 'args': [rnd.uniform(0, 1e6), rnd.uniform(0, 1e7), rnd.uniform(0, 1e6), rnd.uniform(0, 1e7)]},
        lambda: {'fn': 'survey.mets_partial_differentials', 'args': []},
        lambda: {'fn': 'survey.refractivity_constants', 'args': []},
        lambda: {'fn': 'survey.part_h2o_vap_press', 'args': [rnd.uniform(-10, 40), rnd.uniform(900, 1050)],
                 'kwargs': rnd.choice([{'rel_humidity': rnd.uniform(0, 100)}, {'wet_temp': rnd.uniform(-12, -10)}])},
        lambda: {'fn': 'survey.humidity2part_water_vapour_press', 'args': [rnd.uniform(0, 100), rnd.uniform(-10, 40)]},
        lambda: {'fn': 'convert.date_to_yyyydoy', 'args': [date()]},
        lambda: {'fn': 'convert.yyyydoy_to_date', 'args': ['%04d.%03d' % (rnd.randint(1990, 2040), rnd.randint(1, 365))]},
        lambda: {'fn': rnd.choice(['angles.dec2hpa', 'angles.dec2gon', 'angles.dec2gona', 'angles.dec2ddm', 'angles.dd2sec', 'angles.gon2dec',
                                   'angles.gon2hp', 'angles.gon2dms', 'angles.gon2rad', 'angles.gon2deca', 'angles.gon2hpa', 'angles.gon2ddm']),
                 'args': [rnd.uniform(-360, 360)]},
        lambda: {'fn': rnd.choice(['angles.hp2deca', 'angles.hp2rad', 'angles.hp2gon', 'angles.hp2gona', 'angles.hp2dms', 'angles.hp2ddm']),
                 'args': [round(rnd.randint(-359, 359) + rnd.randint(0, 59) / 100 + rnd.randint(0, 59) / 10000, 4)]},
        # element-wise use with the readings of several set-ups held in arrays (1-D and 0-d): caller-owned arrays
        lambda: {'fn': rnd.choice(['survey.phase_refractivity', 'survey.group_refractivity']),
                 'args': [rnd.choice([0.85, 0.6328, {'$nd': [0.85, 0.6328, 0.9]}]), rnd.choice([rnd.uniform(-10, 40), {'$nd': [12.5, 20.0, 31.0]}]),
                          {'$nd': [1003.2, 1013.25, 947.6]}, {'$nd': [10.1, 12.0, 7.7]}, rnd.choice([420, 400.0, {'$nd': [420.0, 410.0, 500.0]}])]},
        lambda: {'fn': rnd.choice(['survey.phase_refractivity', 'survey.group_refractivity']),
                 'args': [0.85, rnd.uniform(-10, 40), {'$nd': rnd.uniform(900, 1050)}, {'$nd': rnd.uniform(0, 30)}]},
        lambda: {'fn': 'survey.first_vel_corrn', 'args': [{'$nd': [1000.0, 2500.5]}, {'$list': [281.781, 79.393]}, rnd.uniform(-10, 40),
                                                          {'$nd': [1003.2, 947.6]}, rnd.uniform(0, 100)],
                 'kwargs': {'CO2_ppm': rnd.uniform(350, 500), 'wavelength': 0.85}},
        lambda: {'fn': 'survey.radiations', 'args': [{'$nd': [1000.0, 2000.0]}, {'$nd': [5000.0, 6000.0]}, rnd.uniform(0, 360), {'$nd': [10.0, 250.5]}]},
        lambda: {'fn': 'convert.polar2rect', 'args': [{'$nd': [1.0, 2.5, 1000.0]}, rnd.uniform(0, 360)]},
        lambda: {'fn': 'angles.dec2hp_v', 'args': [{'$nd': [rnd.uniform(-360, 360) for _ in range(4)]}]},
        lambda: {'fn': 'angles.hp2dec_v', 'args': [{'$nd': [12.3045, -0.0001, 359.5959, 45.0]}]},
        lambda: {'fn': 'ntv2reader.interpolate_ntv2', 'args': [{'$grid': 1}] + list(grid_points(rnd)) + [rnd.choice(['bilinear', 'bicubic'])]},
        lambda: {'fn': 'ntv2reader.interpolate_ntv2', 'args': [{'$grid': 1}] + list(grid_points(rnd)) + [rnd.choice(['bilinear', 'bicubic'])]},
        lambda: {'fn': 'transform.ntv2_2d', 'args': [{'$grid': 1}] + list(grid_points(rnd)) + [rnd.random() < 0.5, rnd.choice(['bilinear', 'bicubic'])]},
        lambda: {'fn': 'transform.conform7', 'args': xyz() + [{'$trans': rnd.choice(trans)}]},
        lambda: {'fn': 'transform.conform7', 'args': xyz() + [{'$neg': rnd.choice(trans)}]},
        lambda: {'fn': 'transform.conform7', 'args': xyz() + [{'$trans': rnd.choice(static_sd)}, V(rnd)]},
        lambda: {'fn': 'transform.conform7', 'args': xyz() + [{'$neg': rnd.choice(static_sd)}, V(rnd)]},
        lambda: {'fn': 'transform.conform14', 'args': xyz() + [date(), {'$trans': rnd.choice(dated)}]},
        lambda: {'fn': 'transform.conform14', 'args': xyz() + [date(), {'$neg': rnd.choice(dated)}]},
        lambda: {'fn': 'transform.conform14', 'args': xyz() + [date(), {'$trans': rnd.choice(with_sd)}, V(rnd)]},
        lambda: {'fn': 'transform.conform14', 'args': xyz() + [date(), {'$neg': rnd.choice(with_sd)}, V(rnd)]},
        lambda: {'fn': 'transform.transform_atrf2014_to_gda2020', 'args': xyz() + [date()]},
        lambda: {'fn': 'transform.transform_atrf2014_to_gda2020', 'args': xyz() + [date()], 'kwargs': {'vcv': V(rnd)}},
        lambda: {'fn': 'transform.transform_gda2020_to_atrf2014', 'args': xyz() + [date()], 'kwargs': {'vcv': V(rnd)}},
        lambda: {'fn': 'transform.transform_mga94_to_mga2020', 'args': [rnd.randint(49, 56), round(rnd.uniform(2e5, 8e5), 3),
                                                                        round(rnd.uniform(5e6, 8e6), 3), round(rnd.uniform(0, 900), 3)]},
        lambda: {'fn': 'transform.transform_mga94_to_mga2020', 'args': [rnd.randint(49, 56), round(rnd.uniform(2e5, 8e5), 3),
                                                                        round(rnd.uniform(5e6, 8e6), 3), round(rnd.uniform(0, 900), 3)],
                 'kwargs': {'vcv': V(rnd)}},
        lambda: {'fn': 'transform.transform_mga2020_to_mga94', 'args': [rnd.randint(49, 56), round(rnd.uniform(2e5, 8e5), 3),
                                                                        round(rnd.uniform(5e6, 8e6), 3)], 'kwargs': {'vcv': V(rnd)}},
        lambda: {'fn': 'op:neg', 'args': [{'$trans': rnd.choice(trans)}]},
        lambda: {'fn': 'op:add', 'args': [{'$trans': rnd.choice(dated)}, date()]},
        lambda: {'fn': 'op:add', 'args': [{'$trans': rnd.choice(with_sd)}, date()]},
        # a set re-referenced to the epoch it is already at, and used there
        lambda: (lambda k: {'fn': 'op:add', 'args': [{'$trans': k}, {'$date': getattr(C, k).ref_epoch.isoformat()}]})(rnd.choice(dated)),
        lambda: (lambda k: {'fn': 'op:add', 'args': [{'$trans': k}, {'$date': getattr(C, k).ref_epoch.isoformat()}]})(rnd.choice(with_sd)),
        lambda: (lambda k: {'fn': 'transform.conform14', 'args': xyz() + [{'$date': getattr(C, k).ref_epoch.isoformat()}, {'$trans': k}, V(rnd)]})(rnd.choice(with_sd)),
        lambda: {'fn': 'method:cart', 'args': [{'$geo': [rnd.choice(classes), lat(), lon(), rnd.choice([None, 0.0, 35.5]), rnd.choice([None, 0.0, 20.25])]},
                                               ell()]},
        lambda: {'fn': 'method:tm', 'args': [{'$geo': [rnd.choice(classes), lat(), lon(), 10.0, None]}, ell()]},
        lambda: {'fn': 'method:notation', 'args': [{'$geo': [rnd.choice(classes), lat(), lon(), None, None]}, {'$cls': rnd.choice(classes + ['float'])}]},
        lambda: {'fn': 'method:geo', 'args': [{'$cart': xyz() + [rnd.choice([None, 0.0, 12.5])]}, ell()]},
        lambda: {'fn': 'method:geo', 'args': [{'$tm': [rnd.randint(49, 56), round(rnd.uniform(2e5, 8e5), 3), round(rnd.uniform(5e6, 8e6), 3),
                                                       5.0, None, False, 'utm']}]},
    ]
    pool = []
    # every generator at least once, then random
    for g in gens:
        pool.append(g())
    # constants that share direction labels and reference epoch, at the same dates and the same point
    groups = {}
    for k in dated:
        t = getattr(C, k)
        groups.setdefault((str(t.from_datum), str(t.to_datum), str(t.ref_epoch)), []).append(k)
    for g in [g for g in groups.values() if len(g) > 1]:
        for k in g:
            for d in DATES[:2]:
                pool.append({'fn': 'transform.conform14', 'args': list(POINTS[0]) + [{'$date': d}, {'$trans': k}]})
                pool.append({'fn': 'op:add', 'args': [{'$trans': k}, {'$date': d}]})
    # the same ellipsoid constants through ellipsoids that agree in 1/f but not in a, and the same call on two ellipsoids
    for e in (['grs80'], [[6378135.0, 298.257222101]], ['ans'], [[6378145.0, 298.25]]):
        pool.append({'fn': 'convert.geo2grid', 'args': [-33.25, 151.5, 0, {'$ell': e[0]}]})
        pool.append({'fn': 'convert.grid2geo', 'args': [56, 350000.0, 6300000.0, 'south', {'$ell': e[0]}]})
        pool.append({'fn': 'convert.llh2xyz', 'args': [-33.25, 151.5, 100.0, {'$ell': e[0]}]})
        pool.append({'fn': 'geodesy.vincdir', 'args': [-33.25, 151.5, 45.0, 250000.0, {'$ell': e[0]}]})
    while len(pool) < size:
        pool.append(rnd.choice(gens)())
    return pool         # every generator once and every fixed group entry, whatever `size` says (never truncated)


# ---------------------------------------------------------------------------------------------
# golden worker: fresh interpreter, full reload before every call
# ---------------------------------------------------------------------------------------------
def golden_main(specfile, outfile):
    specs = json.load(open(specfile))
    ns = core.load_repo()
    out = []
    for sp in specs:
        for m in MODS:
            importlib.reload(sys.modules['geodepy.' + m])
        ns = core.load_repo()
        for m in MODS:
            setattr(ns, m, sys.modules['geodepy.' + m])
        out.append(run_call(ns, sp)[0])
    json.dump(out, open(outfile, 'w'))


def golden(pool):
    with tempfile.TemporaryDirectory(prefix='vmon-c09-') as tmp:
        sf, of = os.path.join(tmp, 'specs.json'), os.path.join(tmp, 'out.json')
        json.dump(pool, open(sf, 'w'))
        env = dict(os.environ)
        p = subprocess.run([sys.executable, '-m', 'vmon.props.c09', '--golden', sf, of], env=env, capture_output=True, text=True,
                           timeout=3600, cwd=core.VERIF_ROOT)
        if p.returncode != 0 or not os.path.exists(of):
            raise core.Inconclusive('golden interpreter failed: %s' % (p.stderr or '')[-600:])
        return json.load(open(of))


# ---------------------------------------------------------------------------------------------
# write barrier and catalogue snapshot
# ---------------------------------------------------------------------------------------------
class Barrier:
    def __init__(self, ns):
        C = ns.constants
        self.classes = (C.Ellipsoid, C.Projection, C.Transformation, C.TransformationSD)
        self.names = {}
        for k, v in vars(C).items():
            if isinstance(v, self.classes):
                self.names[id(v)] = k
                sd = getattr(v, 'tf_sd', None)
                if sd is not None and id(sd) not in self.names:
                    self.names[id(sd)] = k + '.tf_sd'
        self.keep = [v for v in vars(C).values() if isinstance(v, self.classes)]       # keep ids alive
        self.log = []
        self.lock = threading.Lock()
        self.events = 0
        bar = self

        def mk_set():
            def __setattr__(self_, name, value):
                n = bar.names.get(id(self_))
                if n is not None:
                    old = self_.__dict__.get(name, '<unset>')
                    with bar.lock:
                        bar.events += 1
                        same = (old == value) or (isinstance(old, float) and isinstance(value, float) and old != old and value != value)
                        if not same:
                            bar.log.append((threading.get_ident(), n, type(self_).__name__, name, repr(old), repr(value)))
                object.__setattr__(self_, name, value)
            return __setattr__

        def mk_del():
            def __delattr__(self_, name):
                n = bar.names.get(id(self_))
                if n is not None:
                    with bar.lock:
                        bar.events += 1
                        bar.log.append((threading.get_ident(), n, type(self_).__name__, name, 'deleted', ''))
                object.__delattr__(self_, name)
            return __delattr__
        for cls in self.classes:
            cls.__setattr__ = mk_set()
            cls.__delattr__ = mk_del()

    def snapshot(self, ns):
        C = ns.constants
        return {k: dkey(v) for k, v in vars(C).items() if isinstance(v, self.classes) or isinstance(v, (int, float))}

    def take(self):
        with self.lock:
            l, self.log = self.log, []
        return l


class YieldInjector:
    """sys.monitoring LINE events inside the anchored functions: each event yields the GIL (sleep(0)) and records whether
    the previous event came from another thread (an observed context switch at that statement)."""
    TOOL = 4

    def __init__(self, ns, wide=False):
        import types
        self.codes = {}
        for fn, lab in ((ns.constants.Transformation.__add__, 'Transformation.__add__'),
                        (ns.constants.Transformation.__neg__, 'Transformation.__neg__'),
                        (ns.transform.conform7, 'conform7'), (ns.transform.conform14, 'conform14')):
            self.codes[getattr(fn, '__wrapped__', fn).__code__] = lab
        if wide:
            # every function and method defined in the library's computational modules (not only the anchored ones):
            # a race through any module-level scratch state needs a yield inside that function to show
            for mname in ('constants', 'convert', 'geodesy', 'transform', 'statistics', 'survey', 'coord'):
                mod = getattr(ns, mname)
                for k, v in vars(mod).items():
                    if isinstance(v, types.FunctionType) and v.__module__ == mod.__name__:
                        self.codes.setdefault(v.__code__, mname + '.' + k)
                    elif isinstance(v, type) and v.__module__ == mod.__name__:
                        for kk, vv in vars(v).items():
                            if isinstance(vv, types.FunctionType):
                                self.codes.setdefault(vv.__code__, '%s.%s.%s' % (mname, k, kk))
        self.last = None
        self.switch_sites = set()
        self.switches = 0
        self.events = 0

    def start(self):
        mon = sys.monitoring
        try:
            mon.use_tool_id(self.TOOL, 'vmon-yield')
        except ValueError:
            pass

        def on_line(code, line):
            t = threading.get_ident()
            self.events += 1
            if self.last is not None and self.last != t:
                self.switches += 1
                self.switch_sites.add((self.codes.get(code), line))
            self.last = t
            time.sleep(0)
        mon.register_callback(self.TOOL, mon.events.LINE, on_line)
        for c in self.codes:
            mon.set_local_events(self.TOOL, c, mon.events.LINE)

    def stop(self):
        mon = sys.monitoring
        for c in self.codes:
            mon.set_local_events(self.TOOL, c, 0)
        mon.register_callback(self.TOOL, mon.events.LINE, None)
        try:
            mon.free_tool_id(self.TOOL)
        except Exception:
            pass


# ---------------------------------------------------------------------------------------------
def fn_of(spec):
    return spec['fn']


def check_history(ns, ctx, bar, pool, gold, idxs, threads=0, inj=None, interleave=None):
    mode = 'threaded' if threads else ('interleaved' if interleave else 'sequential')
    snap0 = bar.snapshot(ns)
    ctx.count('catalogue_snapshots')
    bar.take()
    results = [None] * len(idxs)

    def work(positions):
        for p in positions:
            if interleave:
                # a second thread makes another call of the pool (same function when the pool has one) while this call
                # waits at its k-th statement boundary inside the library: a chosen schedule instead of a hoped-for one
                k, tw = interleave[p]
                results[p] = core.interleaved(ctx, k, lambda: run_call(ns, tw), lambda: run_call(ns, pool[idxs[p]]))
            else:
                results[p] = run_call(ns, pool[idxs[p]])
    if threads:
        parts = [list(range(i, len(idxs), threads)) for i in range(threads)]
        old = sys.getswitchinterval()
        sys.setswitchinterval(1e-6)
        if inj:
            inj.start()
        try:
            ths = [threading.Thread(target=work, args=(pt,)) for pt in parts]
            for t in ths:
                t.start()
            for t in ths:
                t.join()
        finally:
            if inj:
                inj.stop()
            sys.setswitchinterval(old)
    else:
        work(range(len(idxs)))
    case = {'pool_indices': idxs, 'threads': threads, 'calls': [pool[i] for i in idxs][:60]}
    if interleave:
        case['interleave'] = [list(x) for x in interleave][:60]
    seen = set()
    for pos, i in enumerate(idxs):
        ctx.judged()
        sp = pool[i]
        if i in seen:
            ctx.count('repeated_identical_calls')
        seen.add(i)
        if sp.get('degenerate'):
            ctx.count('calls_with_degenerate_list')
        if any(isinstance(a, dict) and '$nd' in a for a in sp['args'][3:]) or 'vcv' in sp.get('kwargs', {}):
            ctx.count('calls_with_covariance')
        ctx.bucket(mode, sp['fn'], json.dumps(sp['args'][-2:], sort_keys=True)[:60])
        res, mutated, nmut, shared = results[pos]
        ctx.count('mutable_arguments_checked', nmut)
        ctx.count('results_edited_by_caller')
        if shared:
            ctx.violation('result-is-shipped-constant:%s' % sp['fn'], {'history': case, 'position': pos}, {'call': sp, 'constants': shared})
        if res != gold[i]:
            ctx.violation('result-differs-from-fresh-interpreter:%s#%s' % (sp['fn'], mode),
                          {'history': case, 'position': pos}, {'call': sp, 'got': json.loads(res), 'golden': json.loads(gold[i])})
        if mutated:
            ctx.violation('argument-mutated:%s' % sp['fn'], {'history': case, 'position': pos}, {'call': sp, 'arguments': mutated})
    writes = bar.take()
    if writes:
        by = {}
        for w in writes:
            by.setdefault((w[2], w[1].split('.')[-1] == 'tf_sd'), []).append(w)
        for (cls, _), ws in by.items():
            ctx.violation('catalogue-write:%s#%s' % (cls, mode), {'history': case},
                          {'writes': [list(w[1:]) for w in ws[:6]], 'count': len(ws)})
    snap1 = bar.snapshot(ns)
    if snap1 != snap0:
        changed = sorted(k for k in snap0 if snap1.get(k) != snap0[k])
        ctx.violation('catalogue-changed-after-history#%s' % mode, {'history': case}, {'constants': changed[:10]})


def run_shard(spec, ctx):
    ns = core.load_repo()
    bar = Barrier(ns)
    rnd = random.Random('%s-%s-%s' % (ID, spec['seed'], spec['shard']))
    pool = gen_pool(ns, rnd, spec['pool'])
    gold = golden(pool)
    ctx.info['pool_size'] = len(pool)
    ctx.info['functions_in_pool'] = sorted({fn_of(p) for p in pool})
    inj = YieldInjector(ns)
    inj_wide = YieldInjector(ns, wide=True)
    for h in range(spec['histories']):
        n = rnd.randint(1, 50)
        idxs = [rnd.randrange(len(pool)) for _ in range(n)]
        if rnd.random() < 0.5 and n >= 3:       # repeated identical calls
            j = rnd.randrange(len(pool))
            for k in rnd.sample(range(n), min(n, rnd.randint(2, 4))):
                idxs[k] = j
        ctx.count('histories')
        if h < 1:
            ctx.sample({'history_of': [pool[i]['fn'] for i in idxs[:12]], 'length': n})
        check_history(ns, ctx, bar, pool, gold, idxs)
    # interleaved: every call of a sequential history gets a twin call (same function, other arguments, when the pool has
    # one) at a statement boundary of its own
    by_fn = {}
    for i, p in enumerate(pool):
        by_fn.setdefault(fn_of(p), []).append(i)
    for h in range(max(4, spec['histories'])):
        n = rnd.randint(4, 40)
        idxs = [rnd.randrange(len(pool)) for _ in range(n)]
        plan_ = []
        for i in idxs:
            same = [j for j in by_fn[fn_of(pool[i])] if j != i]
            plan_.append((rnd.randint(1, 999), pool[rnd.choice(same) if same and rnd.random() < 0.8 else rnd.randrange(len(pool))]))
        ctx.count('interleaved_histories')
        check_history(ns, ctx, bar, pool, gold, idxs, interleave=plan_)
    # threaded: weight the transformation calls, which share the catalogue objects
    tf = [i for i, p in enumerate(pool) if p['fn'].startswith('transform.') or p['fn'].startswith('op:')]
    for h in range(spec['threaded']):
        n = rnd.randint(8, 50)
        idxs = [rnd.choice(tf) if rnd.random() < 0.7 else rnd.randrange(len(pool)) for _ in range(n)]
        ctx.count('threaded_histories')
        if h % 2:
            # wide injection: yields at every statement of every library function; any call may be interleaved
            idxs = [rnd.randrange(len(pool)) for _ in range(rnd.randint(6, 24))]
            check_history(ns, ctx, bar, pool, gold, idxs, threads=rnd.randint(2, 6), inj=inj_wide)
        else:
            check_history(ns, ctx, bar, pool, gold, idxs, threads=rnd.randint(2, 8), inj=inj)
    ctx.counters['context_switches_observed'] += inj.switches + inj_wide.switches
    ctx.info['yield_injection'] = {'line_events': inj.events + inj_wide.events, 'context_switches': inj.switches + inj_wide.switches,
                                   'distinct_switch_sites': len(inj.switch_sites | inj_wide.switch_sites),
                                   'functions_with_injected_yields': len(inj_wide.codes)}
    ctx.info['barrier_events_total'] = bar.events


def replay(case, ctx):
    ns = core.load_repo()
    bar = Barrier(ns)
    h = case['history']
    pool = h['calls']
    gold = golden(pool)
    inj = YieldInjector(ns) if h.get('threads') else None
    il = [tuple(x) for x in h['interleave']] if h.get('interleave') else None
    if il and len(il) < len(pool):
        pool = pool[:len(il)]
        gold = gold[:len(il)]
    check_history(ns, ctx, bar, pool, gold, list(range(len(pool))), threads=h.get('threads', 0), inj=inj, interleave=il)


if __name__ == '__main__':
    if len(sys.argv) >= 4 and sys.argv[1] == '--golden':
        golden_main(sys.argv[2], sys.argv[3])
