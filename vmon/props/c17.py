"""C17 NTv2 grid files are read faithfully and interpolated only from the right nodes."""
import builtins
import math
import os
import random
import tempfile
from fractions import Fraction

from .. import core
from ..oracles import ntv2 as nx

ID = 'C17'
TITLE = 'NTv2 reader / interpolation / ntv2_2d'
LEVEL = 'exploration'
TECHNIQUE = ('runtime monitoring: I/O trace monitor (a file proxy injected as module-global `open` of the live '
             'geodepy.ntv2reader logs every seek/read) plus reference-model monitor (synthetic NTv2 files written from a '
             'model with float32-exact polynomial fields; node addressing model; exact expected values); the I/O trace names the mechanism of a wrong value, the values decide')
RULE = ('each case = one synthetic NTv2 file (1..4 sub-grids in random file order: single, nested child/grandchild, disjoint '
        'and adjacent siblings, child touching the parent edge, two disjoint parents; 3..60 rows/cols; increments 30"..3600" '
        'from the standard list incl. 37.5/112.5 and random 0.001"/1e-6" multiples; extents at whole degrees, whole '
        'arc-seconds and 0.001", both hemispheres and both longitude signs, straddling 0; four random dyadic polynomial '
        'fields per sub-grid) read with read_ntv2_file and queried at positions on nodes, cell edges, interiors, the '
        'outermost and second ring of cells, +/-1e-9 deg of every extent edge and corner, exactly on edges, and outside; '
        'every position with both methods through interpolate_ntv2 and once through ntv2_2d (forward/reverse rotating). '
        'Judged per call: metadata; values against the exact blend / node value / polynomial truth of the finest containing '
        'sub-grid (every sub-grid has its own fields, so nodes taken from anywhere else show in the values) with '
        '1e-6 + 1e-6*(change across the cell); None + ValueError outside; sign and unit of the applied shifts.  The byte ranges '
        'read (I/O trace: the 4/16 nodes around the query inside one node block?) name the mechanism of a wrong value and are '
        'counted as evidence otherwise. '
        'non-trivial = the call was judged on at least one clause; distinct = (layout, sub-grids, role of the serving '
        'sub-grid, query class, method, hemisphere, size class) buckets')
ASSUMPTIONS = ['ntv2_synth writer/addressing model (validated per file: bytes at the arithmetically computed offsets decode '
               'to the model; float32 exactness of every node; fixed check values of the model arithmetic)',
               'CREATED/UPDATED are written as DDMMYYYY, the only date form the reader accepts; GS_TYPE is SECONDS',
               'a polynomial in the node index is the same-degree polynomial in latitude/longitude; "change across one cell" '
               '= bound of |df/di| + bound of |df/dj| on the cell',
               'a query within 4 ulp of an extent edge is a don\'t-care for inclusion, except exactly on the south / east limit with numbers that are exact in degrees and arc-seconds alike (the limits belong to the extents: inside); the half-open north/west edge is '
               'accepted either way; a query within 1e-9 cell of a grid line may be served from either adjacent cell',
               'overlapping sub-grids in the workload always differ in spacing (children are finer in both directions)']
REQUIRED_COUNTERS = ['metadata_files', 'metadata_subgrids', 'io_trace_judged', 'bilinear_blend_judged',
                     'bilinear_node_judged', 'linear_field_judged:bilinear', 'linear_field_judged:bicubic',
                     'bicubic_interior_judged', 'bicubic_node_judged', 'bicubic_second_ring_judged', 'bicubic_ring_seen',
                     'bicubic_ring_value_ok',
                     'outside_none_judged', 'outside_2d_raised', 'probe_inside_judged', 'probe_outside_judged',
                     'overlap_finest_judged', 'overlap_touching_edge_judged', 'overlap_grandchild_judged',
                     'siblings_judged', 'edge_dont_care_seen', 'exactly_on_south_or_east_limit_judged_as_inside', 'ntv2_2d_forward_judged', 'ntv2_2d_reverse_judged',
                     'ntv2_2d_sign_decisive', 'oracle_file_selfchecks']
REQUIRED_MONITORS = ['interpolate_ntv2']


FILES = {'quick': 4, 'thorough': 47}         # per shard: 16 x 4 = 64 files, 32 x 47 = 1504 files
QUERIES = {'quick': 400, 'thorough': 1000}   # positions per file (each: bilinear + bicubic + one ntv2_2d call)
MINI = {'quick': 40, 'thorough': 250}        # per shard: additional small files (header-arithmetic sweep), 24 positions each
MINI_Q = 24
SHARDS = {'quick': 16, 'thorough': 32}
SHARD_TIMEOUT = {'quick': 1800, 'thorough': 3 * 3600}

STD_INCS = [30, 37.5, 45, 60, 90, 112.5, 150, 180, 225, 300, 450, 600, 900, 1800, 3600]
LAYOUTS = ['P', 'P', 'PC', 'PC', 'PCt', 'PCt', 'PP', 'PCG', 'PCC', 'PCCa', 'PCP', 'PCGC', 'PCCP', 'PCtCt', 'PCPC']
ROLE = {'P': 'parent', 'C': 'child', 'G': 'grandchild'}


def plan(tier, seed):
    return [{'files': FILES[tier], 'queries': QUERIES[tier], 'mini': MINI[tier]} for _ in range(SHARDS[tier])]


# ------------------------------------------------------------------------------------------------------
# model generator (workload)
# ------------------------------------------------------------------------------------------------------
class Retry(Exception):
    pass


def _size(rnd):
    t = rnd.random()
    if t < 0.07:
        return 3
    if t < 0.14:
        return 4
    if t < 0.34:
        return rnd.randint(5, 8)
    if t < 0.72:
        return rnd.randint(9, 30)
    if t < 0.90:
        return rnd.randint(31, 58)
    return rnd.choice([59, 60])


def _inc_u(rnd, m, nestable):
    """Increment in 1e-6" such that m cells span a whole number of 0.001"."""
    t = rnd.random()
    if t < 0.6:
        return int(rnd.choice(STD_INCS) * 10 ** 6)
    if t < 0.85 or nestable:
        return rnd.randint(30000, 3600000) * 1000               # any multiple of 0.001"
    step = 1000 // math.gcd(m, 1000)                            # multiples of 1e-6" that still close on 0.001"
    return rnd.randint(-(-30000000 // step), 3600000000 // step) * step


def _origin(rnd, span_mas, lim_mas, cls):
    """South/east extent in 0.001" for a grid spanning span_mas, inside [-lim, lim]."""
    unit = {'deg': 3600000, 'sec': 1000, 'milli': 1}[cls]
    lo, hi = -lim_mas, lim_mas - span_mas
    if hi < lo:
        raise Retry()
    t = rnd.random()
    if t < 0.3:          # negative values only (southern latitudes / EAST longitudes)
        hi2 = min(hi, -span_mas - 1)
        a, b = lo, hi2
    elif t < 0.6:        # positive values only
        a, b = max(lo, 1), hi
    elif t < 0.8:        # straddling zero
        a, b = max(lo, -span_mas + 1), min(hi, -1)
    else:
        a, b = lo, hi
    if b < a:
        a, b = lo, hi
    a2, b2 = -(-a // unit), b // unit
    if b2 < a2:
        raise Retry()
    return rnd.randint(a2, b2) * unit


def _field(rnd, nr, nc, deg):
    terms = {'const': [(0, 0)], 'linear': [(0, 0), (1, 0), (0, 1)], 'bilinear': [(0, 0), (1, 0), (0, 1), (1, 1)],
             'quadratic': [(0, 0), (1, 0), (0, 1), (1, 1), (2, 0), (0, 2)],
             'biquadratic': [(a, b) for a in range(3) for b in range(3)]}[deg]
    s = rnd.choice([3, 5, 7, 9, 11])
    cap = rnd.choice([3, 20, 150, 1200])
    k = [[0, 0, 0] for _ in range(3)]
    for (a, b) in terms:
        mono = (nr - 1) ** a * (nc - 1) ** b
        kmax = min(cap if (a, b) != (0, 0) else 1 << 18, (1 << 18) // mono)
        if kmax >= 1:
            k[a][b] = rnd.randint(-kmax, kmax)
    if deg in ('linear', 'bilinear', 'quadratic', 'biquadratic'):
        for (a, b) in ((1, 0), (0, 1)):
            if k[a][b] == 0:
                k[a][b] = rnd.choice([-1, 1])
    if deg in ('quadratic', 'biquadratic'):
        for (a, b) in ((2, 0), (0, 2)):
            if k[a][b] == 0 and (nr - 1) ** a * (nc - 1) ** b <= (1 << 18):
                k[a][b] = rnd.choice([-1, 1])
    if deg == 'bilinear' and k[1][1] == 0:
        k[1][1] = rnd.choice([-1, 1])
    return {'s': s, 'k': k}


def _fields(rnd, nr, nc):
    f = [_field(rnd, nr, nc, 'biquadratic'), _field(rnd, nr, nc, 'linear'),
         _field(rnd, nr, nc, rnd.choice(['quadratic', 'biquadratic'])),
         _field(rnd, nr, nc, rnd.choice(['const', 'linear', 'bilinear']))]
    r = rnd.random()
    if r < 0.12:
        # a sub-grid whose latitude (or longitude) shift is identically zero, as at the rim of real grids: a value of
        # exactly 0.0 is a shift like any other
        f[rnd.choice([0, 0, 1])]['k'] = [[0, 0, 0] for _ in range(3)]
    elif r < 0.22:
        # shift fields through zero: zero at the first node and along a line of the sub-grid
        f[0]['k'][0][0] = 0
        f[1]['k'][0][0] = 0
    return f


def _name(rnd, used):
    while True:
        n = ''.join(rnd.choice('ABCDEFGHIJKLMNOPQRSTUVWXYZ0123456789_') for _ in range(rnd.randint(1, 8)))
        if n not in used and n != 'NONE':
            used.add(n)
            return n


def _date(rnd):
    return '%02d%02d%04d' % (rnd.randint(1, 28), rnd.randint(1, 12), rnd.randint(1980, 2030))


def _mk(rnd, used, role, parent_name, s_mas, e_mas, lat_u, lon_u, nr, nc):
    sg = {'name': _name(rnd, used), 'parent': parent_name, 'created': _date(rnd), 'updated': _date(rnd), 'role': role,
          's_mas': s_mas, 'e_mas': e_mas, 'lat_inc_u': lat_u, 'lon_inc_u': lon_u, 'nrows': nr, 'ncols': nc,
          'fields': _fields(rnd, nr, nc)}
    nx.n_mas(sg)
    nx.w_mas(sg)
    return sg


def _parent(rnd, used, nestable, small=False):
    nr, nc = (rnd.randint(3, 7), rnd.randint(3, 7)) if small else (_size(rnd), _size(rnd))
    lat_u = _inc_u(rnd, nr - 1, nestable)
    lon_u = lat_u if rnd.random() < 0.4 else _inc_u(rnd, nc - 1, nestable)
    if (nr - 1) * lat_u % 1000 or (nc - 1) * lon_u % 1000:
        raise Retry()
    if nestable and (lat_u < 60000000 or lon_u < 60000000):
        raise Retry()
    cls = rnd.choice(['deg', 'sec', 'milli', 'milli'])
    s = _origin(rnd, (nr - 1) * lat_u // 1000, 324000000, cls)
    e = _origin(rnd, (nc - 1) * lon_u // 1000, 648000000, cls)
    r = rnd.random()
    if r < 0.05:
        e = 648000000 - (nc - 1) * lon_u // 1000          # west limit exactly on the 180 degree meridian (+648000")
    elif r < 0.10:
        e = -648000000                                     # east limit exactly on the 180 degree meridian (-648000")
    sg = _mk(rnd, used, 'parent', 'NONE', s, e, lat_u, lon_u, nr, nc)
    sg['extent_class'] = cls
    return sg


def _window(rnd, n, k, mode, lo=0, hi=None):
    """Window [a, b] of parent node indices within [lo, hi] whose k-fold refinement has 3..60 nodes."""
    hi = n - 1 if hi is None else hi
    hmax = min(59 // k, hi - lo)
    if hmax < 1:
        raise Retry()
    h = rnd.randint(1, hmax)
    if mode == 'lo':
        a = lo
    elif mode == 'hi':
        a = hi - h
    else:
        a = rnd.randint(lo + 1, hi - h - 1) if hi - h - 1 >= lo + 1 else rnd.randint(lo, hi - h)
    return a, a + h


def _ratio(rnd, inc_u):
    ks = [k for k in (2, 2, 3, 4, 5, 6, 8, 10) if inc_u % k == 0 and inc_u // k >= 30000000]
    if not ks:
        raise Retry()
    return rnd.choice(ks)


def _child(rnd, used, par, role, touch, rows=None, cols=None, colmode=None):
    klat = _ratio(rnd, par['lat_inc_u'])
    klon = klat if (rnd.random() < 0.7 and par['lon_inc_u'] % klat == 0 and par['lon_inc_u'] // klat >= 30000000) \
        else _ratio(rnd, par['lon_inc_u'])
    modes = ['mid', 'mid']
    if touch:
        modes = rnd.choice([['lo', 'mid'], ['hi', 'mid'], ['mid', 'lo'], ['mid', 'hi'], ['lo', 'lo'], ['hi', 'hi'],
                            ['lo', 'hi'], ['hi', 'lo']])
    a, b = _window(rnd, par['nrows'], klat, modes[0], *(rows or (0, None)))
    c, d = _window(rnd, par['ncols'], klon, colmode or modes[1], *(cols or (0, None)))
    if (a * par['lat_inc_u']) % 1000 or (c * par['lon_inc_u']) % 1000:
        raise Retry()
    sg = _mk(rnd, used, role, par['name'], par['s_mas'] + a * par['lat_inc_u'] // 1000,
             par['e_mas'] + c * par['lon_inc_u'] // 1000, par['lat_inc_u'] // klat, par['lon_inc_u'] // klon,
             (b - a) * klat + 1, (d - c) * klon + 1)
    sg['touches_parent_edge'] = bool(a == 0 or c == 0 or b == par['nrows'] - 1 or d == par['ncols'] - 1)
    sg['window'] = [a, b, c, d]
    return sg


def _disjoint(a, b):
    return (nx.n_mas(a) < b['s_mas'] or nx.n_mas(b) < a['s_mas'] or nx.w_mas(a) < b['e_mas'] or nx.w_mas(b) < a['e_mas'])


def _build(rnd, lay, small):
    used = set()
    subs = []
    nest = any(ch in lay for ch in 'CG')
    P = _parent(rnd, used, nest, small)
    subs.append(P)
    touch = 't' in lay
    adjacent = 'a' in lay
    seq = [ch for ch in lay[1:] if ch in 'PCG']
    cur_parent, last_child = P, None
    # column bands for disjoint siblings of the first parent
    bands = None
    if lay in ('PCC', 'PCCa', 'PCCP', 'PCtCt'):
        nc = P['ncols']
        if nc < 3:
            raise Retry()
        m = rnd.randint(1, nc - 2)
        bands = [(0, m), (m if adjacent else min(m + rnd.randint(0, 2), nc - 2), nc - 1)]
        if bands[1][1] - bands[1][0] < 1:
            raise Retry()
    ci = 0
    for ch in seq:
        if ch == 'P':
            for _ in range(60):
                Q = _parent(rnd, used, lay == 'PCPC', small)
                if all(_disjoint(Q, s) for s in subs):
                    break
                used.discard(Q['name'])
            else:
                raise Retry()
            subs.append(Q)
            cur_parent = Q
        elif ch == 'C':
            if lay == 'PCGC' and ci == 1:
                # second child of the first parent, disjoint from the first child
                a, b, c, d = subs[1]['window']
                opts = []
                if c >= 1:
                    opts.append((None, (0, c)))
                if d <= P['ncols'] - 2:
                    opts.append((None, (d, P['ncols'] - 1)))
                if a >= 1:
                    opts.append(((0, a), None))
                if b <= P['nrows'] - 2:
                    opts.append(((b, P['nrows'] - 1), None))
                if not opts:
                    raise Retry()
                rows, cols = rnd.choice(opts)
                C = _child(rnd, used, P, 'child', True, rows, cols)
                C['sibling'] = True
                subs[1]['sibling'] = True
            elif bands is not None and cur_parent is P:
                # adjacent siblings really share an edge: both windows are pushed against the common column
                C = _child(rnd, used, P, 'child', touch, None, bands[ci],
                           colmode=(('hi', 'lo')[ci] if adjacent else None))
                C['sibling'] = True
            else:
                C = _child(rnd, used, cur_parent, 'child', touch)
            subs.append(C)
            last_child = C
            ci += 1
        elif ch == 'G':
            G = _child(rnd, used, last_child, 'grandchild', rnd.random() < 0.3)
            subs.append(G)
    # siblings must not overlap (equal or unrelated spacing): verify
    for x in range(len(subs)):
        for y in range(x + 1, len(subs)):
            a, b = subs[x], subs[y]
            if a.get('sibling') and b.get('sibling') and a['parent'] == b['parent']:
                if not (nx.w_mas(a) <= b['e_mas'] or nx.w_mas(b) <= a['e_mas'] or nx.n_mas(a) <= b['s_mas']
                        or nx.n_mas(b) <= a['s_mas']):
                    raise Retry()
    return subs


def gen_model(rnd, lay=None, small=False):
    lay = lay or rnd.choice(LAYOUTS)
    for _ in range(400):
        try:
            subs = _build(rnd, lay, small)
            break
        except (Retry, nx.OracleError):
            continue
    else:
        raise core.Inconclusive('model generator could not build layout %s' % lay)
    order = list(range(len(subs)))
    rnd.shuffle(order)
    model = {'layout': lay, 'gs_type': 'SECONDS', 'version': rnd.choice(['NTv2.0', 'TEST1.0', '1.0.0.0']),
             'system_f': rnd.choice(['AGD66', 'GDA94', 'NAD27', 'A']), 'system_t': rnd.choice(['GDA2020', 'GDA94', 'NAD83', 'B']),
             'major_f': 6377000.0 + rnd.randint(0, 2000000) / 1000.0, 'minor_f': 6356000.0 + rnd.randint(0, 2000000000) / 1e6,
             'major_t': 6378137.0, 'minor_t': 6356752.314140356,
             'subgrids': [subs[k] for k in order]}
    return model


# ------------------------------------------------------------------------------------------------------
# query generator
# ------------------------------------------------------------------------------------------------------
QCLASSES = [('node', 12), ('edge', 10), ('interior', 24), ('dyadic', 4), ('ring', 7), ('second-ring', 10), ('probe', 14),
            ('corner-probe', 4), ('on-edge', 5), ('outside', 7), ('near-node', 3), ('near-zero-value', 5)]
_QC = [c for c, w in QCLASSES for _ in range(w)]


def _pos(sg, fi, fj):
    """Decimal degrees (lat, lon positive east) of fractional index (fi, fj) (Fractions) of a sub-grid."""
    S, _, E, _, dlat, dlon = nx.extents(sg)
    return float((S + fi * dlat) / 3600), float(-(E + fj * dlon) / 3600)


def _rfrac(rnd, lo, hi):
    return Fraction(rnd.uniform(lo, hi))


def gen_query(rnd, model, cls=None):
    subs = model['subgrids']
    k = rnd.randrange(len(subs))
    sg = subs[k]
    nr, nc = sg['nrows'], sg['ncols']
    cls = cls or rnd.choice(_QC)
    if cls == 'node':
        fi, fj = Fraction(rnd.randint(0, nr - 2)), Fraction(rnd.randint(0, nc - 2))
        if rnd.random() < 0.15:
            fi = Fraction(rnd.choice([0, 1, nr - 2, nr - 1]))
        if rnd.random() < 0.15:
            fj = Fraction(rnd.choice([0, 1, nc - 2, nc - 1]))
    elif cls == 'edge':
        if rnd.random() < 0.5:
            fi, fj = Fraction(rnd.randint(0, nr - 2)), _rfrac(rnd, 0, nc - 1)
        else:
            fi, fj = _rfrac(rnd, 0, nr - 1), Fraction(rnd.randint(0, nc - 2))
    elif cls == 'interior':
        fi, fj = _rfrac(rnd, 0, nr - 1), _rfrac(rnd, 0, nc - 1)
    elif cls == 'dyadic':
        fi = rnd.randint(0, nr - 2) + Fraction(rnd.randint(1, 7), 8)
        fj = rnd.randint(0, nc - 2) + Fraction(rnd.randint(1, 7), 8)
    elif cls == 'ring':
        if rnd.random() < 0.5:
            fi, fj = rnd.choice([0, nr - 2]) + _rfrac(rnd, 0, 1), _rfrac(rnd, 0, nc - 1)
        else:
            fi, fj = _rfrac(rnd, 0, nr - 1), rnd.choice([0, nc - 2]) + _rfrac(rnd, 0, 1)
    elif cls == 'second-ring':
        # first cells whose 4x4 stencil is complete: it touches the outermost row/column of nodes
        ri = rnd.choice([1, nr - 3]) if nr >= 4 else 0
        cj = rnd.choice([1, nc - 3]) if nc >= 4 else 0
        t = rnd.random()
        if t < 0.4:
            fi, fj = ri + _rfrac(rnd, 0.001, 0.999), (rnd.randint(1, nc - 3) if nc >= 4 else 0) + _rfrac(rnd, 0.001, 0.999)
        elif t < 0.8:
            fi, fj = (rnd.randint(1, nr - 3) if nr >= 4 else 0) + _rfrac(rnd, 0.001, 0.999), cj + _rfrac(rnd, 0.001, 0.999)
        else:
            fi, fj = ri + _rfrac(rnd, 0.001, 0.999), cj + _rfrac(rnd, 0.001, 0.999)
    elif cls == 'near-zero-value':
        # a position at which one of the four fields is tiny but not zero (1e-7 .. 1e-5 of its unit): on the field's zero
        # contour, which runs through ordinary cell interiors.  Solved from the polynomial: A j^2 + B j + C = v0 on a row.
        fi = fj = None
        for _ in range(30):
            fld = rnd.choice(sg['fields'])
            k_, sc = fld['k'], float(1 << fld['s'])
            i0 = rnd.uniform(0.02, nr - 1.02)
            v0 = rnd.choice([1, -1]) * 10 ** rnd.uniform(-7, -5.1)
            A = sum(k_[a][2] * i0 ** a for a in range(3))
            B = sum(k_[a][1] * i0 ** a for a in range(3))
            C = sum(k_[a][0] * i0 ** a for a in range(3)) - v0 * sc
            roots = []
            if A:
                disc = B * B - 4 * A * C
                if disc >= 0:
                    roots = [(-B + sg_ * math.sqrt(disc)) / (2 * A) for sg_ in (1, -1)]
            elif B:
                roots = [-C / B]
            roots = [x for x in roots if 0.02 < x < nc - 1.02]
            if roots:
                fi, fj = Fraction(i0), Fraction(rnd.choice(roots))
                break
        if fi is None:
            fi, fj = _rfrac(rnd, 0, nr - 1), _rfrac(rnd, 0, nc - 1)
            cls = 'interior'
    elif cls == 'near-node':
        fi = rnd.randint(0, nr - 2) + Fraction(rnd.choice([1, 3, 10, 1000]), 10 ** 7) * rnd.choice([1, -1])
        fj = rnd.randint(0, nc - 2) + Fraction(rnd.choice([1, 3, 10, 1000]), 10 ** 7) * rnd.choice([1, -1])
        fi, fj = max(fi, Fraction(0)), max(fj, Fraction(0))
    elif cls in ('probe', 'corner-probe', 'on-edge'):
        S, N, E, W, dlat, dlon = nx.extents(sg)
        lat = float((S + _rfrac(rnd, 0.01, nr - 1.01) * dlat) / 3600)
        lon = float(-(E + _rfrac(rnd, 0.01, nc - 1.01) * dlon) / 3600)
        d = 0.0 if cls == 'on-edge' else rnd.choice([1e-9, -1e-9])
        edge = rnd.choice('SNEW')
        if cls == 'corner-probe':
            lat = float(rnd.choice([S, N]) / 3600) + rnd.choice([1e-9, -1e-9])
            lon = float(-rnd.choice([E, W]) / 3600) + rnd.choice([1e-9, -1e-9])
        elif edge in 'SN':
            lat = float((S if edge == 'S' else N) / 3600) + d
            if rnd.random() < 0.2:     # along the edge: on a node column
                lon = float(-(E + rnd.randint(0, nc - 1) * dlon) / 3600)
        else:
            lon = float(-(E if edge == 'E' else W) / 3600) + d
            if rnd.random() < 0.2:
                lat = float((S + rnd.randint(0, nr - 1) * dlat) / 3600)
        return {'lat': lat, 'lon': lon, 'cls': cls, 'target': k}
    else:   # outside: around the sub-grid, up to two grid widths away, or anywhere on the globe
        S, N, E, W, dlat, dlon = nx.extents(sg)
        if rnd.random() < 0.3:
            lat, lon = rnd.uniform(-90, 90), rnd.uniform(-180, 180)
        else:
            hl, hw = float(N - S) / 3600, float(W - E) / 3600
            lat = rnd.uniform(float(S) / 3600 - hl, float(N) / 3600 + hl)
            lon = rnd.uniform(-float(W) / 3600 - hw, -float(E) / 3600 + hw)
            lat = min(max(lat, -90.0), 90.0)
        return {'lat': lat, 'lon': lon, 'cls': 'outside', 'target': k}
    fi = min(max(fi, Fraction(0)), Fraction(nr - 1))
    fj = min(max(fj, Fraction(0)), Fraction(nc - 1))
    lat, lon = _pos(sg, fi, fj)
    return {'lat': lat, 'lon': lon, 'cls': cls, 'target': k}


# ------------------------------------------------------------------------------------------------------
# monitors
# ------------------------------------------------------------------------------------------------------
class FileProxy:
    """File object handed to the reader instead of the real one; logs every seek and read with absolute positions."""

    def __init__(self, f, log, path):
        self.f = f
        self.log = log
        self.pos = 0
        log.append(('open', path))

    def seek(self, off, whence=0):
        try:
            p = self.f.seek(off, whence)
        except BaseException as e:
            self.log.append(('seek-failed', self.pos, off, whence, repr(e)))
            raise
        self.log.append(('seek', self.pos, off, whence, p))
        self.pos = p
        return p

    def tell(self):
        p = self.f.tell()
        self.log.append(('tell', p))
        return p

    def read(self, n=-1):
        p = self.pos
        b = self.f.read(n)
        self.pos = p + len(b)
        self.log.append(('read', p, n, len(b)))
        return b

    def readinto(self, b):
        p = self.pos
        n = self.f.readinto(b)
        self.pos = p + (n or 0)
        self.log.append(('read', p, len(b), n or 0))
        return n

    def close(self):
        self.log.append(('close',))
        return self.f.close()

    def __iter__(self):
        return iter(self.f)

    def __getattr__(self, name):
        # anything else a reader may legitimately use (fileno for mmap / numpy.fromfile, name, mode, readable ...) is the real
        # file's; bytes fetched that way do not appear in the trace, which is evidence only
        return getattr(self.f, name)

    def __enter__(self):
        return self

    def __exit__(self, *a):
        self.close()
        return False


class Monitors:
    def __init__(self, ns, ctx):
        self.ns = ns
        self.ctx = ctx
        self.R = ns.ntv2reader
        self.T = ns.transform
        self.log = []
        self.last = None        # last (args, kwargs, result, exc) seen by the interpolate_ntv2 monitor
        self.proxy_checked = 0
        R = self.R
        self.had_open = 'open' in vars(R)
        if self.had_open:
            raise core.Inconclusive('geodepy.ntv2reader already defines a module-global open')
        mon = self

        def opener(path, mode='r', *a, **k):
            return FileProxy(builtins.open(path, mode, *a, **k), mon.log, path)
        R.open = opener
        self.reach = core.LineReach()
        # reach evidence on the functions the anchors name; private helpers may be renamed or merged in another tree
        for owner, name in ((R, 'interpolate_ntv2'), (R, 'read_ntv2_file'), (getattr(R, 'SubGrid', None), 'ntv2_bilinear'),
                            (getattr(R, 'SubGrid', None), 'ntv2_bicubic'), (R, 'bilinear_interpolation'),
                            (R, 'bicubic_interpolation'), (self.T, 'ntv2_2d')):
            fn = getattr(owner, name, None)
            if fn is not None and hasattr(fn, '__code__'):
                self.reach.watch(fn, name)
            else:
                ctx.count('reach_target_absent:' + name)
        self.reach.start()

        def post(a, k, r, e):
            mon.last = (a, k, r, e)
        self.imon = ctx.monitor(R.interpolate_ntv2, 'interpolate_ntv2', post=post).attach()
        if self.imon.bound < 1:
            raise core.Inconclusive('interpolate_ntv2 monitor bound in no namespace')
        ctx.info['interpolate_ntv2_monitor_bound_in_namespaces'] = self.imon.bound

    def begin(self):
        del self.log[:]
        self.last = None

    def reads(self):
        return [(e[1], e[2], e[3]) for e in self.log if e[0] == 'read']

    def uninstall(self):
        self.imon.detach()
        self.reach.stop()
        if 'open' in vars(self.R):
            del self.R.open
        self.ctx.info['lines_reached'] = self.reach.summary()


class Session:
    """One synthetic file: written, self-checked, read by the library."""

    def __init__(self, mon, model, tmpdir, tag):
        self.mon = mon
        self.ctx = mon.ctx
        self.model = model
        self.lay = nx.layout(model)
        self.path = os.path.join(tmpdir, 'g%s.gsb' % tag)
        try:
            self.arrays = nx.write(model, self.path)
            n = nx.verify_file(model, self.path, self.arrays)
        except nx.OracleError as e:
            raise core.Inconclusive('ntv2_synth self-check failed: %s' % e)
        self.ctx.count('oracle_file_selfchecks')
        self.ctx.count('oracle_values_crosschecked', n)
        self.grid = None
        self._loc = (None, None)

    def locate(self, lat, lon):
        """nx.locate, remembered for the position being worked on (each position is used by three calls)."""
        if self._loc[0] != (lat, lon):
            self._loc = ((lat, lon), nx.locate(self.model, lat, lon))
        return self._loc[1]

    def case(self, op, **kw):
        c = {'op': op, 'model': self.model}
        c.update(kw)
        return c

    # -- clause: header and sub-grid metadata ---------------------------------------------------------
    def read(self):
        ctx, model, mon = self.ctx, self.model, self.mon
        mon.begin()
        ctx.judged()
        ctx.count('metadata_files')
        try:
            grid = mon.R.read_ntv2_file(self.path)
        except Exception as e:
            ctx.violation('metadata:read-exception', self.case('read'), {'exception': repr(e)})
            return None
        bad = {}
        want = {'num_orec': 11, 'num_srec': 11, 'num_file': len(model['subgrids']), 'gs_type': model['gs_type'],
                'version': model['version'], 'system_f': model['system_f'], 'system_t': model['system_t'],
                'major_f': model['major_f'], 'minor_f': model['minor_f'], 'major_t': model['major_t'],
                'minor_t': model['minor_t'], 'file_path': self.path}
        for k, v in want.items():
            got = getattr(grid, k, '<missing>')
            if got != v or type(got) is not type(v):
                bad[k] = {'got': got, 'written': v}
        if bad:
            ctx.violation('metadata:overview-header-mismatch', self.case('read'), bad)
        names = list(getattr(grid, 'subgrids', {}).keys())
        if names != [sg['name'] for sg in model['subgrids']]:
            ctx.violation('metadata:subgrid-list-mismatch', self.case('read'),
                          {'got': names, 'written': [sg['name'] for sg in model['subgrids']]})
        for sg in model['subgrids']:
            ctx.count('metadata_subgrids')
            o = grid.subgrids.get(sg['name'])
            if o is None:
                continue
            bad = {}
            hv = nx.header_values(sg)
            exact = dict(zip(('s_lat', 'n_lat', 'e_long', 'w_long', 'lat_inc', 'long_inc'), nx.extents(sg)))
            for k in hv:
                got = getattr(o, k, None)
                try:
                    err = abs(Fraction(got) - exact[k])
                    # "read back exactly as written": the nearest double of the written decimal (1 ulp of slack)
                    ok = err <= Fraction(math.ulp(hv[k]))
                except Exception:
                    ok = False
                if not ok:
                    bad[k] = {'got': got, 'written': hv[k]}
            for k, v in (('sub_name', sg['name']), ('parent', sg['parent']), ('gs_count', sg['nrows'] * sg['ncols'])):
                if getattr(o, k, None) != v:
                    bad[k] = {'got': getattr(o, k, None), 'written': v}
            for k in ('created', 'updated'):
                got = getattr(o, k, None)
                if ''.join(ch for ch in str(got) if ch.isdigit()) != sg[k]:
                    bad[k] = {'got': got, 'written_DDMMYYYY': sg[k]}
            if bad:
                ctx.violation('metadata:subgrid-header-mismatch', self.case('read'), {'subgrid': sg['name'], 'fields': bad})
            frac = '.000' if sg['s_mas'] % 1000 == 0 and sg['e_mas'] % 1000 == 0 else 'milli'
            ctx.bucket('meta', sg['role'], frac, 'inc-int' if sg['lat_inc_u'] % 10 ** 6 == 0 else 'inc-frac')
        self.grid = grid
        return grid

    # -- one interpolate_ntv2 call ----------------------------------------------------------------------
    def interp(self, q, method):
        """Calls interpolate_ntv2 under the monitors and judges every clause.  Returns the library result or None."""
        ctx, model, mon = self.ctx, self.model, self.mon
        lat, lon = q['lat'], q['lon']
        loc = self.locate(lat, lon)
        case = self.case('interp', lat=lat, lon=lon, method=method, cls=q.get('cls'))
        mon.begin()
        exc = res = None
        try:
            res = mon.R.interpolate_ntv2(self.grid, lat, lon, self.method_arg(method))
        except Exception as e:
            exc = e
        reads = mon.reads()
        ctx.judged()
        self._judge(case, q, method, loc, res, exc, reads, '')
        return res

    def method_arg(self, method):
        """Every second call names the method by an equal string that is not the literal object."""
        self._mcalls = getattr(self, '_mcalls', 0) + 1
        if self._mcalls % 2:
            return method
        self.ctx.count('method_named_by_an_equal_non_literal_string')
        return core.fresh_str(method)

    def _ring(self, loc, method, nodes=()):
        """Outermost-ring classifier (was the known-finding classifier until the repair /repo 7c5d0cf; now only names
        the class of a query in counters, ratios and witnesses): the method is bicubic AND the 4x4 stencil of the query's
        true cell is not contained in the selected sub-grid.  Selected = the sub-grid that has to serve the query; where inclusion is a don't-care
        (several acceptable sub-grids) the one in whose node block the trace shows most of the node reads (a stencil that
        leaves the block reads part of its nodes from the neighbouring block); when no node read exists (the call failed
        before its first read) any of the acceptable sub-grids.  With a decisive query there is exactly one candidate."""
        if method != 'bicubic':
            return False
        subs = self.model['subgrids']
        ring_of = {k: nx.stencil_leaves_subgrid(subs[k], *nx.frac_index(subs[k], loc['LAT'], loc['LON']))
                   for k in loc['acceptable'] if k is not None}
        if not ring_of:
            return False
        cnt = {}
        for (k, _n) in nodes:
            if k in ring_of:
                cnt[k] = cnt.get(k, 0) + 1
        if cnt:
            top = max(cnt.values())
            return any(ring_of[k] for k in cnt if cnt[k] == top)
        # no node read identifies the serving sub-grid (the call failed before its first read): with a decisive query
        # there is one candidate; within 4 ulp of an extent edge any candidate may have been chosen
        return any(ring_of.values())

    def _judge(self, case, q, method, loc, res, exc, reads, via):
        ctx, model = self.ctx, self.model
        subs = model['subgrids']
        acc = loc['acceptable']
        blocks, nodes, outside = nx.classify_reads(self.lay, reads)
        ring = self._ring(loc, method, nodes)
        detail0 = {'status': loc['status'], 'acceptable': sorted('none' if a is None else subs[a]['name'] for a in acc)}

        def viol(key, detail):
            d = dict(detail0)
            d.update(detail)
            if ring:
                # outermost ring of cells: the 4x4 stencil is completed by extrapolation from the sub-grid's own nodes
                # (a known finding until /repo 7c5d0cf; judged like every other query since)
                d['outermost_ring'] = True
                ctx.count('bicubic_ring_failed:' + key.split(':')[0])
            ctx.violation(via + key, case, d)

        if not loc['decisive']:
            ctx.count('edge_dont_care_seen')
        if loc.get('exactly_on_south_or_east_limit'):
            ctx.count('exactly_on_south_or_east_limit_judged_as_inside')
        role = 'none'
        # ---- exception -------------------------------------------------------------------------------
        if exc is not None:
            if ring:
                ctx.count('bicubic_ring_seen')
            viol('%s:exception' % method, {'exception': repr(exc), 'reads': reads[:6]})
            self._bucket(q, method, 'exception', loc)
            return
        isnone = (isinstance(res, tuple) and len(res) == 4 and all(v is None for v in res))
        # ---- inclusion -------------------------------------------------------------------------------
        if isnone:
            if None in acc:
                if loc['decisive']:
                    ctx.count('outside_none_judged')
                    if q.get('cls') in ('probe', 'corner-probe'):
                        ctx.count('probe_outside_judged')
                if reads:
                    # reading the file for a position no sub-grid serves is wasteful, not wrong: evidence only
                    ctx.count('io_trace_note:file-read-for-outside-query')
            else:
                ctx.violation(via + 'inclusion:inside-returned-none', case, detail0)
            self._bucket(q, method, 'none', loc)
            return
        if acc == {None}:
            ctx.violation(via + 'inclusion:outside-returned-value', case, dict(detail0, got=res))
            self._bucket(q, method, 'outside-value', loc)
            return
        if not (isinstance(res, tuple) and len(res) == 4 and all(isinstance(v, (int, float)) for v in res)):
            viol('%s:malformed-result' % method, {'got': repr(res)})
            return
        # ---- I/O trace: which bytes were read -----------------------------------------------------------
        # The trace is evidence: it names the sub-grid and the nodes an answer was computed from, and so the mechanism of a
        # WRONG answer.  It is not a verdict of its own: a reader that loads a whole node block, or more nodes than the
        # stencil, and still returns the right blend of the right nodes keeps the property (the statement is about what the
        # values are computed from, not about which bytes are fetched).
        ctx.count('io_trace_judged')
        g_obs = None
        trace_notes = []
        if outside or not blocks:
            trace_notes.append(('io-trace:read-outside-node-block',
                                {'reads_outside': outside[:6], 'node_blocks': [(lk['name'], lk['nodes'], lk['end']) for lk in self.lay]}))
        elif len(blocks) > 1:
            trace_notes.append(('io-trace:read-from-several-subgrids', {'blocks': sorted(subs[k]['name'] for k in blocks)}))
        else:
            g = next(iter(blocks))
            if g in acc:
                g_obs = g
            elif loc['status'][g] in ('in', 'edge'):
                trace_notes.append(('overlap:coarser-subgrid-used', {'read_from': subs[g]['name']}))
            else:
                trace_notes.append(('io-trace:read-from-subgrid-not-containing-query', {'read_from': subs[g]['name']}))
        if g_obs is not None:
            sg = subs[g_obs]
            fi, fj = nx.frac_index(sg, loc['LAT'], loc['LON'])
            want_sets = nx.expected_node_sets(sg, fi, fj, method)
            got_set = frozenset(n for (k, n) in nodes)
            full = all(m == 0xFFFF for m in nodes.values())
            ring_ok = False
            if ring and full:
                ring_ok = any(must <= got_set <= may for must, may in nx.ring_node_bounds(sg, fi, fj))
                if ring_ok:
                    ctx.count('io_trace_ring_nodes_inside_subgrid')
            if not ring_ok and (not full or got_set not in want_sets):
                trace_notes.append(('io-trace:nodes-not-around-query',
                                    {'subgrid': sg['name'], 'index': [float(fi), float(fj)], 'ncols': sg['ncols'],
                                     'nodes_read_row_col': sorted(divmod(n, sg['ncols']) for n in got_set)[:16],
                                     'whole_nodes': full,
                                     'nodes_expected_row_col': [sorted(divmod(n, sg['ncols']) for n in s) for s in want_sets[:1]]}))
        if not trace_notes:
            ctx.count('io_trace_ok:' + method)
        # ---- overlap bookkeeping (keyed on the sub-grid that has to serve the query, whatever was observed) -----
        if loc['decisive'] and loc['finest_in'] is not None:
            n_in = sum(1 for s in loc['status'] if s == 'in')
            exp = subs[loc['finest_in']]
            if n_in >= 2:
                ctx.count('overlap_finest_judged')
                if exp.get('touches_parent_edge'):
                    ctx.count('overlap_touching_edge_judged')
                if exp['role'] == 'grandchild':
                    ctx.count('overlap_grandchild_judged')
            if exp.get('sibling'):
                ctx.count('siblings_judged')
            if q.get('cls') in ('probe', 'corner-probe'):
                ctx.count('probe_inside_judged')
        # ---- values ----------------------------------------------------------------------------------------
        cands = [g_obs] if g_obs is not None else sorted(k for k in acc if k is not None)
        best = None
        for k in cands:
            r = self._values(k, loc, method, res)
            if best is None or r['worst'] < best['worst']:
                best = r
        role = subs[best['k']]['role']
        sg = subs[best['k']]
        if method == 'bilinear':
            ctx.count('bilinear_blend_judged')
            if best['on_node']:
                ctx.count('bilinear_node_judged')
            ctx.count('linear_field_judged:bilinear')
        else:
            ctx.count('linear_field_judged:bicubic')
            if ring:
                ctx.count('bicubic_ring_seen')
                if not best['fails']:
                    ctx.count('bicubic_ring_value_ok')
            else:
                ctx.count('bicubic_interior_judged')
                if best['on_node']:
                    ctx.count('bicubic_node_judged')
                if best['second_ring']:
                    ctx.count('bicubic_second_ring_judged')
        if not ring:
            ctx.ratio(method if method == 'bilinear' else 'bicubic-interior', _cap(best['worst']), 1.0)
        else:
            ctx.ratio('bicubic-outermost-ring', _cap(best['worst']), 1.0)
        seen = set()
        for key, d in best['fails']:
            if key in seen:
                continue
            seen.add(key)
            viol(key, dict(d, subgrid=sg['name'], index=best['index']))
        for key, d in trace_notes:
            if best['fails']:
                viol(key, d)                       # the answer is wrong: the trace says where it came from
            else:
                ctx.count('io_trace_note:' + key.split(':', 1)[1])
        self._bucket(q, method, role + ('-ring' if ring else ''), loc)

    def _values(self, k, loc, method, res):
        """Compare the four returned fields with the truth of sub-grid k.  Returns worst err/tol and the failed clauses."""
        sg = self.model['subgrids'][k]
        arr = self.arrays[k]
        fi, fj = nx.frac_index(sg, loc['LAT'], loc['LON'])
        r0, c0 = nx.true_cell(sg, fi, fj)
        i, j = float(fi), float(fj)
        y, x = float(fi - r0), float(fj - c0)
        on_node = abs(fi - round(fi)) <= nx.IDX_EPS and abs(fj - round(fj)) <= nx.IDX_EPS
        fails = []
        worst = 0.0
        for f, fld in enumerate(sg['fields']):
            tol = nx.tolerance(fld, r0, c0)
            got = res[f]
            truth = nx.poly(fld, i, j)
            deg = nx.degree(fld)
            if method == 'bilinear':
                want = nx.bilinear_blend(arr, f, r0, c0, y, x)
                err = abs(got - want)
                e = err / tol if err == err else math.inf
                worst = max(worst, e)
                if not e <= 1.0:
                    key = 'bilinear:node-value-not-returned' if on_node else 'bilinear:not-exact-blend-of-enclosing-nodes'
                    fails.append((key, {'field': f, 'got': got, 'expected': want, 'tol': tol}))
                if deg in ('const', 'linear'):
                    err = abs(got - truth)
                    e = err / tol if err == err else math.inf
                    worst = max(worst, e)
                    if not e <= 1.0:
                        fails.append(('bilinear:linear-field-not-reproduced', {'field': f, 'got': got, 'expected': truth, 'tol': tol}))
            else:
                err = abs(got - truth)
                e = err / tol if err == err else math.inf
                worst = max(worst, e)
                if not e <= 1.0:
                    if on_node:
                        key = 'bicubic:node-value-not-returned'
                    elif deg in ('const', 'linear'):
                        key = 'bicubic:linear-field-not-reproduced'
                    else:
                        key = 'bicubic:biquadratic-field-not-reproduced'
                    fails.append((key, {'field': f, 'degree': deg, 'got': got, 'expected': truth, 'tol': tol}))
        second = (r0 in (1, sg['nrows'] - 3) or c0 in (1, sg['ncols'] - 3))
        return {'k': k, 'worst': worst, 'fails': fails, 'on_node': on_node, 'second_ring': second, 'index': [i, j]}

    def _bucket(self, q, method, role, loc):
        m = self.model
        sg = m['subgrids'][q['target']] if q.get('target') is not None else m['subgrids'][0]
        big = 'S' if max(sg['nrows'], sg['ncols']) <= 8 else ('M' if max(sg['nrows'], sg['ncols']) <= 30 else 'L')
        hemi = ('N' if q['lat'] >= 0 else 'S') + ('E' if q['lon'] >= 0 else 'W')
        self.ctx.bucket(m.get('layout', '?'), len(m['subgrids']), role, q.get('cls'), method, hemi, big,
                        'dc' if not loc['decisive'] else 'dec')

    # -- one ntv2_2d call ---------------------------------------------------------------------------------
    def transform(self, q, method, forward):
        ctx, model, mon = self.ctx, self.model, self.mon
        lat, lon = q['lat'], q['lon']
        loc = self.locate(lat, lon)
        case = self.case('2d', lat=lat, lon=lon, method=method, forward=forward, cls=q.get('cls'))
        mon.begin()
        exc = res = None
        try:
            res = mon.T.ntv2_2d(self.grid, lat, lon, forward, self.method_arg(method))
        except Exception as e:
            exc = e
        reads = mon.reads()
        ring = self._ring(loc, method, nx.classify_reads(self.lay, reads)[1])
        last = mon.last
        ctx.judged()
        acc = loc['acceptable']
        inner_none = bool(last and last[3] is None and isinstance(last[2], tuple) and last[2] and last[2][0] is None)
        # outside every sub-grid: must raise
        if exc is not None:
            if inner_none:
                if None in acc:
                    if loc['decisive']:
                        ctx.count('outside_2d_raised')
                else:
                    ctx.violation('inclusion:inside-ntv2_2d-raised', case, {'exception': repr(exc), 'status': loc['status']})
                return
            if last is not None and last[3] is not None:
                # the inner interpolation raised: judged as an interpolation failure of that call
                self._judge(case, q, method, loc, None, last[3], reads, 'ntv2_2d>')
                return
            ctx.violation('ntv2_2d:exception', case, {'exception': repr(exc), 'status': loc['status'], 'outermost_ring': ring})
            return
        if acc == {None}:
            ctx.violation('inclusion:outside-ntv2_2d-did-not-raise', case, {'got': res, 'status': loc['status']})
            return
        if last is None or last[2] is None:
            raise core.Inconclusive('ntv2_2d returned without the interpolate_ntv2 monitor seeing a call')
        shifts = last[2]
        if inner_none:
            ctx.violation('inclusion:outside-ntv2_2d-did-not-raise', case, {'got': res, 'inner': shifts})
            return
        ctx.count('ntv2_2d_forward_judged' if forward else 'ntv2_2d_reverse_judged')
        # (a) sign and unit, against the shifts the library itself interpolated (independent of interpolation defects)
        sgn = 1 if forward else -1
        ok_shape = isinstance(res, tuple) and len(res) == 2 and all(isinstance(v, float) for v in res)
        s0, s1 = shifts[0], shifts[1]
        if not ok_shape:
            ctx.violation('ntv2_2d:malformed-result', case, {'got': repr(res)})
            return
        if all(isinstance(s, (int, float)) and math.isfinite(s) and abs(s) < 1e7 for s in (s0, s1)):
            want_lat = float(Fraction(lat) + sgn * Fraction(s0) / 3600)
            want_lon = float(Fraction(lon) - sgn * Fraction(s1) / 3600)
            tol_lat = 4 * math.ulp(max(abs(lat), abs(want_lat), abs(s0) / 3600))
            tol_lon = 4 * math.ulp(max(abs(lon), abs(want_lon), abs(s1) / 3600))
            if abs(s0) > 1e-3 and abs(s1) > 1e-3:
                ctx.count('ntv2_2d_sign_decisive')
            if not (abs(res[0] - want_lat) <= tol_lat and abs(res[1] - want_lon) <= tol_lon):
                ctx.violation('ntv2_2d:shift-sign-or-unit', case,
                              {'forward': forward, 'shifts_arcsec': [s0, s1], 'got': list(res),
                               'expected': [want_lat, want_lon],
                               'rule': 'lat +/- shift_lat/3600, lon -/+ shift_lon(positive west)/3600'})
        else:
            ctx.count('ntv2_2d_sign_skipped_nonfinite_shift')
        # (b) the transformed position against the oracle's shifts (interpolation + application together)
        cands = sorted(k for k in acc if k is not None)
        best = None
        for k in cands:
            sg = model['subgrids'][k]
            fi, fj = nx.frac_index(sg, loc['LAT'], loc['LON'])
            r0, c0 = nx.true_cell(sg, fi, fj)
            y, x = float(fi - r0), float(fj - c0)
            want = []
            tols = []
            for f in (0, 1):
                fld = sg['fields'][f]
                if method == 'bilinear':
                    want.append(nx.bilinear_blend(self.arrays[k], f, r0, c0, y, x))
                else:
                    want.append(nx.poly(fld, float(fi), float(fj)))
                tols.append(nx.tolerance(fld, r0, c0))
            w_lat = float(Fraction(lat) + sgn * Fraction(want[0]) / 3600)
            w_lon = float(Fraction(lon) - sgn * Fraction(want[1]) / 3600)
            t_lat = tols[0] / 3600 + 4 * math.ulp(max(abs(lat), abs(w_lat), 1.0))
            t_lon = tols[1] / 3600 + 4 * math.ulp(max(abs(lon), abs(w_lon), 1.0))
            e = max(abs(res[0] - w_lat) / t_lat, abs(res[1] - w_lon) / t_lon)
            if e != e:
                e = math.inf
            if best is None or e < best[0]:
                best = (e, [w_lat, w_lon], [t_lat, t_lon], sg['name'])
        if not ctx.ratio('ntv2_2d-outermost-ring' if ring else 'ntv2_2d', _cap(best[0]), 1.0):
            if ring:
                ctx.count('bicubic_ring_failed:ntv2_2d')
            ctx.violation('ntv2_2d:wrong-position', case, {'got': list(res), 'expected': best[1], 'tol_deg': best[2],
                                                           'subgrid': best[3], 'forward': forward, 'outermost_ring': ring})
        self.ctx.bucket('2d', model.get('layout'), method, 'fwd' if forward else 'rev', q.get('cls'),
                        'ring' if ring else 'reg')


# ------------------------------------------------------------------------------------------------------
# shard
# ------------------------------------------------------------------------------------------------------
def _cap(x):
    """maxima must stay finite (they travel through JSON between shard and parent)."""
    return 1e300 if (x != x or x > 1e300) else x


COMBOS = [('bilinear', True), ('bicubic', True), ('bilinear', False), ('bicubic', False)]


def _run_file(mon, model, tmp, tag, rnd, nq, ctx, forced=()):
    ses = Session(mon, model, tmp, tag)
    if ses.read() is None:
        return
    qs = [gen_query(rnd, model, cls) for cls in forced]
    while len(qs) < nq:
        qs.append(gen_query(rnd, model))
    for n, q in enumerate(qs):
        ses.interp(q, 'bilinear')
        ses.interp(q, 'bicubic')
        m, fwd = COMBOS[n % 4]
        ses.transform(q, m, fwd)
    if len(ctx.samples) < 2:
        sg = model['subgrids'][0]
        ctx.sample({'layout': model['layout'], 'subgrids': [
            {k: s[k] for k in ('name', 'parent', 's_mas', 'e_mas', 'lat_inc_u', 'lon_inc_u', 'nrows', 'ncols')}
            for s in model['subgrids']], 'field0_of_first': sg['fields'][0], 'first_query': qs[0], 'positions': len(qs)})
    try:
        os.remove(ses.path)
    except OSError:
        pass


def run_shard(spec, ctx):
    ns = core.load_repo()
    try:
        nx.selfcheck()
    except nx.OracleError as e:
        raise core.Inconclusive('ntv2_synth fixed check values failed: %s' % e)
    rnd = random.Random('%s-%s-%s' % (ID, spec['seed'], spec['shard']))
    mon = Monitors(ns, ctx)
    forced = [c for c, _ in QCLASSES]
    try:
        with tempfile.TemporaryDirectory(prefix='vmon-c17-') as tmp:
            for n in range(spec['files']):
                # layouts are dealt round-robin over shards and files so that every layout occurs in every run
                lay = LAYOUTS[(spec['shard'] * spec['files'] + n) % len(LAYOUTS)] if isinstance(spec['shard'], int) else None
                model = gen_model(rnd, lay)
                _run_file(mon, model, tmp, 'f%d' % n, rnd, spec['queries'], ctx, forced * 2)
            for n in range(spec['mini']):
                model = gen_model(rnd, rnd.choice(['P', 'P', 'PC', 'PCt', 'PP']), small=False)
                _run_file(mon, model, tmp, 'm%d' % n, rnd, MINI_Q, ctx, forced)
                ctx.count('mini_files')
    finally:
        mon.uninstall()


def replay(case, ctx):
    ns = core.load_repo()
    nx.selfcheck()
    mon = Monitors(ns, ctx)
    try:
        with tempfile.TemporaryDirectory(prefix='vmon-c17-') as tmp:
            ses = Session(mon, case['model'], tmp, 'replay')
            if ses.read() is None or case['op'] == 'read':
                return
            q = {'lat': case['lat'], 'lon': case['lon'], 'cls': case.get('cls'), 'target': None}
            if case['op'] == 'interp':
                ses.interp(q, case['method'])
            else:
                ses.transform(q, case['method'], case['forward'])
    finally:
        mon.uninstall()
