"""C08 All angle notations convert to one another without changing the angle."""
import math
import random
from fractions import Fraction

from .. import core
from ..anglemon import AngleMonitors, OBJ_ABBR, ALL_DST, NUM_ABBR, rebuild_arg, denote_exact
from ..oracles import angle as ax

ID = 'C08'
TITLE = 'angle notation conversions'
LEVEL = 'exploration'
TECHNIQUE = ('runtime monitoring: post-condition monitors wrapped around every conversion function, method and the HP '
             'constructor of geodepy.angles, judging each observed call against an exact rational reading of the notations')
RULE = ('monitors on all x2y functions, all conversion methods of the five classes, HPAngle.__init__ and the _v forms judge '
        'every call: result denotes the argument\'s angle within 1e-8" (exact Fractions when the float fast path is not '
        'decisive), HP results valid, valid HP accepted, invalid HP rejected by hp2dec/HPAngle.  Workload: whole-second '
        'lattice 0..359d59m59s in HP, decimal and gradian form, both signs (thorough: all 1 296 000; quick: every 97th, all '
        '3600 (m,s) for 12 degrees, all D.MM00 numerals), second-hop calls on produced DMS/DDM objects, lattice 360..719 '
        '(stride), fractional seconds to 1e-9", values within 1e-9" of minute/degree boundaries, random reals in [-720,720], '
        '13-decimal HP numerals, invalid HP (fields 60/61/99), all length-3 chains over the nine notations on a sub-lattice. '
        'distinct = (callable, value-class) buckets')
ASSUMPTIONS = ['angle_exact reading of HP floats: decimal numeral at 13 decimals (12 for |h|>=512), via decimal/repr, never '
               'through the library parser', 'float64 arithmetic of CPython is IEEE-754']
REQUIRED_COUNTERS = ['invalid_hp_inputs', 'chains']
EXHAUSTIVE = (lambda tier: tier == 'thorough')

QUICK_DEGS = [0, 1, 2, 10, 33, 59, 89, 90, 179, 180, 255, 359]


def plan(tier, seed):
    specs = []
    if tier == 'quick':
        for i in range(12):
            specs.append({'kind': 'lattice', 'degs': [QUICK_DEGS[i]], 'stride': 1})
        for i in range(4):
            specs.append({'kind': 'lattice-stride', 'lo': i * 90, 'hi': (i + 1) * 90, 'stride': 97})
        specs.append({'kind': 'mm00', 'lo': 0, 'hi': 180})
        specs.append({'kind': 'mm00', 'lo': 180, 'hi': 360})
        specs.append({'kind': 'hi-lattice', 'lo': 360, 'hi': 720, 'stride': 211})
        for i in range(4):
            specs.append({'kind': 'misc', 'n': 6000, 'part': i})
        for i in range(6):
            specs.append({'kind': 'chains', 'values': 10, 'part': i, 'parts': 6})
    else:
        for d in range(0, 360, 3):
            specs.append({'kind': 'lattice', 'degs': [d, d + 1, d + 2], 'stride': 1})
        for i in range(8):
            specs.append({'kind': 'hi-lattice', 'lo': 360 + i * 45, 'hi': 360 + (i + 1) * 45, 'stride': 7})
        for i in range(16):
            specs.append({'kind': 'misc', 'n': 60000, 'part': i})
        for i in range(32):
            specs.append({'kind': 'chains', 'values': 40, 'part': i, 'parts': 32})
        specs.append({'kind': 'ambient'})
    return specs


class Driver:
    def __init__(self, ns, ctx):
        self.ns = ns
        self.A = ns.angles
        self.ctx = ctx
        self.mon = AngleMonitors(ns, ctx).install()
        A = self.A
        self.fn = {src: [(d, getattr(A, '%s2%s' % (src, d))) for d in ALL_DST if hasattr(A, '%s2%s' % (src, d))]
                   for src in NUM_ABBR}
        self.methods = {c: [m for m in ALL_DST if core.repo_method(getattr(A, c), m)[0] is not None or hasattr(getattr(getattr(A, c), m, None), '__wrapped__')] for c in ax.ANGLE_CLASSES}

    HOSTILE = [('hp2dec', 12.6), ('hp2dec', 12.0075), ('hp2dec', -0.61), ('hp2dms', 1.99), ('hp2ddm', 5.6), ('hp2gon', 7.0061),
               ('hp2rad', 3.7), ('hp2dec_v', [1.3, 1.7, 2.1]), ('hp2dec', 'x'), ('hp2dec', None), ('dec2hp', 'x'), ('dec2hp', float('nan')),
               ('dec2hp', float('inf')), ('dec2dms', float('nan')), ('dec2ddm', 'x'), ('dec2hp_v', ['a']), ('gon2hp', float('inf')),
               ('HPAngle', 1.61), ('HPAngle', 10.0099), ('DMSAngle', 'a b c'), ('DDMAngle', 'q'), ('dec2hpa', float('nan')),
               ('gon2dms', None), ('dd2sec', 'x'), ('hp2hpa', 0.6)]

    def hostile(self):
        """calls with values the property does not speak about (rejected numerals, NaN, strings), monitors switched off:
        not judged; the judged conversions made afterwards must be as right as ever"""
        self.mon.active = False
        try:
            k = self.n // 97
            for j in range(3):
                name, arg = self.HOSTILE[(k * 3 + j) % len(self.HOSTILE)]
                f = getattr(self.A, name, None)
                if f is not None:
                    core.unjudged(self.ctx, f, arg)
        finally:
            self.mon.active = True

    def call(self, f, x):
        try:
            return f(x)
        except Exception:
            return None     # the monitor has judged it

    def all_methods(self, obj, second_hop=False):
        outs = []
        if obj is None:
            return outs
        try:
            self.A.angular_typecheck(obj)
        except Exception:
            pass
        for m in self.methods[type(obj).__name__]:
            try:
                r = getattr(obj, m)()
            except Exception:
                r = None
            outs.append(r)
        return outs

    def drive(self, sign, D, M, S, vclass, hop2=True):
        """S: Fraction seconds.  Drives every callable with the value in every source notation."""
        A, ctx = self.A, self.ctx
        self.n = getattr(self, 'n', 0) + 1
        if self.n % 97 == 0:
            self.hostile()
        deg = sign * (Fraction(D) + Fraction(M, 60) + Fraction(S) / 3600)
        dec = float(deg)
        hp_txt, hp = ax.hp_make(deg, 9)
        gon = float(deg * Fraction(10, 9))
        for d, f in self.fn['dec']:
            r = self.call(f, dec)
            if hop2 and r is not None and d in ('dms', 'ddm', 'hpa'):
                self.all_methods(r)
        for d, f in self.fn['hp']:
            r = self.call(f, hp)
            if hop2 and r is not None and d in ('dms', 'ddm'):
                self.all_methods(r)
        for d, f in self.fn['gon']:
            self.call(f, gon)
        try:
            self.all_methods(A.DECAngle(dec))
            self.all_methods(A.GONAngle(gon))
        except Exception as e:
            ctx.violation('constructor-exception', {'value': dec}, {'exception': repr(e)})
        try:
            h = A.HPAngle(hp)
        except Exception:
            h = None
        self.all_methods(h)
        s = float(S)
        pos = sign > 0
        try:
            self.all_methods(A.DMSAngle(D, M, s, positive=pos))
            self.all_methods(A.DDMAngle(D, float(M + Fraction(S) / 60), positive=pos))
        except Exception as e:
            ctx.violation('constructor-exception', {'dms': [D, M, s, pos]}, {'exception': repr(e)})
        ctx.bucket(vclass, D // 30, 'neg' if sign < 0 else 'pos', 'm%d' % (M // 20), 's%d' % (int(S) // 20))

    def constructors(self, sign, D, M, S):
        """DMS/DDM constructors: sign inference (incl. zero degrees) and string forms."""
        A, ctx = self.A, self.ctx
        s = float(S)
        want = sign * (Fraction(D) + Fraction(M, 60) + Fraction(s) / 3600)
        forms = []
        if sign > 0:
            forms.append(('DMS(d,m,s)', lambda: A.DMSAngle(D, M, s)))
            forms.append(('DMS(str)', lambda: A.DMSAngle('%d %d %r' % (D, M, s))))
            forms.append(('DDM(d,m)', lambda: A.DDMAngle(D, M + s / 60)))
        else:
            forms.append(('DMS(-d,-m,-s)', lambda: A.DMSAngle(-D, -M, -s)))
            forms.append(('DMS(d,m,s,False)', lambda: A.DMSAngle(D, M, s, positive=False)))
            forms.append(('DMS(-str)', lambda: A.DMSAngle('-%d %d %r' % (D, M, s))))
            forms.append(('DDM(-d,-m)', lambda: A.DDMAngle(-D, -(M + s / 60))))
            forms.append(('DDM(d,m,False)', lambda: A.DDMAngle(D, M + s / 60, positive=False)))
            if D != 0:
                forms.append(('DMS(-d,m,s)', lambda: A.DMSAngle(-D, M, s)))
        for label, mk in forms:
            if sign < 0 and D == 0 and M == 0 and s == 0:
                continue
            ctx.judged()
            try:
                o = mk()
            except Exception as e:
                ctx.violation('constructor:%s:exception' % label, {'ctor': label, 'D': D, 'M': M, 'S': s, 'sign': sign},
                              {'exception': repr(e)})
                continue
            got = ax.denote(o)
            w = want
            if label.startswith('DDM'):
                w = sign * (Fraction(D) + Fraction(float(M + s / 60)) / 60)
            if abs(got - w) > ax.TOL_DEG:
                ctx.violation('constructor:%s:wrong-angle' % label, {'ctor': label, 'D': D, 'M': M, 'S': s, 'sign': sign},
                              {'got_deg': float(got), 'want_deg': float(w)})
            self.all_methods(o)


def _lattice(drv, degs, stride, vclass, phase=0):
    k = phase
    for D in degs:
        for ms in range(phase, 3600, stride):
            M, S = divmod(ms, 60)
            for sign in (1, -1):
                drv.drive(sign, D, M, Fraction(S), vclass)


def run_shard(spec, ctx):
    ns = core.load_repo()
    drv = Driver(ns, ctx)
    A = ns.angles
    rnd = random.Random('%s-%s-%s' % (ID, spec['seed'], spec['shard']))
    kind = spec['kind']
    if kind == 'lattice':
        _lattice(drv, spec['degs'], 1, 'lattice')
        ctx.sample({'kind': 'whole-second lattice', 'degrees': spec['degs'], 'example_hp': ax.hp_make(Fraction(spec['degs'][0]) + Fraction(61, 3600))[0]})
        # vectorised forms on the same lattice
        for D in spec['degs']:
            hps, decs = [], []
            for ms in range(3600):
                M, S = divmod(ms, 60)
                deg = Fraction(D) + Fraction(M, 60) + Fraction(S, 3600)
                hps.append(ax.hp_make(deg)[1])
                decs.append(float(deg))
            drv.mon.call_hp2dec_v(hps)
            drv.mon.call_hp2dec_v([-h for h in hps if h != 0])
            drv.mon.call_dec2hp_v(decs)
            drv.mon.call_dec2hp_v([-d for d in decs if d != 0])
    elif kind == 'lattice-stride':
        off = spec['seed'] % spec['stride']
        n = 0
        for k in range(spec['lo'] * 3600 + off, spec['hi'] * 3600, spec['stride']):
            D, r = divmod(k, 3600)
            M, S = divmod(r, 60)
            for sign in (1, -1):
                drv.drive(sign, D, M, Fraction(S), 'lattice-stride')
            n += 1
        ctx.sample({'kind': 'every %dth whole second' % spec['stride'], 'from_deg': spec['lo'], 'to_deg': spec['hi'], 'values': n})
    elif kind == 'mm00':
        for D in range(spec['lo'], spec['hi']):
            for M in range(60):
                for sign in (1, -1):
                    drv.drive(sign, D, M, Fraction(0), 'D.MM00')
        ctx.sample({'kind': 'all whole-minute numerals D.MM00', 'from_deg': spec['lo'], 'to_deg': spec['hi']})
    elif kind == 'hi-lattice':
        off = spec['seed'] % spec['stride']
        for k in range(spec['lo'] * 3600 + off, spec['hi'] * 3600, spec['stride']):
            D, r = divmod(k, 3600)
            M, S = divmod(r, 60)
            for sign in (1, -1):
                drv.drive(sign, D, M, Fraction(S), 'lattice>=360', hop2=False)
        # numerals around the 512 threshold of float resolution, whole minutes
        for D in range(max(spec['lo'], 500), min(spec['hi'], 530)):
            for M in range(60):
                drv.drive(1, D, M, Fraction(0), 'D.MM00>=360')
                drv.drive(-1, D, M, Fraction(0), 'D.MM00>=360')
        hps, decs = [], []
        for D in range(spec['lo'], spec['hi']):
            for M in range(60):
                for S in (0, rnd.randint(1, 59)):
                    deg = Fraction(D) + Fraction(M, 60) + Fraction(S, 3600)
                    hps.append(ax.hp_make(deg, 8)[1])
                    decs.append(float(deg))
                # one nano-arc-second (1e-8" beyond 512 deg) below the whole minute
                hps.append(ax.hp_make(Fraction(D) + Fraction(M, 60) - Fraction(1, 3600 * 10 ** 8), 8)[1])
        for chunk in range(0, len(hps), 2000):
            drv.mon.call_hp2dec_v(hps[chunk:chunk + 2000])
            drv.mon.call_hp2dec_v([-h for h in hps[chunk:chunk + 2000]])
        for chunk in range(0, len(decs), 2000):
            drv.mon.call_dec2hp_v(decs[chunk:chunk + 2000])
            drv.mon.call_dec2hp_v([-d for d in decs[chunk:chunk + 2000]])
        ctx.sample({'kind': 'whole-second lattice 360..719 (stride)', 'lo': spec['lo'], 'hi': spec['hi'], 'stride': spec['stride']})
    elif kind == 'ambient':
        # the repository's own tests with every conversion monitored: realistic call patterns, and a guard against monitors
        # that are stricter than the code's legitimate behaviour
        core.run_repo_tests(ns, ['geodepy/tests/test_angles.py', 'geodepy/tests/test_convert.py', 'geodepy/tests/test_geodesy.py',
                                 'geodepy/tests/test_coord.py', 'geodepy/tests/test_transform.py'], ctx)
        ctx.bucket('ambient', 'repo-tests')
        ctx.sample({'kind': 'ambient workload', 'files': 'geodepy/tests/test_{angles,convert,geodesy,coord,transform}.py'})
    elif kind == 'misc':
        _misc(drv, ctx, rnd, spec['n'])
    elif kind == 'chains':
        _chains(drv, ctx, rnd, spec)
    drv.mon.uninstall()
    ctx.info['monitored_callables'] = {k: v for k, v in sorted(drv.mon.calls.items())}


def _misc(drv, ctx, rnd, n):
    A = drv.A
    for i in range(n):
        r = i % 10
        sign = rnd.choice([1, -1])
        if r == 0:      # fractional seconds down to 1e-9"
            D, M = rnd.randint(0, 719), rnd.randint(0, 59)
            S = Fraction(rnd.randint(0, 60 * 10 ** 9 - 1), 10 ** 9)
            if D >= 512:
                S = Fraction(int(S * 10 ** 8), 10 ** 8)
            drv.drive(sign, D, M, S, 'frac-seconds', hop2=True)
        elif r == 1:    # within 1e-9" of a minute / degree boundary, both sides
            D, M = rnd.choice([rnd.randint(0, 359), rnd.randint(360, 719), rnd.randint(512, 719)]), rnd.randint(0, 59)
            eps = rnd.choice([1, 2, 3, 5, 7, 10, 100])
            S = rnd.choice([Fraction(60 * 10 ** 9 - eps, 10 ** 9), Fraction(eps, 10 ** 9)])
            if rnd.random() < 0.5:
                M = rnd.choice([0, 59])
            drv.drive(sign, D, M, S, 'near-boundary')
        elif r == 2:    # random reals: decimal degrees
            x = rnd.uniform(-720, 720)
            for d, f in drv.fn['dec']:
                rr = drv.call(f, x)
                if rr is not None and d in ('dms', 'ddm', 'hpa'):
                    drv.all_methods(rr)
            drv.all_methods(A.DECAngle(x))
            ctx.bucket('random-dec', int(x) // 90)
            if i < 30:
                ctx.sample({'kind': 'random decimal degrees', 'value': x})
        elif r == 3:    # random gradians
            g = rnd.uniform(-800, 800)
            for d, f in drv.fn['gon']:
                rr = drv.call(f, g)
                if rr is not None and d in ('dms', 'ddm', 'hpa'):
                    drv.all_methods(rr)
            drv.all_methods(A.GONAngle(g))
            ctx.bucket('random-gon', int(g) // 100)
        elif r == 4:    # 13-decimal valid HP numerals
            D = rnd.randint(0, 719)
            nd = 9 if D < 512 else 8
            M = rnd.randint(0, 59)
            S = Fraction(rnd.randint(0, 60 * 10 ** nd - 1), 10 ** nd)
            txt, hp = ax.hp_make(sign * (Fraction(D) + Fraction(M, 60) + S / 3600), nd)
            for d, f in drv.fn['hp']:
                drv.call(f, hp)
            try:
                h = A.HPAngle(hp)
            except Exception:
                h = None
            drv.all_methods(h)
            drv.mon.call_hp2dec_v([hp, -hp])
            ctx.bucket('hp-13-decimals', D // 90, sign)
        elif r == 5:    # invalid HP numerals: minutes or seconds field 60, 61, 99
            D = rnd.randint(0, 359)
            bad = rnd.choice([60, 61, 75, 99])
            if rnd.random() < 0.5:
                txt = '%d.%02d%02d' % (D, bad, rnd.randint(0, 59))
            else:
                txt = '%d.%02d%02d' % (D, rnd.randint(0, 59), bad)
            if rnd.random() < 0.4:
                txt += '%d' % rnd.randint(1, 999)
            hp = sign * float(txt)
            drv.call(A.hp2dec, hp)
            try:
                A.HPAngle(hp)
            except Exception:
                pass
            ctx.bucket('invalid-hp', bad)
            if ctx.counters['invalid_hp_inputs'] < 4:
                ctx.sample({'kind': 'invalid HP numeral', 'hp': hp})
        elif r == 6:    # constructors and sign inference
            D = rnd.choice([0, 0, 0, 1, rnd.randint(0, 359)])
            M = rnd.choice([0, 0, rnd.randint(0, 59)])
            S = rnd.choice([Fraction(0), Fraction(rnd.randint(0, 599), 10), Fraction(rnd.randint(1, 59))])
            drv.constructors(sign, D, M, S)
            ctx.bucket('constructors', D == 0, M == 0, S == 0, sign)
        elif r == 7:    # angles in (-1, 0) and (0, 1) deg, small magnitudes
            x = sign * 10 ** rnd.uniform(-12, 0)
            for d, f in drv.fn['dec']:
                rr = drv.call(f, x)
                if rr is not None and d in ('dms', 'ddm', 'hpa'):
                    drv.all_methods(rr)
            ctx.bucket('sub-degree', int(math.log10(abs(x))), sign)
        elif r == 8:    # decimals just below a whole second/minute/degree in binary: k/3600 -/+ few ulp
            k = rnd.randint(0, 720 * 3600)
            x = k / 3600.0
            for _ in range(rnd.randint(0, 3)):
                x = math.nextafter(x, rnd.choice([-1e9, 1e9]))
            x *= sign
            for d, f in drv.fn['dec']:
                rr = drv.call(f, x)
                if rr is not None and d in ('dms', 'ddm', 'hpa'):
                    drv.all_methods(rr)
            ctx.bucket('dec-near-lattice', k % 60 == 0, k % 3600 == 0, sign)
        else:           # vectorised forms on random values
            xs = [rnd.uniform(-720, 720) for _ in range(8)] + [rnd.randint(-719, 719) + rnd.randint(0, 59) / 60 for _ in range(4)]
            drv.mon.call_dec2hp_v(xs)
            hs = []
            for x in xs:
                hs.append(ax.hp_make(Fraction(x), 9)[1])
            drv.mon.call_hp2dec_v(hs)
            ctx.bucket('vectorised-random')


SOURCES = ['dec', 'hp', 'gon', 'deca', 'hpa', 'gona', 'dms', 'ddm']


def convert(A, val, src, dst):
    """One direct conversion step src -> dst using the library's own callable (monitored)."""
    if src in NUM_ABBR:
        if dst == src:
            return val
        name = '%s2%s' % (src, dst)
        if hasattr(A, name):
            return getattr(A, name)(val)
        ctor = {('dec', 'deca'): A.DECAngle, ('hp', 'hpa'): A.HPAngle, ('gon', 'gona'): A.GONAngle}.get((src, dst))
        if ctor:
            return ctor(val)
        raise KeyError(name)
    return getattr(val, dst)()


def edges(A):
    e = {}
    for s in SOURCES:
        outs = []
        for d in ('rad',) + tuple(SOURCES):
            if d == s:
                continue
            if s in NUM_ABBR:
                if hasattr(A, '%s2%s' % (s, d)) or (s, d) in (('dec', 'deca'), ('hp', 'hpa'), ('gon', 'gona')):
                    outs.append(d)
            else:
                if callable(getattr(getattr(A, OBJ_ABBR[s]), d, None)):
                    outs.append(d)
        e[s] = outs
    return e


def start_value(A, src, deg):
    """Source value in notation `src` for the exact angle `deg` (Fraction)."""
    if src == 'dec':
        return float(deg)
    if src == 'hp':
        return ax.hp_make(deg, 9)[1]
    if src == 'gon':
        return float(deg * Fraction(10, 9))
    cls = OBJ_ABBR[src]
    return ax.make_object(A, cls, float(deg))


def run_chain(drv, ctx, path, deg, record=True):
    A = drv.A
    src = path[0]
    try:
        v = start_value(A, src, deg)
    except Exception:
        ctx.count('chain_start_unconstructible')
        return
    kind0 = src if src in NUM_ABBR else 'obj'
    e0 = denote_exact(kind0, v)
    cur = v
    for a, b in zip(path[:-1], path[1:]):
        try:
            cur = convert(A, cur, a, b)
        except Exception:
            ctx.count('chain_aborted_by_step_failure')     # the step's monitor has recorded the violation
            return
    kind1 = path[-1] if path[-1] in ('rad', 'dec', 'hp', 'gon') else 'obj'
    ctx.judged()
    ctx.count('chains')
    e1 = denote_exact(kind1, cur)
    if e1 is None:
        ctx.violation('chain:invalid-hp-at-end', {'chain': path, 'deg': [deg.numerator, deg.denominator]}, {'end': repr(cur)})
        return
    err = abs(e1 - e0)
    ctx.maxi('C08.chain_err_arcsec', float(err * 3600))
    if err > ax.TOL_DEG:
        ctx.violation('chain:drift', {'chain': path, 'deg': [deg.numerator, deg.denominator]},
                      {'start_deg': float(e0), 'end_deg': float(e1), 'err_arcsec': float(err * 3600)})


def _chains(drv, ctx, rnd, spec):
    A = drv.A
    E = edges(A)
    paths = []
    for a in SOURCES:
        for b in E[a]:
            if b == 'rad':
                continue
            for c in E[b]:
                if c == 'rad':
                    continue
                for d in E[c]:
                    paths.append([a, b, c, d])
    ctx.info['chain_paths_total'] = len(paths)
    mine = paths[spec['part']::spec['parts']]
    vals = []
    base = [Fraction(0), Fraction(1, 3600), Fraction(-1, 3600), Fraction(59, 60) + Fraction(59, 3600), Fraction(-30) - Fraction(1, 2),
            Fraction(2) + Fraction(1, 60), Fraction(-33) - Fraction(30, 60), Fraction(10) + Fraction(6, 60), Fraction(359) + Fraction(3599, 3600),
            Fraction(-719) - Fraction(3599, 3600), Fraction(-1, 2), Fraction(538) + Fraction(18, 60), Fraction(60 * 10 ** 9 - 1, 3600 * 10 ** 9)]
    vals.extend(base)
    while len(vals) < spec['values'] + len(base):
        k = rnd.randint(-720 * 3600, 720 * 3600)
        if rnd.random() < 0.5:
            k = (k // 64) * 64
        vals.append(Fraction(k, 3600))
    for p in mine:
        for v in vals:
            run_chain(drv, ctx, p, v)
        ctx.bucket('chain', '>'.join(p))
    if mine:
        ctx.sample({'kind': 'chain', 'path': mine[0], 'values': [float(v) for v in vals[:5]]})


def replay(case, ctx):
    ns = core.load_repo()
    drv = Driver(ns, ctx)
    A = ns.angles
    if 'chain' in case:
        run_chain(drv, ctx, case['chain'], Fraction(case['deg'][0], case['deg'][1]))
        return
    if 'ctor' in case:
        drv.constructors(case['sign'], case['D'], case['M'], Fraction(case['S']))
        return
    fn = case.get('fn')
    arg = rebuild_arg(A, case.get('arg'))
    try:
        if fn in ('hp2dec_v', 'dec2hp_v'):
            getattr(drv.mon, 'call_' + fn)([arg])
        elif fn == 'HPAngle.__init__':
            A.HPAngle(arg)
        elif '.' in fn:
            getattr(arg, fn.split('.')[1])()
        else:
            getattr(A, fn)(arg)
    except Exception:
        pass
