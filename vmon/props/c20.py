"""C20 The HTTP API returns exactly what the library computes."""
import ast
import json
import math
import random
from fractions import Fraction

from .. import core, geowork
from ..oracles import geod, angle as ax

ID = 'C20'
TITLE = 'HTTP API = library'
LEVEL = 'exploration'
TECHNIQUE = ('runtime monitoring: Flask test client drives the tree\'s api/app.py; trace monitors on the names vincinv, vincdir, '
             'hp2dec, dec2hp inside api.app record which query field reached which argument; responses compared exactly with '
             'direct library calls and, for the HP conversions, with the exact angle oracle; the trace names the mechanism of a wrong answer and is not a verdict of its own')
RULE = ('random queries over the C04/C05 domains with every combination of from_angle_type/to_angle_type in {dd, dms, absent}; '
        'HP-valid inputs built by the oracle; negative (western/southern) values; values within a fraction of an arc-second of zero (written in exponent form); 8 % of the requests preceded by a malformed request (invalid HP numeral, missing field, unknown angle type) that is not judged; distinct values in every field so a swapped '
        'wiring is visible.  Judged: status 200; JSON equal (as floats, exactly) to the library call on the same arguments with '
        'the stated HP conversions; arguments observed at the library boundary and converter call counts name the mechanism of a wrong answer (argument-wiring, angle-type-dispatch); HP outputs denote '
        'the decimal results (1e-8"); index route lists /, /vincinv, /vincdir.  distinct = endpoint x from x to x sign pattern x '
        'distance decade.  A share of the queries gives east longitudes in the 0..360 convention (bearings stay in C04\'s 0..360).')
ASSUMPTIONS = ['Flask/Werkzeug test client is faithful to a real HTTP GET', 'the library functions themselves are judged by C04/C05/C08']
N = {'quick': 150, 'thorough': 4000}
SHARDS = {'quick': 16, 'thorough': 16}
REQUIRED_COUNTERS = ['unjudged_requests_before_a_judged_one', 'tiny_angle_fields', 'longitudes_in_the_0_360_convention', 'same_numbers_other_angle_type', 'vincinv_requests', 'vincdir_requests', 'index_requests', 'trace_args_checked']
TYPES = ['dd', 'dms', None]
TINY = [0]
OTHER = [0]


def plan(tier, seed):
    return [{'n': N[tier]} for _ in range(SHARDS[tier])]


class Trace:
    """Wrap the four names inside api.app (module attributes and the two dispatch dicts)."""

    def __init__(self, app_mod):
        self.m = app_mod
        self.calls = []
        self.saved = {}

        def wrap(name, fn):
            def w(*a, **k):
                r = fn(*a, **k)
                self.calls.append((name, a, r))
                return r
            w.__name__ = name
            return w
        # evidence only: another tree's api module may import or dispatch differently - what is absent is not traced
        for name in ('vincinv', 'vincdir', 'hp2dec', 'dec2hp'):
            fn = getattr(app_mod, name, None)
            if not callable(fn):
                continue
            self.saved[name] = fn
            setattr(app_mod, name, wrap(name, fn))
        for dname in ('angle_type_to_dd', 'dd_to_angle_type'):
            d = getattr(app_mod, dname, None)
            if not isinstance(d, dict):
                continue
            for k, v in list(d.items()):
                for name, fn in self.saved.items():
                    if v is fn:
                        d[k] = getattr(app_mod, name)

    def reset(self):
        self.calls = []


def hpval(x):
    """HP numeral float for the decimal-degree float x (seconds to 5 decimals so that it is a 'typed' value)."""
    return ax.hp_make(Fraction(x), 5)[1]


def build_query(rnd, endpoint):
    ft, tt = rnd.choice(TYPES), rnd.choice(TYPES)
    if endpoint == 'vincinv':
        c = geowork.gen_inverse_case(rnd)
        vals = {'lat1': c['lat1'], 'lon1': c['lon1'], 'lat2': c['lat2'], 'lon2': c['lon2']}
    else:
        c = geowork.gen_direct_case(rnd)
        vals = {'lat1': c['lat1'], 'lon1': c['lon1'], 'azimuth1to2': c['az']}
    # round to typed-looking values, keep every field distinct
    q = {}
    lattice = rnd.random() < 0.35
    tiny = rnd.random() < 0.08
    conv = rnd.choice(['both', 'both', 'one']) if rnd.random() < 0.15 else None
    for k, v in vals.items():
        v = round(v, rnd.choice([6, 9, 11]))
        if tiny and rnd.random() < 0.6:
            # within a fraction of an arc-second of the equator / Greenwich / north: the number is written in exponent form
            v = rnd.choice([-1, 1]) * rnd.choice([1e-5, 2.5e-5, 3e-6, 1.5e-7, 9.9e-5, rnd.uniform(1e-7, 9e-5)])
            if k == 'azimuth1to2':
                v = abs(v)
        if lattice:
            # typed-looking values: whole minutes or whole seconds (HP numerals such as 37.30 sit just below their float)
            step = rnd.choice([60, 1, 3600])
            v = round(v * 3600 / step) * step / 3600.0
            if k.startswith('lat'):
                v = max(-89.0, min(89.0, v))
        if conv and k.startswith('lon') and v < 0 and (conv != 'one' or k == 'lon1'):
            v = v + 360.0                         # east longitudes counted 0..360 (the other common convention)
            OTHER[0] += 1
        q[k] = hpval(v) if ft == 'dms' else v
        if q[k] != 0 and abs(q[k]) < 1e-4:
            TINY[0] += 1
    if endpoint == 'vincdir':
        q['ell_dist'] = round(c['s'], 3)
    if ft is not None:
        q['from_angle_type'] = ft
    if tt is not None:
        q['to_angle_type'] = tt
    if rnd.random() < 0.3:
        # the same named parameters sent in another order (sorted, reversed, point 2 first, shuffled): a query string is a
        # set of named values, not a sequence
        keys = list(q)
        how = rnd.choice(['sorted', 'reversed', 'shuffled', 'types-first'])
        if how == 'sorted':
            keys.sort()
        elif how == 'reversed':
            keys.reverse()
        elif how == 'shuffled':
            rnd.shuffle(keys)
        else:
            keys.sort(key=lambda k: (not k.endswith('angle_type'), k))
        q = {k: q[k] for k in keys}
    return q


def spell(v):
    """The text of a number in a query string: mostly repr(); for a share of the values another spelling of the same float
    (leading plus sign, exponent form, a trailing zero)."""
    if not isinstance(v, float):
        return v
    t = repr(v)
    pick = int(core.stable_hash(t), 16) % 10
    alt = t
    if pick == 0 and v >= 0:
        alt = '+' + t
    elif pick == 1:
        alt = '%.16e' % v
    elif pick == 2 and '.' in t and 'e' not in t and 'n' not in t:
        alt = t + '0'
    try:
        return alt if float(alt) == v else t
    except ValueError:
        return t


def judge_request(ns, ctx, tr, client, endpoint, q):
    lib = ns.geodesy
    A = ns.angles
    ft = q.get('from_angle_type', 'dd')
    tt = q.get('to_angle_type', 'dd')
    case = {'endpoint': endpoint, 'query': q}
    fields = ['lat1', 'lon1', 'lat2', 'lon2'] if endpoint == 'vincinv' else ['lat1', 'lon1', 'azimuth1to2']
    raw = [float(q[f]) for f in fields]
    # domain: inverse only for separations <= 178 deg (decided on the decimal values by the oracle)
    try:
        dd = []
        for v in raw:
            if ft == 'dms':
                ok, val, _ = ax.hp_read(v)
                if not ok:
                    ctx.count('out_of_domain')
                    return
                dd.append(float(val))
            else:
                dd.append(v)
    except Exception as e:
        raise core.Inconclusive('harness could not read its own query: %r' % (e,))
    if endpoint == 'vincinv':
        if geod.sphsep(*dd) > 178.0 or max(abs(dd[0]), abs(dd[2])) > 90:
            ctx.count('out_of_domain')
            return
    else:
        if abs(dd[0]) > 90 or not (0 <= dd[2] <= 360):
            ctx.count('out_of_domain')
            return
    tr.reset()
    canonical = (['lat1', 'lon1', 'lat2', 'lon2'] if endpoint == 'vincinv' else ['lat1', 'lon1', 'azimuth1to2', 'ell_dist']) + \
        ['from_angle_type', 'to_angle_type']
    if [k for k in q] != [k for k in canonical if k in q]:
        ctx.count('parameters_sent_in_another_order')
    sent = {k: spell(v) for k, v in q.items()}
    if any(isinstance(v, float) and sent[k] != repr(v) for k, v in q.items()):
        ctx.count('numbers_spelled_another_way')
    resp = client.get('/' + endpoint, query_string=sent)
    ctx.judged()
    ctx.count(endpoint + '_requests')
    ctx.bucket(endpoint, ft if 'from_angle_type' in q else 'absent', tt if 'to_angle_type' in q else 'absent',
               ''.join('-' if v < 0 else '+' for v in raw), int(math.log10(q['ell_dist'])) if q.get('ell_dist', 0) >= 1 else 'na')
    if resp.status_code != 200:
        ctx.violation('%s:status-%d' % (endpoint, resp.status_code), case, {'body': resp.get_data(as_text=True)[:300]})
        return
    try:
        got = json.loads(resp.get_data(as_text=True))
    except Exception as e:
        ctx.violation(endpoint + ':not-json', case, {'error': repr(e)})
        return
    # expected: the library called directly with the same arguments and the stated conversions
    tr_calls = list(tr.calls)
    conv_in = (lambda x: A.hp2dec(x)) if ft == 'dms' else (lambda x: x)
    conv_out = (lambda x: A.dec2hp(x)) if tt == 'dms' else (lambda x: x)
    args = [conv_in(v) for v in raw]
    if endpoint == 'vincinv':
        s, a12, a21 = lib.vincinv(*args)
        exp = {'ell_dist': s, 'azimuth1to2': conv_out(a12), 'azimuth2to1': conv_out(a21)}
        plain = {'azimuth1to2': a12, 'azimuth2to1': a21}
    else:
        la, lo, back = lib.vincdir(args[0], args[1], args[2], float(q['ell_dist']))
        exp = {'lat2': conv_out(la), 'lon2': conv_out(lo), 'azimuth2to1': conv_out(back)}
        plain = {'lat2': la, 'lon2': lo, 'azimuth2to1': back}
        args = args + [float(q['ell_dist'])]
    if set(got) != set(exp):
        ctx.violation(endpoint + ':keys', case, {'got': sorted(got), 'want': sorted(exp)})
        return
    # what the trace monitors saw: which query field reached which argument of the library function, and how often the
    # notation converters ran.  The trace is evidence and names the mechanism when an answer is wrong; it is not a verdict
    # of its own (an API that answers a repeated query from a cache, or converts notation another way, still returns
    # exactly what the library computes).
    lc = [c for c in tr_calls if c[0] == endpoint]
    ctx.count('trace_args_checked')
    wiring = None
    if len(lc) == 1:
        ctx.count('trace_one_library_call')
        try:
            seen = [float(x) for x in lc[0][1][:len(args)]]
        except Exception:
            seen = None
        if seen != [float(x) for x in args] or len(lc[0][1]) != len(args):
            wiring = {'seen_at_library_boundary': seen, 'expected': [float(x) for x in args]}
    else:
        ctx.count('trace_library_calls_%d' % len(lc))
    nconv_in = len([c for c in tr_calls if c[0] == 'hp2dec'])
    nconv_out = len([c for c in tr_calls if c[0] == 'dec2hp'])
    want_in = len(fields) if ft == 'dms' else 0
    want_out = len(plain) if tt == 'dms' else 0
    dispatch = None
    if len(lc) == 1 and (nconv_in, nconv_out) != (want_in, want_out):
        dispatch = {'hp2dec_calls': nconv_in, 'dec2hp_calls': nconv_out, 'expected': [want_in, want_out]}
    wrong = False
    for k in exp:
        if not (isinstance(got[k], (int, float)) and float(got[k]) == float(exp[k])):
            wrong = True
            mech, extra = 'value-differs-from-library', {}
            if wiring is not None:
                mech, extra = 'argument-wiring', wiring
            elif dispatch is not None:
                mech, extra = 'angle-type-dispatch', dispatch
            ctx.violation('%s:%s' % (endpoint, mech), case, dict({'field': k, 'got': got[k], 'library': exp[k], 'from': ft, 'to': tt}, **extra))
            break
    # HP outputs denote the decimal results / dd outputs are the decimal results unchanged
    for k, v in plain.items():
        if tt == 'dms' and not wrong:
            ok, val, _ = ax.hp_read(got[k])
            if not ok or abs(val - Fraction(float(v))) > ax.TOL_DEG:
                ctx.violation('%s:hp-output-does-not-denote-result' % endpoint, case, {'field': k, 'got': got[k], 'decimal': v})
                wrong = True
                break
    if not wrong and (wiring is not None or dispatch is not None):
        ctx.count('trace_differs_but_answer_equals_library')


BAD_QUERIES = [
    ('vincinv', {'lat1': -37.3, 'lon1': 144.75, 'lat2': -37.1, 'lon2': 143.55, 'from_angle_type': 'dms'}),          # 144.75: 75 minutes
    ('vincinv', {'lat1': -37.3, 'lon1': 144.25, 'lat2': -37.1, 'from_angle_type': 'dms', 'to_angle_type': 'dms'}),    # lon2 missing
    ('vincinv', {'lat1': -37.3, 'lon1': 144.25, 'lat2': -37.1, 'lon2': 143.55, 'from_angle_type': 'gon'}),           # unknown type
    ('vincinv', {'lat1': -37.3, 'lon1': 144.25, 'lat2': -37.1, 'lon2': 143.55, 'to_angle_type': 'hp'}),
    ('vincdir', {'lat1': -37.3, 'lon1': 144.25, 'azimuth1to2': 306.6, 'ell_dist': 54972.271, 'from_angle_type': 'dms', 'to_angle_type': 'dms'}),
    ('vincdir', {'lat1': -37.3, 'lon1': 144.25, 'azimuth1to2': 'north', 'ell_dist': 5.0, 'to_angle_type': 'dms'}),
    ('vincdir', {'lat1': -37.3, 'azimuth1to2': 10.0, 'from_angle_type': 'dms'}),
    ('vincdir', {'lat1': -37.3, 'lon1': 144.25, 'azimuth1to2': 10.0, 'ell_dist': 5.0, 'from_angle_type': 'DMS'}),
]


def unjudged_request(ctx, client, k):
    """a request the property does not speak about (malformed: an invalid HP numeral, a missing field, an unknown angle
    type): whatever the answer is, it is not judged - the valid request made after it must be answered as ever"""
    ep, q = BAD_QUERIES[k % len(BAD_QUERIES)]
    ctx.count('unjudged_requests_before_a_judged_one')
    try:
        r = client.get('/' + ep, query_string=q)
        ctx.count('unjudged_request_status_%d' % r.status_code)
    except Exception as e:
        ctx.count('unjudged_request_raised:' + type(e).__name__)


def judge_index(ctx, client):
    resp = client.get('/')
    ctx.judged()
    ctx.count('index_requests')
    body = resp.get_data(as_text=True)
    ok = resp.status_code == 200
    try:
        routes = set(ast.literal_eval(body))
    except Exception:
        routes = set()
        ok = False
    if not ok or not {'/', '/vincinv', '/vincdir'} <= routes:
        ctx.violation('index:routes', {'endpoint': 'index'}, {'status': resp.status_code, 'body': body[:200]})


def run_shard(spec, ctx):
    ns = core.load_repo(need_api=True)
    tr = Trace(ns.app)
    client = ns.app.app.test_client()
    rnd = random.Random('%s-%s-%s' % (ID, spec['seed'], spec['shard']))
    judge_index(ctx, client)
    for i in range(spec['n']):
        ep = 'vincinv' if i % 2 == 0 else 'vincdir'
        q = build_query(rnd, ep)
        if i < 2:
            ctx.sample({'endpoint': ep, 'query': q})
        if rnd.random() < 0.08:
            unjudged_request(ctx, client, rnd.randrange(1000))
        judge_request(ns, ctx, tr, client, ep, q)
        if TINY[0]:
            ctx.count('tiny_angle_fields', TINY[0])
            TINY[0] = 0
        if OTHER[0]:
            ctx.count('longitudes_in_the_0_360_convention', OTHER[0])
            OTHER[0] = 0
        if rnd.random() < 0.4:
            # the same numbers again with another effective input / output angle type (valid only when they also read
            # as the other notation; judge_request decides) and then the original once more
            q2 = dict(q)
            key = rnd.choice(['from_angle_type', 'to_angle_type', 'from_angle_type'])
            cur = q.get(key, 'dd')
            q2[key] = 'dms' if cur == 'dd' else 'dd'
            judge_request(ns, ctx, tr, client, ep, q2)
            judge_request(ns, ctx, tr, client, ep, q)
            ctx.count('same_numbers_other_angle_type')


def replay(case, ctx):
    ns = core.load_repo(need_api=True)
    tr = Trace(ns.app)
    client = ns.app.app.test_client()
    if case.get('endpoint') == 'index':
        judge_index(ctx, client)
    else:
        judge_request(ns, ctx, tr, client, case['endpoint'], case['query'])
