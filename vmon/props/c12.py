"""C12 Angle-object arithmetic and comparison agree with decimal-degree arithmetic."""
import copy
import math
import operator
import random

import numpy as np
from fractions import Fraction

from .. import core
from ..oracles import angle as ax

ID = 'C12'
TITLE = 'angle-object arithmetic and comparison'
LEVEL = 'exploration'
TECHNIQUE = ('runtime monitoring: post-condition monitors wrapped around every operator overload of the five angle classes, '
             'driven by random expression programs evaluated once per class assignment with a shadow float evaluation')
RULE = ('random expression trees of depth 1..6 over + - neg abs *k k* /k %k with leaves in all five classes (zero, negative '
        'zero-degree angles, minute/degree boundaries, random in [-360,360]); each tree is evaluated for several assignments of '
        'classes to its leaves; every operator call is judged by its monitor against the float operation on the operands\' '
        'exactly denoted values (1e-8" + 4 ulp), result class = class of the angle operand; comparisons judged where operands '
        'differ by more than 1e-8" and checked for mutual consistency always; round(a, n) moves the value by at most half a '
        'unit of the place; every angle operand is copied before the operator runs, is judged on that copy, and must still denote the same angle afterwards; whole-tree result compared with the shadow evaluation within the propagated tolerance. '
        'distinct = (class, operator, operand-class, sign/zero class) buckets Every fourth binary node is written as an augmented assignment with a second binding of the left operand held and compared; every operator result that derives from float must have the float value its field holds.')
ASSUMPTIONS = ['angle_exact gives the denoted value of every operand/result from the stored fields (exact rationals)',
               'comparisons closer than the 1e-8" resolution may answer either way (DESIGN.md section 5)']
REQUIRED_COUNTERS = ['operand_snapshots_compared', 'augmented_assignments', 'float_base_of_result_compared', 'rounding_carry_cases', 'modulus_equal_to_angle', 'carried_fields_modulo_cases', 'numpy_scalar_operands', 'round_then_mod_sequences', 'op:add', 'op:sub', 'op:radd', 'op:rsub', 'op:mul', 'op:rmul', 'op:truediv', 'op:neg', 'op:abs', 'op:mod', 'op:eq', 'op:lt',
                     'op:gt', 'op:ne', 'op:round', 'trees']
N = {'quick': 400, 'thorough': 6000}
SHARDS = {'quick': 16, 'thorough': 32}

TOL = ax.TOL_DEG
CLASSES = ax.ANGLE_CLASSES
BIN = {'__add__': operator.add, '__sub__': operator.sub}


def _den(x):
    return ax.denote(x)


def _isnum(b):
    import numpy as np
    return isinstance(b, (int, float, np.integer, np.floating))


def _short_binary(fr, maxden=4096):
    d = Fraction(fr).denominator
    return d & (d - 1) == 0 and d <= maxden


def _ulp4(v):
    return Fraction(4 * math.ulp(float(v))) if v else Fraction(0)


class OpMonitors:
    def __init__(self, ns, ctx):
        self.A = ns.angles
        self.ctx = ctx
        self.saved = []
        self.active = True

    def _isangle(self, x):
        return type(x).__name__ in CLASSES

    def _viol(self, cls, op, kind, a, b, res, extra=None):
        case = {'cls': cls, 'op': op, 'a': _rep(a), 'b': _rep(b)}
        d = {'result': _rep(res)}
        if extra:
            d.update(extra)
        self.ctx.violation('%s.%s:%s' % (cls, op, kind), case, d)

    def judge_arith(self, cls, op, a, b, res, exc):
        ctx = self.ctx
        short = op.strip('_')
        da = _den(a)
        if da is None:
            return
        if op in ('__neg__', '__abs__'):
            want = -da if op == '__neg__' else abs(da)
        elif op in ('__add__', '__radd__', '__sub__', '__rsub__'):
            if not self._isangle(b):
                return      # not an operation the property speaks about
            db = _den(b)
            if db is None:
                return
            if op == '__add__' or op == '__radd__':
                want = da + db
            elif op == '__sub__':
                want = da - db
            else:
                want = db - da
        elif op in ('__mul__', '__rmul__'):
            if self._isangle(b) or isinstance(b, bool) or not _isnum(b):
                return
            want = da * Fraction(float(b))
        elif op == '__truediv__':
            if self._isangle(b) or isinstance(b, bool) or not _isnum(b) or b == 0:
                return
            want = da / Fraction(float(b))
        elif op == '__mod__':
            if self._isangle(b) or isinstance(b, bool) or not _isnum(b) or b == 0:
                return
            k = Fraction(float(b))
            want = da - k * math.floor(da / k)
        else:
            return
        if abs(want) > 720 or abs(da) > 720:
            ctx.count('out_of_domain')
            return
        ctx.judged()
        ctx.count('op:' + short)
        if b is not None and type(b).__module__ == 'numpy':
            ctx.count('numpy_scalar_operands')
        ctx.bucket(cls, short, type(b).__name__ if b is not None else '-', 'neg' if da < 0 else ('zero' if da == 0 else 'pos'),
                   'subdeg' if abs(da) < 1 else 'deg')
        if exc is not None:
            self._viol(cls, op, 'exception', a, b, None, {'exception': repr(exc)})
            return
        if type(res).__name__ != cls:
            self._viol(cls, op, 'wrong-class', a, b, res, {'got': type(res).__name__})
            return
        dr = _den(res)
        if dr is None:
            self._viol(cls, op, 'invalid-hp-result', a, b, res)
            return
        # the float operation on the operands' decimal-degree values
        tol = TOL + _ulp4(want) + _ulp4(da)
        err = abs(dr - want)
        if op == '__mod__':
            k = abs(Fraction(float(b)))
            n = type(a).__name__
            # is the decimal-degree value of the operand exact under ANY reasonable float formulation (sum of quotients,
            # one division of the sum, ...)?  Only when every field's share is itself a short binary fraction: whole
            # degrees, 15/30/45 minutes, 7.5 minutes, 56.25 seconds ...  (A value that merely happens to be representable,
            # such as 46 44 08.608644179898874, is computed a last-bit off by some correct formulations.)
            exact_operand = _short_binary(Fraction(a.minute) / 60) and (n != 'DMSAngle' or _short_binary(Fraction(a.second) / 3600))
            if ((da / k).denominator != 1 or not exact_operand) and 0 <= dr < k:
                # next to (not on) a multiple of the modulus the float remainder may legitimately come out just below the
                # modulus or just above zero; an operand that IS a multiple (robustly exact, see above) must give zero.
                # A remainder is never equal to or larger than the (positive) modulus itself: no float `%` returns that.
                err = min(err, abs(err - k))
        ctx.maxi('C12.op_err_arcsec', float(err * 3600))
        if err > tol:
            kind = 'wrong-sign' if abs(dr + want) <= tol and abs(want) > tol else 'wrong-value'
            self._viol(cls, op, kind, a, b, res, {'want_deg': float(want), 'got_deg': float(dr), 'err_arcsec': float(err * 3600)})

    def judge_cmp(self, cls, op, a, b, res, exc):
        ctx = self.ctx
        if not self._isangle(b):
            return
        da, db = _den(a), _den(b)
        if da is None or db is None:
            return
        short = op.strip('_')
        ctx.judged()
        ctx.count('op:' + short)
        ctx.bucket(cls, short, type(b).__name__, 'close' if abs(da - db) <= TOL else 'apart')
        if exc is not None:
            self._viol(cls, op, 'exception', a, b, None, {'exception': repr(exc)})
            return
        if abs(da - db) <= TOL:
            ctx.count('cmp_within_resolution')
            return
        want = {'eq': da == db, 'ne': da != db, 'lt': da < db, 'gt': da > db}[short]
        if bool(res) != want:
            self._viol(cls, op, 'wrong-answer', a, b, res, {'a_deg': float(da), 'b_deg': float(db)})

    def judge_round(self, cls, a, n, res, exc):
        ctx = self.ctx
        if cls == 'HPAngle':
            return      # the property speaks of decimal, gradian, DMS and DDM objects
        da = _den(a)
        ctx.judged()
        ctx.count('op:round')
        ctx.bucket(cls, 'round', n)
        if exc is not None:
            self._viol(cls, '__round__', 'exception', a, n, None, {'exception': repr(exc)})
            return
        if type(res).__name__ != cls:
            self._viol(cls, '__round__', 'wrong-class', a, n, res)
            return
        dr = _den(res)
        places = 0 if n is None else n
        unit = {'DECAngle': Fraction(1), 'GONAngle': Fraction(9, 10), 'DMSAngle': Fraction(1, 3600),
                'DDMAngle': Fraction(1, 60)}[cls] * Fraction(1, 10 ** places)
        # half a unit of the place, plus the float representation of the rounded field
        allow = unit / 2 + Fraction(4 * math.ulp(max(1.0, abs(float(da)))))
        err = abs(dr - da)
        if err > allow:
            kind = 'wrong-sign' if abs(dr + da) <= allow and abs(da) > allow else 'moved-more-than-half-unit'
            self._viol(cls, '__round__', kind, a, n, res, {'before_deg': float(da), 'after_deg': float(dr), 'places': n})

    def _snap(self, x):
        """an independent copy of an angle operand taken before the operator runs (judgements use the value the operand
        had when the operator was called; afterwards the operand itself must still denote that value)"""
        if not self._isangle(x):
            return x
        try:
            return copy.copy(x)
        except Exception:
            return x

    def operands_unchanged(self, cls, op, before, after_objs):
        """An operator may normalise its operand's fields, but the operand must denote the same angle afterwards:
        otherwise every later use of it differs from the float operation on the value it was given."""
        for role, snap, obj in zip(('self', 'other'), before, after_objs):
            if snap is obj or not self._isangle(obj):
                continue
            d0, d1 = _den(snap), _den(obj)
            self.ctx.count('operand_snapshots_compared')
            if d0 is None:
                continue
            if d1 is None or abs(d1 - d0) > TOL:
                self._viol(cls, op, 'operand-changed-by-operator', snap, None, obj,
                           {'role': role, 'before_deg': float(d0), 'after_deg': (None if d1 is None else float(d1))})
                return False
        return True

    def float_consistent(self, cls, op, a, b, res):
        """the result read as the float it is (DECAngle derives from float) is the angle its fields denote"""
        mm = ax.float_value_mismatch(res)
        if mm is None:
            if isinstance(res, float) and self._isangle(res):
                self.ctx.count('float_base_of_result_compared')
            return
        self._viol(cls, op, 'result-read-as-float-differs-from-its-angle', a, b, res, {'float_value': mm[0], 'dec_angle': mm[1]})

    def install(self):
        A = self.A
        mon = self
        for cname in CLASSES:
            cls = getattr(A, cname)
            # the operator a class answers with may be its own or come from a shared private base of the tree
            for op in ('__add__', '__radd__', '__sub__', '__rsub__', '__mul__', '__rmul__', '__truediv__', '__mod__'):
                if core.repo_method(cls, op)[0] is not None:
                    self._wrap2(cls, cname, op, self.judge_arith)
            for op in ('__neg__', '__abs__'):
                if core.repo_method(cls, op)[0] is not None:
                    self._wrap1(cls, cname, op)
            for op in ('__eq__', '__ne__', '__lt__', '__gt__'):
                if core.repo_method(cls, op)[0] is not None:
                    self._wrap2(cls, cname, op, self.judge_cmp)
            if core.repo_method(cls, '__round__')[0] is not None:
                self._wrap_round(cls, cname)
        return self

    def _wrap2(self, cls, cname, op, judge):
        fn, own = core.repo_method(cls, op)
        mon = self

        def wrapper(self_, other):
            if not mon.active:
                return fn(self_, other)
            a0, b0 = mon._snap(self_), mon._snap(other)
            try:
                r = fn(self_, other)
            except Exception as e:
                judge(cname, op, a0, b0, None, e)
                raise
            mon.operands_unchanged(cname, op, (a0, b0), (self_, other))
            judge(cname, op, a0, b0, r, None)
            mon.float_consistent(cname, op, a0, b0, r)
            return r
        wrapper.__name__ = op
        setattr(cls, op, wrapper)
        self.saved.append((cls, op, fn, own))

    def _wrap1(self, cls, cname, op):
        fn, own = core.repo_method(cls, op)
        mon = self

        def wrapper(self_):
            if not mon.active:
                return fn(self_)
            a0 = mon._snap(self_)
            try:
                r = fn(self_)
            except Exception as e:
                mon.judge_arith(cname, op, a0, None, None, e)
                raise
            mon.operands_unchanged(cname, op, (a0,), (self_,))
            mon.judge_arith(cname, op, a0, None, r, None)
            mon.float_consistent(cname, op, a0, None, r)
            return r
        wrapper.__name__ = op
        setattr(cls, op, wrapper)
        self.saved.append((cls, op, fn, own))

    def _wrap_round(self, cls, cname):
        fn, own = core.repo_method(cls, '__round__')
        mon = self

        def wrapper(self_, n=None):
            if not mon.active:
                return fn(self_, n)
            a0 = mon._snap(self_)
            try:
                r = fn(self_, n)
            except Exception as e:
                mon.judge_round(cname, a0, n, None, e)
                raise
            mon.operands_unchanged(cname, '__round__', (a0,), (self_,))
            mon.judge_round(cname, a0, n, r, None)
            mon.float_consistent(cname, '__round__', a0, n, r)
            return r
        wrapper.__name__ = '__round__'
        setattr(cls, '__round__', wrapper)
        self.saved.append((cls, '__round__', fn, own))

    def uninstall(self):
        for cls, op, fn, own in self.saved:
            core.restore_method(cls, op, fn, own)
        self.saved = []


def _rep(x):
    from ..anglemon import _argrepr
    if x is None or type(x) in (int, float, bool):
        return x
    return _argrepr(x)


# ---------------------------------------------------------------------------------------------
# expression programs
# ---------------------------------------------------------------------------------------------
def gen_leaf_value(rnd):
    r = rnd.random()
    if r < 0.10:
        return 0.0
    if r < 0.25:     # negative-zero-degree and sub-degree angles
        return rnd.choice([-1, 1]) * rnd.choice([0.5, 1 / 60, 59 / 60 + 59 / 3600, 1 / 3600, rnd.uniform(0, 1)])
    if r < 0.45:     # minute / degree boundaries (whole seconds)
        k = rnd.randint(-360 * 3600, 360 * 3600)
        k -= k % rnd.choice([60, 3600, 1])
        return k / 3600.0
    if r < 0.55:
        return float(rnd.randint(-360, 360))
    return rnd.uniform(-360.0, 360.0)


def gen_tree(rnd, depth):
    """Tree as nested lists: ['leaf', value] | [op, child, (k | child)]"""
    if depth <= 0 or rnd.random() < 0.15:
        return ['leaf', gen_leaf_value(rnd)]
    r = rnd.random()
    if r < 0.30:
        return ['add', gen_tree(rnd, depth - 1), gen_tree(rnd, depth - 1)]
    if r < 0.55:
        return ['sub', gen_tree(rnd, depth - 1), gen_tree(rnd, depth - 1)]
    if r < 0.63:
        return ['neg', gen_tree(rnd, depth - 1)]
    if r < 0.70:
        return ['abs', gen_tree(rnd, depth - 1)]
    k = rnd.choice([2, 3, 0.5, -1, -2.5, 1.25, 4, 1, rnd.choice([-1, 1]) * round(rnd.uniform(0.25, 4), 3)])
    if rnd.random() < 0.25:
        # numpy scalars are numbers too (np.float64 is a float subclass); float32 is left out: a float32 factor makes the
        # plain float operation itself single precision, so there is nothing to hold the library to
        dt = rnd.choice(['float64', 'int64'])
        k = {'np': dt, 'v': ((int(k) or 2) if dt == 'int64' else k)}
    if r < 0.78:
        return ['mul', gen_tree(rnd, depth - 1), k]
    if r < 0.86:
        # k * a with a numpy scalar on the left is decided by numpy's own operator (it treats a float-subclass angle as a
        # float and never asks the angle class), which is outside the library: plain numbers only on the left
        return ['rmul', gen_tree(rnd, depth - 1), k['v'] if isinstance(k, dict) else k]
    if r < 0.94:
        return ['div', gen_tree(rnd, depth - 1), k]
    return ['mod', gen_tree(rnd, depth - 1), rnd.choice([360, 180, 90, 1, 360.0, 7.5])]


def num(k):
    """number operand: a Python int/float or {'np': dtype, 'v': value} for a numpy scalar of that dtype"""
    if isinstance(k, dict):
        import numpy as np
        return getattr(np, k['np'])(k['v'])
    return k


def numf(k):
    return float(num(k))


def shadow(t):
    """(value, tolerance in degrees) of the float evaluation with leaves as decimal degrees."""
    op = t[0]
    if op == 'leaf':
        return t[1], 1e-8 / 3600
    a, ta = shadow(t[1])
    if op in ('add', 'sub'):
        b, tb = shadow(t[2])
        return (a + b if op == 'add' else a - b), ta + tb + 1e-8 / 3600
    if op == 'neg':
        return -a, ta + 1e-8 / 3600
    if op == 'abs':
        return abs(a), ta + 1e-8 / 3600
    k = numf(t[2])
    if op in ('mul', 'rmul'):
        return a * k, ta * abs(k) + 1e-8 / 3600
    if op == 'div':
        return a / k, ta / abs(k) + 1e-8 / 3600
    if op == 'mod':
        return a % k, ta + 1e-8 / 3600
    raise ValueError(op)


def max_mag(t):
    op = t[0]
    v, _ = shadow(t)
    m = abs(v)
    for c in t[1:]:
        if isinstance(c, list):
            m = max(m, max_mag(c))
    return m


def mod_unstable(t):
    """True if some modulo node sits within tolerance of a multiple of its modulus (wrap-around don't-care)."""
    op = t[0]
    if op == 'leaf':
        return False
    if op == 'mod':
        a, ta = shadow(t[1])
        k = numf(t[2])
        r = a % k
        if min(r, k - r) <= 4 * ta + 1e-9:
            return True
    return any(isinstance(c, list) and mod_unstable(c) for c in t[1:])


def count_leaves(t):
    if t[0] == 'leaf':
        return 1
    return sum(count_leaves(c) for c in t[1:] if isinstance(c, list))


AUG = {'n': 0, 'changed': []}


def _augmented(t):
    """every fourth binary node (decided by the node's own text, so a replay repeats it) is written as an augmented assignment"""
    return int(core.stable_hash(['aug', t]), 16) % 4 == 0


def evaluate(A, t, classes, it):
    op = t[0]
    if op == 'leaf':
        cls = classes[next(it)]
        return ax.make_object(A, cls, t[1])
    a = evaluate(A, t[1], classes, it)
    if op in ('add', 'sub'):
        b = evaluate(A, t[2], classes, it)
        if _augmented(t):
            # the statement form, as in `total = legs[0]; total += leg`: the other binding of the left operand must still be
            # the angle it was (the same program on floats leaves it alone)
            keep, before = a, _den(a)
            x = a
            if op == 'add':
                x += b
            else:
                x -= b
            AUG['n'] += 1
            after = _den(keep)
            if before is not None and (after is None or abs(after - before) > TOL):
                AUG['changed'].append({'op': op, 'left_class': type(keep).__name__, 'before_deg': float(before),
                                       'after_deg': None if after is None else float(after)})
            return x
        return a + b if op == 'add' else a - b
    if op == 'neg':
        return -a
    if op == 'abs':
        return abs(a)
    k = num(t[2])
    if op in ('mul', 'div') and _augmented(t):
        keep, before = a, _den(a)
        x = a
        if op == 'mul':
            x *= k
        else:
            x /= k
        AUG['n'] += 1
        after = _den(keep)
        if before is not None and (after is None or abs(after - before) > TOL):
            AUG['changed'].append({'op': op, 'left_class': type(keep).__name__, 'before_deg': float(before),
                                   'after_deg': None if after is None else float(after)})
        return x
    if op == 'mul':
        return a * k
    if op == 'rmul':
        return k * a
    if op == 'div':
        return a / k
    if op == 'mod':
        if type(a).__name__ not in ('DMSAngle', 'DDMAngle'):
            # modulo is defined for DMS and DDM objects only: bring the operand there by a monitored method
            a = a.dms() if (id(a) % 2 == 0) else a.ddm()
        return a % k
    raise ValueError(op)


def has_mod(t):
    return t[0] == 'mod' or any(isinstance(c, list) and has_mod(c) for c in t[1:])


def run_tree(ns, ctx, tree, assignments):
    A = ns.angles
    sv, stol = shadow(tree)
    unstable = mod_unstable(tree)
    for classes in assignments:
        ctx.count('trees')
        try:
            res = evaluate(A, tree, classes, iter(range(len(classes))))
        except Exception as e:
            # an operator's monitor has recorded the failing node; the program as a whole failed too
            ctx.judged()
            ctx.violation('expression:exception', {'tree': tree, 'classes': classes}, {'exception': repr(e)})
            AUG['n'], AUG['changed'] = 0, []
            continue
        ctx.judged()
        if AUG['n']:
            ctx.count('augmented_assignments', AUG['n'])
            AUG['n'] = 0
        for ch in AUG['changed']:
            ctx.violation('augmented-assignment:other-binding-of-left-operand-changed#%s' % ch['left_class'],
                          {'tree': tree, 'classes': classes}, ch)
        AUG['changed'] = []
        if unstable:
            ctx.count('trees_mod_dontcare')
            continue
        dr = ax.denote(res)
        if dr is None:
            ctx.violation('expression:invalid-hp-result', {'tree': tree, 'classes': classes}, {'result': repr(res)})
            continue
        err = abs(float(dr) - sv)
        ctx.maxi('ratio:C12.tree', err / (stol + 8 * math.ulp(max(1.0, abs(sv)))))
        if err > stol + 8 * math.ulp(max(1.0, abs(sv))):
            ctx.violation('expression:differs-from-float-evaluation', {'tree': tree, 'classes': classes},
                          {'result_deg': float(dr), 'shadow_deg': sv, 'tolerance_deg': stol})
        # comparisons and rounding at the root against a second operand
    return sv


def compare_and_round(ns, ctx, rnd, v1, v2, c1, c2):
    A = ns.angles
    try:
        a = ax.make_object(A, c1, v1)
        b = ax.make_object(A, c2, v2)
    except Exception:
        ctx.count('leaf_unconstructible')
        return
    out = {}
    for name, f in (('eq', operator.eq), ('ne', operator.ne), ('lt', operator.lt), ('gt', operator.gt)):
        try:
            out[name] = bool(f(a, b))
        except Exception:
            out[name] = None
    ctx.judged()
    ctx.count('cmp_consistency')
    if None not in out.values():
        bad = (out['eq'] == out['ne']) or (out['lt'] and out['gt']) or (out['eq'] and (out['lt'] or out['gt'])) or \
              ((not out['eq']) and not (out['lt'] or out['gt']))
        if bad:
            ctx.violation('comparison:inconsistent', {'cmp': [v1, v2, c1, c2]}, out)
    n = rnd.choice([None, 0, 1, 2, 3, 4, 6, 9])
    try:
        round(a, n)
    except Exception:
        pass
    # modulus with a fractional part close to the operand, moduli below one degree, and round-then-modulo sequences
    # (rounding can leave seconds = 60.0 / minutes = 60.0 in the fields)
    for cls in ('DMSAngle', 'DDMAngle'):
        try:
            o = ax.make_object(A, cls, abs(v1) if rnd.random() < 0.7 else v1)
        except Exception:
            continue
        d = float(ax.denote(o))
        for k in (abs(d), int(abs(d)) if abs(d) == int(abs(d)) and d else abs(d),
                  math.floor(abs(d)) + rnd.choice([0.5, 0.25, 0.1]), rnd.choice([0.5, 0.25, 1.5, 7.5, 90.5]), float(int(abs(d)) + 1),
                  round(rnd.uniform(0.1, 400.0), rnd.choice([0, 1, 3]))):
            if k <= 0:
                continue
            try:
                o % k
            except Exception:
                pass
        try:
            r = round(o, rnd.choice([0, 1, 2, 3]))
            r % rnd.choice([360, 180, float(int(abs(d)) + 1), 90])
            ctx.count('round_then_mod_sequences')
        except Exception:
            pass
    # carried fields (seconds = 60 / minutes = 60, as the library's own round() leaves them, or typed that way) whose value is
    # a whole multiple of the modulus, with the modulus as int, float and numpy integer
    for cls in ('DMSAngle', 'DDMAngle'):
        k = rnd.choice([360, 180, 90, 30, 10, 7, 2, 1])
        D = k * rnd.randint(1, max(1, 359 // k)) - 1
        n = rnd.choice([None, 0, 1, 2])
        unit = 10.0 ** -(n or 0)
        frac = 60.0 - unit * rnd.choice([0.4, 0.1, 0.49])
        try:
            o = A.DMSAngle(D, 59, frac) if cls == 'DMSAngle' else A.DDMAngle(D, frac)
            r = round(o, n)
            direct = [A.DMSAngle(D, 59, 60.0), A.DMSAngle(D, 60, 0.0), A.DMSAngle(D, 59, 60)] if cls == 'DMSAngle' \
                else [A.DDMAngle(D, 60.0), A.DDMAngle(D, 60)]
            for obj in [r] + direct:
                for kk in (k, float(k), np.int64(k)):
                    try:
                        obj % kk
                    except Exception:
                        pass
            ctx.count('carried_fields_modulo_cases')
        except Exception:
            pass
    # rounding that carries: seconds (minutes) within half a unit of the place below 60, minute field 59 or not, both signs
    for cls in ('DMSAngle', 'DDMAngle'):
        n = rnd.choice([0, 1, 2, 3, None])
        unit = 10.0 ** -(n or 0)
        D = rnd.choice([0, 1, 10, rnd.randint(0, 359)])
        M = rnd.choice([59, 59, rnd.randint(0, 58)])
        frac = 60.0 - unit * rnd.choice([0.4, 0.1, 0.49, 0.6])
        pos = rnd.random() < 0.5
        try:
            o = A.DMSAngle(D, M, frac, positive=pos) if cls == 'DMSAngle' else A.DDMAngle(D, frac, positive=pos)
            round(o, n)
            ctx.count('rounding_carry_cases')
        except Exception:
            pass
    # an angle that equals the modulus bit for bit (whole degrees / half degrees are exact): the result must be zero
    for cls in ('DMSAngle', 'DDMAngle'):
        D = rnd.choice([1, 30, 90, 180, 360, rnd.randint(1, 359)])
        half = rnd.random() < 0.3
        try:
            o = getattr(A, cls)(D, 30 if half else 0) if cls == 'DDMAngle' else getattr(A, cls)(D, 30 if half else 0, 0)
            k = (D + 0.5) if half else rnd.choice([D, float(D)])
            o % k
            (o + getattr(A, cls)(0)) % k
            ctx.count('modulus_equal_to_angle')
        except Exception:
            pass
    # the reflected operators are never reached by `x + y` between two angle objects (the left operand's own
    # operator always answers); they are part of the overload set, so they are driven directly
    for name in ('__radd__', '__rsub__'):
        if abs(v1) + abs(v2) < 720:
            try:
                getattr(a, name)(b)
            except Exception:
                pass


def plan(tier, seed):
    specs = [{'n': N[tier]} for _ in range(SHARDS[tier])]
    if tier == 'thorough':
        specs.append({'n': 0, 'ambient': True})
    return specs


def run_shard(spec, ctx):
    ns = core.load_repo()
    mon = OpMonitors(ns, ctx).install()
    rnd = random.Random('%s-%s-%s' % (ID, spec['seed'], spec['shard']))
    if spec.get('ambient'):
        core.run_repo_tests(ns, ['geodepy/tests/test_angles.py', 'geodepy/tests/test_convert.py', 'geodepy/tests/test_coord.py'], ctx)
        ctx.bucket('ambient', 'repo-tests')
    for i in range(spec['n']):
        for _ in range(50):
            tree = gen_tree(rnd, rnd.randint(1, 6))
            if tree[0] != 'leaf' and max_mag(tree) < 720:
                break
        else:
            continue
        nl = count_leaves(tree)
        assignments = [[c] * nl for c in CLASSES]
        for _ in range(5):
            assignments.append([rnd.choice(CLASSES) for _ in range(nl)])
        if i < 2:
            ctx.sample({'tree': tree, 'classes': assignments[-1]})
        run_tree(ns, ctx, tree, assignments)
        # comparisons / rounding
        v1 = gen_leaf_value(rnd)
        r = rnd.random()
        if r < 0.3:
            v2 = v1
        elif r < 0.5:
            v2 = math.nextafter(v1, rnd.choice([-1e9, 1e9]))
        elif r < 0.6:
            v2 = v1 + rnd.choice([-1, 1]) * rnd.choice([1e-9, 1e-8, 3e-8, 1e-6]) / 3600
        else:
            v2 = gen_leaf_value(rnd)
        compare_and_round(ns, ctx, rnd, v1, v2, rnd.choice(CLASSES), rnd.choice(CLASSES))
    mon.uninstall()


def replay(case, ctx):
    ns = core.load_repo()
    mon = OpMonitors(ns, ctx).install()
    A = ns.angles
    from ..anglemon import rebuild_arg
    try:
        if 'tree' in case:
            run_tree(ns, ctx, case['tree'], [case['classes']])
        elif 'cmp' in case:
            v1, v2, c1, c2 = case['cmp']
            compare_and_round(ns, ctx, random.Random(0), v1, v2, c1, c2)
        else:
            a = rebuild_arg(A, case['a'])
            b = rebuild_arg(A, case['b'])
            op = case['op']
            try:
                if op in ('__neg__', '__abs__'):
                    getattr(a, op)()
                else:
                    getattr(a, op)(b)
            except Exception:
                pass
    finally:
        mon.uninstall()
