"""C05 Inverse geodesic solution is exact, symmetric and longitude-shift invariant."""
import random

from .. import core, geowork

ID = 'C05'
TITLE = 'inverse geodesic (vincinv)'
LEVEL = 'exploration'
RULE = ('point pairs with spherical separation <= 178 deg: random, same parallel, same meridian, equatorial, polar, '
        '+-180-straddling, short (1 m..1 km) and very short (1 mm..1 m) lines built with geod_exact, pole-crossing, long '
        '(16 000..19 750 km), coincident / within 5e-11 deg, near-meridional; five ellipsoid families.  Judged: following the '
        'exact geodesic from P1 with the returned distance and azimuth ends within 2 mm of P2; reverse azimuth = geodesic '
        'end azimuth + 180 within 1e-8 deg + 2 mm subtended at the distance from the axis; swap and common longitude shift '
        '(+-360, random) change s by <= 1 mm and azimuths by <= 1 mm at the far end; coincident -> 0; no exception.  '
        '4 % of the cases are preceded by one or two calls the property does not speak about (nearly antipodal or antipodal pairs, latitudes beyond the poles, NaN, a string; distances beyond half the circumference): not judged, exceptions swallowed, but the judged call after them must be as right as ever.  distinct = ellipsoid x family x separation band x distance decade x latitude band')
ASSUMPTIONS = ['geod_exact direct solver (self-validated each shard)',
               'lever arm for "moves the far end by 1 mm" = spherical reduced length a|sin(s/a)|']
N = {'quick': 1200, 'thorough': 20000}
SHARDS = {'quick': 16, 'thorough': 32}
REQUIRED_COUNTERS = ['unjudged_calls_before_a_judged_one', 'alias_sequences', 'closure_judged', 'reverse_judged', 'swap_judged', 'shift_judged', 'coincident']


def plan(tier, seed):
    return [{'n': N[tier]} for _ in range(SHARDS[tier])]


def run_shard(spec, ctx):
    ns = core.load_repo()
    geowork.geod_selfcheck(ctx)
    reach = core.LineReach()
    reach.watch(ns.geodesy.vincinv)
    reach.start()
    rnd = random.Random('%s-%s-%s' % (ID, spec['seed'], spec['shard']))
    try:
        for i in range(spec['n']):
            case = geowork.gen_inverse_case(rnd)
            if rnd.random() < 0.04:
                case['before'] = geowork.gen_unjudged_calls(rnd, rnd.choice(['vincinv', 'vincinv', 'vincinv', 'vincdir']))
            if i < 2:
                ctx.sample(case)
            geowork.judge_inverse(ns, ctx, case)
            if rnd.random() < 0.3:
                c2 = dict(case)
                c2['ell'] = geowork.alias_ell(rnd, case['ell'])
                geowork.judge_inverse(ns, ctx, c2)
                ctx.count('alias_sequences')
    finally:
        reach.stop()
    ctx.info['lines_reached'] = reach.summary()


def replay(case, ctx):
    ns = core.load_repo()
    geowork.judge_inverse(ns, ctx, case)
