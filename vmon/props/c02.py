"""C02 Grid-to-geographic conversion inverts the forward conversion everywhere."""
import random

from .. import core, tmwork

ID = 'C02'
TITLE = 'inverse TM / round trips / mirror / stand-alone'
LEVEL = 'exploration'
RULE = ('two generation modes: (a) geographic positions as in C01 -> geo2grid -> grid2geo, closure <= 2e-9 deg of arc; '
        '(b) grid coordinates drawn directly on a lattice (zones 1..60 / ten ISG zones, both hemispheres, eastings to '
        '|dlon|=30deg inside the accepted range, latitudes >= 1e-6 deg inside the band) -> grid2geo compared with the '
        'tm_exact inverse, -> geo2grid closure <= 0.2 mm, mirrored coordinate in the other hemisphere, and the '
        'stand-alone mga2gda.grid2geo for southern UTM/GRS80; non-trivial = valid coordinate of the quantified domain '
        '(decided by the oracle; rejected ones are counted, not judged); 3 % of the cases are preceded by one or two calls the property does not speak about (latitude/longitude/zone outside the accepted ranges, NaN, strings, invalid hemisphere words): not judged, exceptions swallowed, the judged call after them must be as right as ever.  distinct = class buckets Grid cases also go through CoordTM.geo() in one of the six notations (chosen by the case\'s hash) and must give the functional inverse\'s position.')
ASSUMPTIONS = ['tm_exact oracle (self-validated each shard)',
               '"within 2e-9 degrees" is read as angular distance on the ground hypot(dlat, dlon*cos lat) (DESIGN.md C02)',
               'mirror latitudes/longitudes may differ by one unit of the 11-decimal output rounding (1.5e-11 deg)']
N = {'quick': 1500, 'thorough': 25000}
SHARDS = {'quick': 16, 'thorough': 32}
REQUIRED_COUNTERS = ['inverse_through_coordinate_class', 'unjudged_calls_before_a_judged_one', 'across_antimeridian_cases', 'alias_sequences', 'near_axis_cases', 'roundtrip_geo', 'roundtrip_grid', 'mirror', 'standalone', 'standalone_batch_rows']


def plan(tier, seed):
    specs = [{'n': N[tier]} for _ in range(SHARDS[tier])]
    if tier == 'thorough':
        specs += [{'n': 0, 'lattice': [i, 8], 'ell': ['grs80', 'ans', 'intl24', 'wgs84'][i % 4]} for i in range(8)]
    return specs


def _one(ns, ctx, case):
    if case['mode'] == 'geo':
        tmwork.judge_forward(ns, ctx, case, ('RT',))
    else:
        tmwork.judge_grid(ns, ctx, case, ('I',))


def run_shard(spec, ctx):
    ns = core.load_repo(need_standalone=True)
    tmwork.tm_selfcheck(ctx, n_mp=3)
    reach = tmwork.reach_setup(ns)
    rnd = random.Random('%s-%s-%s' % (ID, spec['seed'], spec['shard']))
    try:
        if spec.get('lattice'):
            for case in tmwork.lattice_cases(spec['lattice'][0], spec['lattice'][1], spec['ell']):
                tmwork.judge_forward(ns, ctx, case, ('RT',))
            ctx.sample({'kind': '1x1 degree lattice x 3 zone modes', 'part': spec['lattice'], 'ell': spec['ell']})
        for i in range(spec['n']):
            case = tmwork.gen_geo_case(rnd, coordapi=False)
            if rnd.random() < 0.03:
                case['before'] = tmwork.gen_unjudged_calls(rnd)
            if i < 1:
                ctx.sample(case)
            _one(ns, ctx, case)
            case = tmwork.gen_grid_case(rnd)
            if rnd.random() < 0.03:
                case['before'] = tmwork.gen_unjudged_calls(rnd)
            if rnd.random() < 0.25:
                # dedicated share for the stand-alone converter's domain
                case['ell'], case['prj'], case['hemi'] = 'grs80', 'utm', 'south'
                case['zone'] = rnd.randint(1, 60)
            if i < 1:
                ctx.sample(case)
            _one(ns, ctx, case)
            if rnd.random() < 0.3:
                _one(ns, ctx, tmwork.alias_grid_case(rnd, case))
                g0 = tmwork.gen_geo_case(rnd, coordapi=False)
                _one(ns, ctx, g0)
                _one(ns, ctx, tmwork.alias_geo_case(rnd, g0))
                ctx.count('alias_sequences')
            if rnd.random() < 0.15:
                c3 = tmwork.near_axis_grid_case(rnd)
                if rnd.random() < 0.5:
                    c3['ell'], c3['prj'], c3['hemi'] = 'grs80', 'utm', 'south'      # the stand-alone converter's domain
                    if c3['east'] != 500000.0 and abs(c3['east'] - 500000.0) > 5:
                        c3['east'] = round(500000.0 + rnd.choice([1, -1]) * 10 ** rnd.uniform(-4, 0.5), 4)
                _one(ns, ctx, c3)
                ctx.count('near_axis_cases')
        if spec['n']:
            for _ in range(2):
                tmwork.judge_standalone_batch(ns, ctx, rnd, 60 if spec['tier'] == 'quick' else 400)
    finally:
        reach.stop()
    ctx.info['lines_reached'] = reach.summary()


def replay(case, ctx):
    ns = core.load_repo(need_standalone=True)
    if case.get('mode') == 'standalone-batch':
        tmwork.run_standalone_rows(ns, ctx, case['rows'])
        return
    _one(ns, ctx, case)
