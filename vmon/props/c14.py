"""C14 Grid-based geodesic computations agree with ellipsoid and projection."""
import math
import random

from .. import core, tmwork
from ..oracles import tm, geod, angle as ax

ID = 'C14'
TITLE = 'grid geodesics (vincinv_utm / vincdir_utm / line_sf)'
LEVEL = 'exploration'
TECHNIQUE = ('runtime monitoring: post-conditions on vincinv_utm, vincdir_utm and line_sf judged with the exact TM and geodesic '
             'oracles; a call-budget monitor on line_sf turns non-termination of the uncapped direct loop into a verdict')
RULE = ('P1 drawn in zones 1..60, both hemispheres, easting 100 000..900 000, latitude -80..84; P2 = exact geodesic end point for '
        'lengths 1 m..100 km in every direction, given in P1\'s zone or (when its easting there is inside 100 000..900 000) the '
        'adjacent zone; grid coordinates rounded to the millimetre; longitudes outside [-180,180] excluded.  Judged: the exact '
        'geodesic from P1 with grid_dist/lsf and grid1to2 - convergence ends within 2 mm of P2; grid2to1 = end azimuth + 180 + '
        'convergence in P2\'s own zone (1e-8 deg + 1 mm at the far end); vincdir_utm(bearing, distance) reproduces P2 within '
        '1 mm in P1\'s zone; lsf within [min, max] point scale factor +-3e-7 and within 5e-7 of the 11-point Simpson mean (psf from '
        'tm_exact).  5 % of the direct calls are preceded by a tuned 1 m line in the same zone whose returned line scale factor equals the planar first estimate of the judged line (a value taken from the artefact).  distinct = zone band x hemisphere x |lat| band x length decade x direction octant x same/adjacent zone x '
        'ellipsoid Point pairs with the same easting/northing figures in neighbouring zones (north of 81.6 deg) are a class; point pairs closer than 0.5 m are not judged.')
ASSUMPTIONS = ['tm_exact and geod_exact oracles (self-validated each shard)',
               'bearing tolerance 1e-8 deg + 1 mm at the far end (the statement gives none for bearings; DESIGN.md section 5)']
N = {'quick': 400, 'thorough': 6000}
SHARDS = {'quick': 16, 'thorough': 32}
REQUIRED_COUNTERS = ['same_figures_in_neighbouring_zones', 'tuned_predecessor_sequences', 'other_hemisphere_sequences', 'other_ellipsoid_sequences', 'inverse_closure', 'bearing2_judged', 'direct_judged', 'lsf_judged', 'adjacent_zone_cases', 'northern_cases']
K0, FE, FN = 0.9996, 500000.0, 10000000.0
BUDGET = 60


class Budget(Exception):
    pass


def plan(tier, seed):
    return [{'n': N[tier]} for _ in range(SHARDS[tier])]


def cm_of(zone):
    return zone * 6.0 - 183.0


def to_grid(lat, lon, zone, a, invf):
    x, y, k, g = tm.forward(lat, lon - cm_of(zone), a, invf, K0)
    return x + FE, y + (FN if lat < 0 else 0.0), k, g


def from_grid(zone, e, n, south, a, invf):
    la, dl, k, g = tm.inverse(e - FE, n - (FN if south else 0.0), a, invf, K0)
    return la, cm_of(zone) + dl, k, g


def gen_case(rnd):
    ell = rnd.choice(['grs80'] * 6 + ['wgs84', 'ans', 'intl24', [6378200.0, 299.5]])
    a, invf = tmwork.ell_published(ell)
    if rnd.random() < 0.04:
        # the same easting and northing figures in two neighbouring zones (far enough north for the two points to be less
        # than 100 km apart): two different ground points whose numbers coincide
        for _ in range(50):
            zone1 = rnd.randint(2, 59)
            zone2 = zone1 + rnd.choice([1, -1])
            E = round(rnd.uniform(400000.0, 600000.0), rnd.choice([0, 3]))
            lat = rnd.uniform(81.6, 83.8)
            _, N, _, _ = to_grid(lat, cm_of(zone1) + math.degrees((E - FE) / K0 / max(geod.axis_distance(lat, a, invf), 1.0)), zone1, a, invf)
            N = round(N, rnd.choice([0, 3]))
            la1, lo1, _, _ = from_grid(zone1, E, N, False, a, invf)
            la2, lo2, _, _ = from_grid(zone2, E, N, False, a, invf)
            L = geod.chord(la1, lo1, la2, lo2, a, invf)
            if not (1.0 <= L <= 99000.0 and -180.0 <= lo1 <= 180.0 and -180.0 <= lo2 <= 180.0 and la1 < 83.9 and la2 < 83.9):
                continue
            N2 = N
            if rnd.random() < 0.3 and L < 95000.0:
                N2 = round(N + rnd.choice([1, -1]) * rnd.uniform(1.0, 3000.0), 3)       # only the eastings coincide
                la2, lo2, _, _ = from_grid(zone2, E, N2, False, a, invf)
                if la2 >= 83.9:
                    continue
            return {'ell': ell, 'zone1': zone1, 'east1': E, 'north1': N, 'zone2': zone2, 'east2': E, 'north2': N2, 'hemi': 'north',
                    'az': 90.0 if zone2 > zone1 else 270.0, 'length': L, 'same_figures': True}
    for _ in range(200):
        zone1 = rnd.randint(1, 60)
        south = rnd.random() < 0.5
        r = rnd.random()
        if r < 0.15:
            alat = rnd.choice([rnd.uniform(70, 79.9), rnd.uniform(0.001, 1.0), rnd.uniform(0.0006, 0.02), rnd.uniform(0.0006, 0.2)])
        else:
            alat = rnd.uniform(0.0005, 79.9)
        if not south and rnd.random() < 0.2:
            alat = rnd.uniform(78, 83.9)
        lat1 = -alat if south else alat
        adj = rnd.random() < 0.3
        e1 = rnd.uniform(100000.0, 900000.0)
        if adj and rnd.random() < 0.7:
            e1 = rnd.choice([rnd.uniform(100000.0, 250000.0), rnd.uniform(750000.0, 900000.0)])
        # northing for that latitude at that easting: go through the oracle (inverse of easting only is not needed:
        # pick dlon from the easting on the parallel, iterate once)
        nu_cos = geod.axis_distance(lat1, a, invf)
        dl = math.degrees((e1 - FE) / K0 / max(nu_cos, 1.0))
        if abs(dl) > 20:
            continue
        E1, N1, _, _ = to_grid(lat1, cm_of(zone1) + dl, zone1, a, invf)
        if not (100000.0 <= E1 <= 900000.0):
            continue
        E1, N1 = round(E1, 3), round(N1, 3)
        la1, lo1, _, _ = from_grid(zone1, E1, N1, south, a, invf)
        az = rnd.choice([rnd.uniform(0, 360), rnd.uniform(0, 360), rnd.choice([0.0, 90.0, 180.0, 270.0, 45.0])])
        length = 10 ** rnd.uniform(0, 5)
        if rnd.random() < 0.1:
            length = rnd.choice([1.0, 100000.0, 99999.0, 54972.271])
        la2, lo2, _ = geod.direct(la1, lo1, az, length, a, invf)
        if (la2 < 0) != south or abs(la2) < 1e-4 or not (-80.0 < la2 < 84.0):
            continue
        if not (-180.0 <= lo1 <= 180.0 and -180.0 <= lo2 <= 180.0):
            continue
        zone2 = zone1
        if adj:
            zone2 = zone1 + (1 if lo2 > cm_of(zone1) else -1)
            if not (1 <= zone2 <= 60):
                continue
        E2, N2, _, _ = to_grid(la2, lo2, zone2, a, invf)
        if not (100000.0 <= E2 <= 900000.0):
            if adj:
                continue
            # same zone: P2 may leave the 100k..900k band only through the line itself; keep it inside
            continue
        case = {'ell': ell, 'zone1': zone1, 'east1': E1, 'north1': N1, 'zone2': zone2, 'east2': round(E2, 3),
                'north2': round(N2, 3), 'hemi': 'south' if south else 'north', 'az': az, 'length': length}
        # how the same call is delivered: the grid bearing of the direct call held in one of the angle classes, coordinates
        # as int / numpy scalars / a float subclass (whole metres for the integer kinds), arguments by keyword, the
        # hemisphere word in another capitalisation, defaults (southern hemisphere, GRS80) left out
        if rnd.random() < 0.15:
            case['bearing_class'] = rnd.choice(ax.ANGLE_CLASSES)
        rep = core.choose_rep(rnd)
        if rep:
            case['rep'] = rep
            if core.rep_wants_integers(rep):
                whole = {k: float(round(case[k])) for k in ('east1', 'north1', 'east2', 'north2')}
                # whole metres only where the line stays a line: a short line rounded to whole metres may collapse to one
                # point (or to a fraction of its length), about which the property says nothing
                if length >= 10.0:
                    case.update(whole)
                else:
                    del case['rep']
        shape = core.choose_shape(rnd)
        if shape:
            case['shape'] = shape
        if rnd.random() < 0.3:
            case['hemi_spelling'] = rnd.choice(['cap', 'upper'])
        if rnd.random() < 0.3:
            case['omit_defaults'] = True
        return case
    return None


def deliver(G, ctx, case, fname, names, values):
    """The judged call delivered the way the case says."""
    vals = list(values)
    hi = names.index('hemisphere')
    vals[hi] = core.fresh_str(vals[hi])
    sp = case.get('hemi_spelling')
    if sp:
        vals[hi] = vals[hi].capitalize() if sp == 'cap' else vals[hi].upper()
        ctx.count('hemisphere_spelling:' + sp)
    omit = ()
    if case.get('omit_defaults'):
        omit = tuple(n for n, v in (('ellipsoid', case['ell'] == 'grs80'), ('hemisphere', case['hemi'] == 'south' and not sp)) if v)
        # leaving out is only possible for a suffix unless keywords are used
        if 'ellipsoid' not in omit and not case.get('shape'):
            omit = ()
        if omit:
            ctx.count('defaults_left_out')
    if case.get('shape'):
        ctx.count('call_shape:' + case['shape'])
    if case.get('rep'):
        ctx.count('argument_representation:' + case['rep'])
    vals = [core.rep_value(case.get('rep'), v) for v in vals]
    fn = getattr(G, fname)
    r = core.case_rnd([case, fname])
    tz = r.randint(1, 60)
    th = r.choice(['south', 'north'])
    tn = r.uniform(1.2e6, 8.8e6)
    if fname == 'vincdir_utm':
        targs = [tz, r.uniform(2e5, 8e5), tn, r.uniform(0, 360), 10 ** r.uniform(0, 4.5), th]
    else:
        targs = [tz, r.uniform(2e5, 8e5), tn, tz, r.uniform(2e5, 8e5), tn + r.uniform(-3e4, 3e4), th]
    return core.maybe_interleaved(ctx, [case, fname], lambda: fn(*targs),
                                  lambda: core.shaped_call(fn, names, vals, case.get('shape'), omit))


def judge(ns, ctx, case, linesf_mon=None):
    G = ns.geodesy
    ell = tmwork.ell_obj(ns, case['ell'])
    a, invf = tmwork.ell_published(case['ell'])
    z1, e1, n1, z2, e2, n2 = case['zone1'], case['east1'], case['north1'], case['zone2'], case['east2'], case['north2']
    hemi = case['hemi']
    south = hemi == 'south'
    la1, lo1, k1, g1 = from_grid(z1, e1, n1, south, a, invf)
    la2, lo2, k2, g2 = from_grid(z2, e2, n2, south, a, invf)
    if geod.chord(la1, lo1, la2, lo2, a, invf) < 0.5:
        # the two grid points are (all but) the same ground point: no line, no bearing - the property speaks of lines of 1 m
        # and more (a generated 1 m line delivered in whole metres can end up here)
        ctx.count('not_judged:points_closer_than_half_a_metre')
        return
    ctx.judged()
    if case.get('same_figures'):
        ctx.count('same_figures_in_neighbouring_zones')
    ctx.count('adjacent_zone_cases' if z1 != z2 else 'same_zone_cases')
    ctx.count('southern_cases' if south else 'northern_cases')
    try:
        gd, b12, b21, lsf = deliver(G, ctx, case, 'vincinv_utm',
                                    ['zone1', 'east1', 'north1', 'zone2', 'east2', 'north2', 'hemisphere', 'ellipsoid'],
                                    [z1, e1, n1, z2, e2, n2, hemi, ell])
    except Exception as e:
        ctx.violation('vincinv_utm:exception', case, {'exception': repr(e)})
        return
    L = case['length']
    ctx.bucket(z1 // 10, hemi, int(abs(la1) // 20), int(math.log10(max(L, 1.0))), int(case['az'] // 45) % 8,
               'adjacent' if z1 != z2 else 'same', geo_name(case['ell']))
    if not (lsf > 0):
        ctx.violation('vincinv_utm:lsf-not-positive', case, {'lsf': lsf})
        return
    # (a) grid distance / lsf and bearing - convergence follow the exact geodesic to P2
    s_lib = gd / lsf
    az_lib = b12 - g1
    ola, olo, oaz = geod.direct(la1, lo1, az_lib, s_lib, a, invf)
    miss = geod.chord(ola, olo, la2, lo2, a, invf)
    ctx.count('inverse_closure')
    if not ctx.ratio('C14.inverse-closure', miss, 2e-3):
        ctx.violation('vincinv_utm:distance-or-bearing', case, {'result': [gd, b12, b21, lsf], 'miss_m': miss,
                                                                'implied': [s_lib, az_lib]})
    # (b) bearing at P2 in its own zone
    allow = 1e-8 + math.degrees(1e-3 / max(s_lib, 1e-3))
    d2 = abs((b21 - (oaz + 180.0 + g2) + 180.0) % 360.0 - 180.0)
    ctx.count('bearing2_judged')
    if not ctx.ratio('C14.bearing2', d2, allow):
        mech = 'vincinv_utm:bearing2-convergence-sign' if abs((b21 - (oaz + 180.0 - g2) + 180.0) % 360.0 - 180.0) <= allow \
            else 'vincinv_utm:bearing2'
        ctx.violation(mech, case, {'grid2to1': b21, 'oracle': (oaz + 180.0 + g2) % 360.0, 'diff_deg': d2, 'allow_deg': allow})
    # (c) line scale factor vs point scale factors along the line (in zone 1)
    if L <= 100000.0 * 1.0001:
        ks = []
        for i in range(11):
            pla, plo, _ = geod.direct(la1, lo1, az_lib, s_lib * i / 10.0, a, invf)
            ks.append(tm.forward(pla, plo - cm_of(z1), a, invf, K0)[2])
        simpson = (ks[0] + ks[10] + 4 * sum(ks[1:10:2]) + 2 * sum(ks[2:10:2])) / 30.0
        ctx.count('lsf_judged')
        lo_k, hi_k = min(ks), max(ks)
        out = max(lo_k - lsf, lsf - hi_k, 0.0)
        ok1 = ctx.ratio('C14.lsf-range', out, 3e-7)
        ok2 = ctx.ratio('C14.lsf-simpson', abs(lsf - simpson), 5e-7)
        if not (ok1 and ok2):
            ctx.violation('line_sf:not-mean-of-point-scale-factors', case, {'lsf': lsf, 'min_psf': lo_k, 'max_psf': hi_k,
                                                                           'simpson': simpson})
    # (d) the direct computation is the inverse of the inverse
    if case.get('tuned_predecessor'):
        tune_predecessor(G, ctx, z1, e1, n1, b12, gd, hemi, ell)
    if linesf_mon is not None:
        linesf_mon['n'] = 0
        linesf_mon['armed'] = True
    try:
        brg = b12
        if case.get('bearing_class'):
            # the same bearing held in an angle class (every notation resolves 1e-9 arc-second: 5e-10 m at 100 km)
            try:
                brg = ax.make_object(ns.angles, case['bearing_class'], float(b12))
                ctx.count('direct_bearing_as_angle_object')
            except ValueError:
                brg = b12
        zz, ee, nn, bb21, lsf2 = deliver(G, ctx, case, 'vincdir_utm',
                                         ['zone1', 'east1', 'north1', 'grid1to2', 'grid_dist', 'hemisphere', 'ellipsoid'],
                                         [z1, e1, n1, brg, gd, hemi, ell])
    except Budget:
        ctx.violation('vincdir_utm:no-convergence', case, {'line_sf_calls': BUDGET})
        return
    except Exception as e:
        ctx.violation('vincdir_utm:exception', case, {'exception': repr(e)})
        return
    finally:
        if linesf_mon is not None:
            linesf_mon['armed'] = False
            ctx.maxi('C14.line_sf_calls_per_direct', linesf_mon['n'])
    ctx.count('direct_judged')
    E2z1, N2z1, _, g2z1 = to_grid(la2, lo2, z1, a, invf)
    dpos = math.hypot(ee - E2z1, nn - N2z1)
    if zz != z1:
        ctx.violation('vincdir_utm:zone', case, {'zone': zz})
    elif not ctx.ratio('C14.direct-closure', dpos, 1e-3):
        ctx.violation('vincdir_utm:does-not-reproduce-P2', case, {'result': [zz, ee, nn, bb21, lsf2],
                                                                  'P2_in_zone1': [E2z1, N2z1], 'miss_m': dpos})
    d3 = abs((bb21 - (oaz + 180.0 + g2z1) + 180.0) % 360.0 - 180.0)
    if not ctx.ratio('C14.direct-bearing2', d3, allow + math.degrees(1e-3 / max(s_lib, 1e-3))):
        ctx.violation('vincdir_utm:bearing2', case, {'grid2to1': bb21, 'oracle': (oaz + 180.0 + g2z1) % 360.0, 'diff_deg': d3})
    if abs(lsf2 - lsf) > 3e-7:
        ctx.violation('vincdir_utm:lsf-differs-from-inverse', case, {'direct': lsf2, 'inverse': lsf})


def tune_predecessor(G, ctx, z1, e1, n1, b12, gd, hemi, ell):
    """A hostile predecessor for the direct call about to be judged: a 1 m line in the same zone whose returned line scale
    factor equals (to ~1e-11) the first, planar scale-factor estimate the direct routine will form for the judged line -
    the value taken from the artefact, as a caller working along a traverse could produce it.  Any state a direct call
    leaves behind (a retained estimate, a 'converged' flag) then meets the one value it can be confused with."""
    try:
        e2p = e1 + gd * math.sin(math.radians(b12))
        n2p = n1 + gd * math.cos(math.radians(b12))
        target = G.line_sf(z1, e1, n1, z1, e2p, n2p)

        def f(E):
            return G.vincdir_utm(z1, E, n1, 0.0, 1.0, hemi, ell)[4]
        lo, hi = 500000.0, 900000.0
        if not (f(lo) <= target <= f(hi)):
            ctx.count('tuned_predecessor_not_possible')
            return
        for _ in range(48):
            mid = 0.5 * (lo + hi)
            if f(mid) < target:
                lo = mid
            else:
                hi = mid
        got = f(0.5 * (lo + hi))
        ctx.count('tuned_predecessor_sequences')
        ctx.maxi('C14.tuned_predecessor_lsf_gap', abs(got - target))
    except Exception:
        ctx.count('tuned_predecessor_raised')


def geo_name(e):
    return e if isinstance(e, str) else 'custom-ell'


def install_budget(ns, ctx):
    state = {'n': 0, 'armed': False}
    orig = ns.geodesy.line_sf

    def wrapper(*a, **k):
        if state['armed']:
            state['n'] += 1
            if state['n'] > BUDGET:
                raise Budget()
        return orig(*a, **k)
    wrapper.__wrapped__ = orig
    ns.geodesy.line_sf = wrapper
    return state


def run_shard(spec, ctx):
    ns = core.load_repo()
    tmwork.tm_selfcheck(ctx, n_mp=2)
    from .. import geowork
    geowork_info = dict(ctx.info.get('oracle_selfcheck', {}))
    geowork.geod_selfcheck(ctx, n_ode=3, n_mp=1)
    ctx.info['oracle_selfcheck'] = {'tm': geowork_info, 'geod': ctx.info['oracle_selfcheck']}
    state = install_budget(ns, ctx)
    rnd = random.Random('%s-%s-%s' % (ID, spec['seed'], spec['shard']))
    for i in range(spec['n']):
        case = gen_case(rnd)
        if case is None:
            ctx.count('generator_gave_up')
            continue
        if i < 2:
            ctx.sample(case)
        if rnd.random() < 0.05:
            case['tuned_predecessor'] = True
        judge(ns, ctx, case, state)
        if rnd.random() < 0.3:
            c2 = dict(case)
            if rnd.random() < 0.6:
                # the same zone/easting/northing numbers read in the other hemisphere: another, equally valid pair of points
                c2['hemi'] = 'north' if case['hemi'] == 'south' else 'south'
                south = c2['hemi'] == 'south'
                a_, invf_ = tmwork.ell_published(case['ell'])
                try:
                    la1, lo1, _, _ = from_grid(c2['zone1'], c2['east1'], c2['north1'], south, a_, invf_)
                    la2, lo2, _, _ = from_grid(c2['zone2'], c2['east2'], c2['north2'], south, a_, invf_)
                    ok = (-180.0 <= lo1 <= 180.0 and -180.0 <= lo2 <= 180.0 and -80 < la1 < 84 and -80 < la2 < 84 and (la1 < 0) == south and (la2 < 0) == south and abs(la1) > 1e-4 and abs(la2) > 1e-4)
                except Exception:
                    ok = False
                if ok:
                    c2['az'] = case['az']
                    c2['length'] = geod.chord(la1, lo1, la2, lo2, a_, invf_)
                    # the same numbers near the other pole can be a much longer line (adjacent zones are a few km apart
                    # at 80 deg and 600 km apart at 10 deg): the property speaks of lines of 1 m .. 100 km only
                    ok = 1.0 <= c2['length'] <= 100000.0
                if ok:
                    judge(ns, ctx, c2, state)
                    judge(ns, ctx, case, state)
                    ctx.count('other_hemisphere_sequences')
            else:
                c2['ell'] = rnd.choice([e for e in ('grs80', 'wgs84', 'ans', 'intl24') if e != case['ell']])
                judge(ns, ctx, c2, state)
                ctx.count('other_ellipsoid_sequences')


def replay(case, ctx):
    ns = core.load_repo()
    state = install_budget(ns, ctx)
    judge(ns, ctx, case, state)
