"""C01 Forward grid conversion is the exact Transverse Mercator of the ellipsoid."""
import random

from .. import core, tmwork

ID = 'C01'
TITLE = 'forward TM exactness'
LEVEL = 'exploration'
RULE = ('stratified random + boundary geographic positions (lat -80..84, lon -180..180, auto zone and explicit zones '
        'with |lon-CM|<=30deg; ellipsoids GRS80/WGS84/ANS/Intl24/random; projections UTM/ISG/random Projection; float '
        'and five angle classes; geo2grid and CoordGeo.tm) judged by the post-condition monitor against tm_exact '
        '(analytic continuation of the meridian arc); a case is non-trivial when it is inside the quantified domain; '
        'distinct = distinct class buckets ellipsoid x projection x hemisphere x zone-mode x |dlon| bin x |lat| bin x '
        'argument type x api x side of CM')
ASSUMPTIONS = ['tm_exact (vmon/oracles/tm.py) is the reference; it is re-validated in every shard against scipy '
               'quadrature of the meridian arc, numerical conformality, mpmath at 40 digits and the published '
               'Flinders Peak values', 'numpy/scipy/CPython/libm are trusted',
               'defining constants of the shipped ellipsoids/projections are typed independently in vmon/tmwork.py']
N = {'quick': 3000, 'thorough': 40000}     # cases per shard
SHARDS = {'quick': 16, 'thorough': 32}
ASPECTS = ('F',)


def plan(tier, seed):
    return [{'n': N[tier]} for _ in range(SHARDS[tier])]


def run_shard(spec, ctx):
    ns = core.load_repo()
    tmwork.tm_selfcheck(ctx, n_mp=3)
    reach = tmwork.reach_setup(ns)
    rnd = random.Random('%s-%s-%s' % (ID, spec['seed'], spec['shard']))
    try:
        for i in range(spec['n']):
            case = tmwork.gen_geo_case(rnd)
            if i < 2:
                ctx.sample(case)
            tmwork.judge_forward(ns, ctx, case, ASPECTS)
    finally:
        reach.stop()
    ctx.info['lines_reached'] = reach.summary()


def replay(case, ctx):
    ns = core.load_repo()
    tmwork.judge_forward(ns, ctx, case, ASPECTS)
