"""C01 Forward grid conversion is the exact Transverse Mercator of the ellipsoid."""
import random

from .. import core, tmwork

ID = 'C01'
TITLE = 'forward TM exactness'
LEVEL = 'exploration'
RULE = ('stratified random + boundary geographic positions (lat -80..84, lon -180..180, auto zone and explicit zones '
        'with |lon-CM|<=30deg; ellipsoids GRS80/WGS84/ANS/Intl24/random; projections UTM/ISG/random Projection; float '
        'and five angle classes; geo2grid and CoordGeo.tm) judged by the post-condition monitor against tm_exact '
        '(analytic continuation of the meridian arc); a case is non-trivial when it is inside the quantified domain; '
        '3 % of the cases are preceded by one or two calls the property does not speak about (latitude/longitude/zone outside the accepted ranges, NaN, strings, invalid hemisphere words): not judged, exceptions swallowed, the judged call after them must be as right as ever.  distinct = class buckets ellipsoid x projection x hemisphere x zone-mode x |dlon| bin x |lat| bin x '
        'argument type x api x side of CM')
ASSUMPTIONS = ['tm_exact (vmon/oracles/tm.py) is the reference; it is re-validated in every shard against scipy '
               'quadrature of the meridian arc, numerical conformality, mpmath at 40 digits and the published '
               'Flinders Peak values', 'numpy/scipy/CPython/libm are trusted',
               'defining constants of the shipped ellipsoids/projections are typed independently in vmon/tmwork.py']
N = {'quick': 3000, 'thorough': 40000}     # cases per shard
SHARDS = {'quick': 16, 'thorough': 32}
ASPECTS = ('F',)
REQUIRED_COUNTERS = ['unjudged_calls_before_a_judged_one', 'across_antimeridian_cases', 'alias_sequences', 'regime_run_sequences', 'branch:isg-auto-zone', 'branch:isg-central-meridian', 'branch:north-false-northing', 'branch:utm-auto-zone']


def plan(tier, seed):
    specs = [{'n': N[tier]} for _ in range(SHARDS[tier])]
    if tier == 'thorough':
        specs += [{'n': 0, 'lattice': [i, 8], 'ell': ['grs80', 'ans', 'intl24', 'wgs84'][i % 4]} for i in range(8)]
    return specs


def run_shard(spec, ctx):
    ns = core.load_repo()
    tmwork.tm_selfcheck(ctx, n_mp=3)
    reach = tmwork.reach_setup(ns)
    rnd = random.Random('%s-%s-%s' % (ID, spec['seed'], spec['shard']))
    try:
        if spec.get('lattice'):
            for case in tmwork.lattice_cases(spec['lattice'][0], spec['lattice'][1], spec['ell']):
                tmwork.judge_forward(ns, ctx, case, ASPECTS)
            ctx.sample({'kind': '1x1 degree lattice x 3 zone modes', 'part': spec['lattice'], 'ell': spec['ell']})
        for i in range(spec['n']):
            case = tmwork.gen_geo_case(rnd)
            if rnd.random() < 0.03:
                case['before'] = tmwork.gen_unjudged_calls(rnd)
            if i < 2:
                ctx.sample(case)
            tmwork.judge_forward(ns, ctx, case, ASPECTS)
            if rnd.random() < 0.3:
                tmwork.judge_forward(ns, ctx, tmwork.alias_geo_case(rnd, case), ASPECTS)
                ctx.count('alias_sequences')
            if i % 400 == 7:
                tmwork.judge_forward(ns, ctx, tmwork.regime_run(rnd), ASPECTS)
                ctx.count('regime_run_sequences')
    finally:
        reach.stop()
    ctx.info['lines_reached'] = reach.summary()
    # branches the property names: automatic ISG zone, ISG central meridian, northern false northing, automatic UTM zone
    for label, marker in (('isg-auto-zone', 'subzone = int((amgzone'), ('isg-central-meridian', 'amgzone = int(str(zone)[:2])'),
                          ('north-false-northing', 'falsenorth = 0'), ('utm-auto-zone', '1.5 * prj.zonewidth))) / prj.zonewidth')):
        hit = reach.branch_hit(ns.convert.geo2grid, marker)
        if hit is None or hit:
            ctx.count('branch:' + label)


def replay(case, ctx):
    ns = core.load_repo()
    tmwork.judge_forward(ns, ctx, case, ASPECTS)
