"""Monitors on every conversion function, conversion method and constructor of geodepy.angles (C08),
reused by C12/C15/C20 and the ambient workload.  The monitors judge each observed call against
angle_exact: the result must denote the same angle as the argument within 1e-8 arc-second; HP results must
be valid HP; valid HP inputs must be accepted; invalid HP must be rejected by hp2dec and HPAngle."""
import math
from fractions import Fraction

import numpy as np

from .oracles import angle as ax

NUM_ABBR = ('dec', 'hp', 'gon')
OBJ_ABBR = {'deca': 'DECAngle', 'hpa': 'HPAngle', 'gona': 'GONAngle', 'dms': 'DMSAngle', 'ddm': 'DDMAngle'}
ALL_DST = ('rad', 'dec', 'hp', 'gon') + tuple(OBJ_ABBR)
FAST_TOL = 0.9e-12          # degrees; below this the float comparison is decisive (1e-8" = 2.78e-12 deg)
MAXDEG = 720.0 + 1e-9
PI_F = ax.PI_F


def hp_fast(h):
    """(valid, float degrees, exact-needed flag).  Reads repr(h) when it has <= 13 (12 beyond 512) decimals:
    then the repr numeral *is* the 13-decimal reading (see DESIGN.md 3.4); otherwise falls back to decimal."""
    s = repr(abs(h))
    if 'e' in s or 'n' in s:
        ok, v, _ = ax.hp_read(h)
        return ok, (float(v) if ok else None)
    ip, _, fp = s.partition('.')
    lim = 13 if abs(h) < 512 else 12
    if len(fp) > lim:
        ok, v, _ = ax.hp_read(h)
        return ok, (float(v) if ok else None)
    fp = fp.ljust(4, '0')
    mm = int(fp[0:2])
    ss = int(fp[2:4])
    rest = fp[4:]
    sec = ss + (int(rest) / 10 ** len(rest) if rest else 0.0)
    if mm >= 60 or sec >= 60:
        return False, None
    v = int(ip) + mm / 60 + sec / 3600
    return True, (-v if h < 0 else v)


def denote_fast(kind, x):
    """kind in dec/hp/gon/rad or 'obj'.  Returns float degrees or None (invalid HP)."""
    if kind == 'dec':
        return float(x)
    if kind == 'gon':
        return float(x) * 0.9
    if kind == 'rad':
        return math.degrees(float(x))
    if kind == 'hp':
        ok, v = hp_fast(float(x))
        return v if ok else None
    n = type(x).__name__
    if n == 'DECAngle':
        return float(x.dec_angle)
    if n == 'HPAngle':
        ok, v = hp_fast(float(x.hp_angle))
        return v if ok else None
    if n == 'GONAngle':
        return float(x.gon_angle) * 0.9
    if n == 'DMSAngle':
        v = x.degree + x.minute / 60 + x.second / 3600
        return v if x.positive else -v
    if n == 'DDMAngle':
        v = x.degree + x.minute / 60
        return v if x.positive else -v
    raise TypeError(n)


def denote_exact(kind, x):
    if kind in ('dec', 'gon', 'hp', 'rad'):
        return ax.denote_number(x, kind)
    return ax.denote(x)


def kind_of_dst(abbr):
    return abbr if abbr in ('rad', 'dec', 'hp', 'gon') else 'obj'


class AngleMonitors:
    def __init__(self, ns, ctx, active=True):
        self.A = ns.angles
        self.ns = ns
        self.ctx = ctx
        self.active = active
        self.installed = []
        self.own = {}
        self.calls = {}
        self.depth = 0

    # ---- judging -----------------------------------------------------------------------------
    def judge(self, name, skind, sval, dabbr, result, exc):
        """One observed conversion `name`: (skind, sval) -> dabbr."""
        ctx = self.ctx
        self.calls[name] = self.calls.get(name, 0) + 1
        try:
            vin = denote_fast(skind, sval)
        except Exception:
            ctx.count('monitor_skipped_nonangle')
            return
        takes_hp = skind == 'hp' or (skind == 'obj' and type(sval).__name__ == 'HPAngle')
        if vin is None:
            # invalid HP numeral given as input
            if name in ('hp2dec', 'HPAngle.__init__'):
                ctx.judged()
                ctx.count('invalid_hp_inputs')
                if exc is None:
                    ctx.violation(name + ':invalid-hp-accepted', {'fn': name, 'arg': repr(sval)}, {'result': repr(result)})
            else:
                ctx.count('out_of_domain')
            return
        if abs(vin) > MAXDEG or vin != vin:
            ctx.count('out_of_domain')
            return
        ctx.judged()
        case = {'fn': name, 'src': skind, 'arg': _argrepr(sval)}
        if exc is not None:
            if takes_hp:
                ctx.violation(name + ':valid-hp-rejected', case, {'exception': repr(exc)})
            else:
                ctx.violation(name + ':exception', case, {'exception': repr(exc)})
            return
        dk = kind_of_dst(dabbr)
        if dk == 'obj':
            want = OBJ_ABBR[dabbr]
            if type(result).__name__ != want:
                ctx.violation(name + ':wrong-class', case, {'got': type(result).__name__, 'want': want})
                return
        if dk == 'obj' and ax.float_value_mismatch(result):
            # a DECAngle is a float: read as one (math.radians, numpy) it must be the angle its field holds
            ctx.violation(name + ':result-read-as-float-differs-from-its-angle', case,
                          {'float_value': ax.float_value_mismatch(result)[0], 'dec_angle': ax.float_value_mismatch(result)[1]})
            return
        try:
            vout = denote_fast(dk, result)
        except Exception as e:
            ctx.violation(name + ':undenotable-result', case, {'result': repr(result), 'error': repr(e)})
            return
        if vout is None:
            ctx.violation(name + ':invalid-hp-produced', case, {'result': repr(result)})
            return
        if abs(vout - vin) <= FAST_TOL:
            return
        # decide exactly
        ein = denote_exact(skind, sval)
        eout = denote_exact(dk, result)
        if eout is None:
            ctx.violation(name + ':invalid-hp-produced', case, {'result': repr(result)})
            return
        err = abs(ein - eout)
        ctx.maxi('C08.max_err_arcsec', float(err * 3600))
        if err > ax.TOL_DEG:
            mech = name + (':wrong-sign' if (ein + eout == 0 or abs(ein + eout) <= ax.TOL_DEG) and abs(ein) > ax.TOL_DEG
                           else ':wrong-angle')
            ctx.violation(mech, case, {'result': _argrepr(result), 'denoted_in_deg': float(ein),
                                       'denoted_out_deg': float(eout), 'err_arcsec': float(err * 3600)})

    # ---- installation ------------------------------------------------------------------------
    def _wrap_function(self, fname, skind, dabbr):
        A = self.A
        fn = getattr(A, fname)
        mon = self

        def wrapper(x, *a, **k):
            if not mon.active:
                return fn(x, *a, **k)
            try:
                r = fn(x, *a, **k)
            except Exception as e:
                mon.judge(fname, skind, x, dabbr, None, e)
                raise
            mon.judge(fname, skind, x, dabbr, r, None)
            return r
        wrapper.__name__ = fname
        wrapper.__wrapped__ = fn
        from . import core
        n = 0
        for mod in core.repo_namespaces():
            for kk, vv in list(vars(mod).items()):
                if vv is fn:
                    setattr(mod, kk, wrapper)
                    n += 1
        self.installed.append((fname, fn, wrapper, n))

    def _wrap_method(self, cls, mname):
        from . import core
        fn, own = core.repo_method(cls, mname)
        mon = self
        label = '%s.%s' % (cls.__name__, mname)

        def wrapper(self_):
            if not mon.active:
                return fn(self_)
            try:
                r = fn(self_)
            except Exception as e:
                mon.judge(label, 'obj', self_, mname, None, e)
                raise
            mon.judge(label, 'obj', self_, mname, r, None)
            return r
        wrapper.__name__ = mname
        wrapper.__wrapped__ = fn
        setattr(cls, mname, wrapper)
        self.own[label] = own
        self.installed.append((label, fn, wrapper, 1))

    def _wrap_hp_init(self):
        from . import core
        cls = self.A.HPAngle
        fn, own = core.repo_method(cls, '__init__')
        if fn is None:
            return
        self.own['HPAngle.__init__'] = own
        mon = self

        def wrapper(self_, hp_angle=0.0):
            if not mon.active:
                return fn(self_, hp_angle)
            try:
                fn(self_, hp_angle)
            except Exception as e:
                try:
                    x = float(hp_angle)
                except Exception:
                    raise e
                mon.judge('HPAngle.__init__', 'hp', x, 'hpa', None, e)
                raise
            mon.judge('HPAngle.__init__', 'hp', float(hp_angle), 'hpa', self_, None)
        wrapper.__wrapped__ = fn
        cls.__init__ = wrapper
        self.installed.append(('HPAngle.__init__', fn, wrapper, 1))

    def _wrap_typecheck(self):
        A = self.A
        fn = getattr(A, 'angular_typecheck', None)
        if fn is None:
            return
        mon = self

        def wrapper(angle):
            if not mon.active or type(angle).__name__ not in ax.ANGLE_CLASSES:
                return fn(angle)
            try:
                r = fn(angle)
            except Exception as e:
                mon.judge('angular_typecheck', 'obj', angle, 'dec', None, e)
                raise
            mon.judge('angular_typecheck', 'obj', angle, 'dec', r, None)
            return r
        wrapper.__name__ = 'angular_typecheck'
        wrapper.__wrapped__ = fn
        from . import core
        n = 0
        for mod in core.repo_namespaces():
            for kk, vv in list(vars(mod).items()):
                if vv is fn:
                    setattr(mod, kk, wrapper)
                    n += 1
        self.installed.append(('angular_typecheck', fn, wrapper, n))

    def install(self):
        A = self.A
        for src in NUM_ABBR:
            for dst in ALL_DST:
                fname = '%s2%s' % (src, dst)
                if hasattr(A, fname) and callable(getattr(A, fname)):
                    self._wrap_function(fname, src, dst)
        for cname in ax.ANGLE_CLASSES:
            cls = getattr(A, cname)
            for m in ALL_DST:
                from . import core
                if core.repo_method(cls, m)[0] is not None:
                    self._wrap_method(cls, m)
        self._wrap_hp_init()
        self._wrap_typecheck()
        return self

    def uninstall(self):
        from . import core
        for label, fn, wrapper, n in self.installed:
            if '.' in label:
                cname, m = label.split('.')
                core.restore_method(getattr(self.A, cname), m, fn, self.own.get(label, True))
            else:
                for mod in core.repo_namespaces():
                    for kk, vv in list(vars(mod).items()):
                        if vv is wrapper:
                            setattr(mod, kk, fn)
        self.installed = []

    # vectorised forms: judged elementwise by explicit calls --------------------------------------
    V_LAYOUTS = ('1d', 'list', 'tuple', '2d', 'transposed-view', 'fortran', 'reversed-view', 'read-only', 'strided-view')

    def _deliver(self, vals):
        """The same values delivered another way on every call (round robin): a list, a tuple, a 2-D array, a transposed or
        reversed view, Fortran memory order, a read-only array, every second element of a larger array.  Returns the
        argument and the values in the logical (index) order of that argument."""
        self._vcalls = getattr(self, '_vcalls', 0) + 1
        kind = self.V_LAYOUTS[self._vcalls % len(self.V_LAYOUTS)]
        arr = np.array(vals, dtype=float)
        n = arr.size
        if kind in ('2d', 'transposed-view', 'fortran') and (n < 4 or n % 2):
            kind = 'reversed-view'
        if kind == 'list':
            arg = [float(v) for v in arr]
        elif kind == 'tuple':
            arg = tuple(float(v) for v in arr)
        elif kind == '2d':
            arg = arr.reshape(2, n // 2).copy()
        elif kind == 'transposed-view':
            arg = arr.reshape(2, n // 2).copy().T
        elif kind == 'fortran':
            arg = np.asfortranarray(arr.reshape(2, n // 2))
        elif kind == 'reversed-view':
            arg = arr.copy()[::-1]
        elif kind == 'read-only':
            arg = arr.copy()
            arg.setflags(write=False)
        elif kind == 'strided-view':
            big = np.full(2 * n, 0.5)
            big[::2] = arr
            arg = big[::2]
        else:
            arg = arr.copy()
        if self.ctx is not None:
            self.ctx.count('vectorised_argument_delivered_as:' + kind)
        logical = [float(v) for v in np.asarray(arg, dtype=float).ravel(order='C')]
        return arg, logical, np.shape(arg)

    def _call_v(self, name, src, dst, vals):
        arg, logical, shape = self._deliver(vals)
        try:
            out = getattr(self.A, name)(arg)
        except Exception as e:
            for v in logical:
                self.judge(name, src, v, dst, None, e)
            return None
        res = np.asarray(out, dtype=float)
        if res.shape != tuple(shape):
            err = ValueError('result of shape %r for an argument of shape %r' % (res.shape, tuple(shape)))
            for v in logical:
                self.judge(name, src, v, dst, None, err)
            return None
        flat = res.ravel(order='C')
        for v, r in zip(logical, flat):
            self.judge(name, src, float(v), dst, float(r), None)
        return flat

    def call_hp2dec_v(self, hps):
        return self._call_v('hp2dec_v', 'hp', 'dec', hps)

    def call_dec2hp_v(self, decs):
        return self._call_v('dec2hp_v', 'dec', 'hp', decs)


def _argrepr(x):
    n = type(x).__name__
    if n in ('DMSAngle',):
        return {'cls': n, 'degree': x.degree, 'minute': x.minute, 'second': x.second, 'positive': x.positive}
    if n in ('DDMAngle',):
        return {'cls': n, 'degree': x.degree, 'minute': x.minute, 'positive': x.positive}
    if n == 'DECAngle':
        return {'cls': n, 'dec_angle': x.dec_angle}
    if n == 'HPAngle':
        return {'cls': n, 'hp_angle': x.hp_angle}
    if n == 'GONAngle':
        return {'cls': n, 'gon_angle': x.gon_angle}
    if isinstance(x, float):
        return x
    return repr(x)


def rebuild_arg(A, a):
    """Inverse of _argrepr for replay."""
    if isinstance(a, dict):
        n = a['cls']
        if n == 'DMSAngle':
            return A.DMSAngle(a['degree'], a['minute'], a['second'], positive=a['positive'])
        if n == 'DDMAngle':
            return A.DDMAngle(a['degree'], a['minute'], positive=a['positive'])
        if n == 'DECAngle':
            return A.DECAngle(a['dec_angle'])
        if n == 'HPAngle':
            o = A.HPAngle.__new__(A.HPAngle)
            o.hp_angle = a['hp_angle']
            return o
        if n == 'GONAngle':
            return A.GONAngle(a['gon_angle'])
    return a
