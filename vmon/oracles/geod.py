"""geod_exact: the ellipsoidal geodesic without Vincenty's (or any) series (DESIGN.md 3.2).

Auxiliary sphere (reduced latitude beta, Clairaut constant sin(alpha0) = sin(alpha1) cos(beta1)); the two *exact*
integrals are evaluated by 80-node Gauss-Legendre quadrature on pieces of at most 0.8 rad:

    s / b          = integral sqrt(1 + k^2 sin^2 sigma) d sigma,              k^2 = e'^2 cos^2(alpha0)
    lambda - omega = -f sin(alpha0) integral (2 - f) / (1 + (1 - f) sqrt(1 + k^2 sin^2 sigma)) d sigma

Angles are carried as (sin, cos) pairs with the `tiny` convention at the poles and exact cardinal azimuths so that pole
starts, meridional, equatorial and pole-crossing lines follow the limiting convention.  Only the direct problem is needed.
"""
import math

import numpy as np

_gx, _gw = np.polynomial.legendre.leggauss(80)
TINY = 1.5e-154


def _integrate(fun, span, pieces):
    tot = 0.0
    edges = np.linspace(0.0, span, pieces + 1)
    for a, b in zip(edges[:-1], edges[1:]):
        t = 0.5 * (b - a) * _gx + 0.5 * (b + a)
        tot += 0.5 * (b - a) * np.dot(_gw, fun(t))
    return float(tot)


def sincosd(x):
    r = math.fmod(x, 360.0)
    q = round(r / 90.0)
    r -= 90.0 * q
    r = math.radians(r)
    s, c = math.sin(r), math.cos(r)
    q %= 4
    if q == 1:
        s, c = c, -s
    elif q == 2:
        s, c = -s, -c
    elif q == 3:
        s, c = -c, s
    return s + 0.0, c + 0.0


def direct(lat1, lon1, az1, s12, a, invf):
    """Returns (lat2, lon2 [not wrapped], forward azimuth at point 2 in (-180, 180])."""
    f = 1.0 / invf
    b = a * (1 - f)
    e2 = f * (2 - f)
    ep2 = e2 / (1 - e2)
    sphi, cphi = sincosd(lat1)
    sbet1 = (1 - f) * sphi
    cbet1 = cphi
    h = math.hypot(sbet1, cbet1)
    sbet1 /= h
    cbet1 /= h
    cbet1 = max(TINY, cbet1)
    salp1, calp1 = sincosd(az1)
    salp0 = salp1 * cbet1
    calp0 = math.hypot(calp1, salp1 * sbet1)
    ssig1 = sbet1
    csig1 = calp1 * cbet1
    if ssig1 == 0 and csig1 == 0:
        csig1 = 1.0
    h = math.hypot(ssig1, csig1)
    ssig1 /= h
    csig1 /= h
    somg1 = salp0 * ssig1
    comg1 = csig1
    k2 = ep2 * calp0 * calp0

    def s2(d):
        s = ssig1 * np.cos(d) + csig1 * np.sin(d)
        return s * s

    def g(d):
        return np.sqrt(1 + k2 * s2(d))
    D = s12 / b
    for _ in range(60):
        pieces = max(1, int(abs(D) / 0.8) + 1)
        F = b * _integrate(g, D, pieces) - s12
        step = F / (b * math.sqrt(1 + k2 * float(s2(np.array(D)))))
        D -= step
        if abs(step) < 1e-16 * max(1.0, abs(D)):
            break
    sD, cD = math.sin(D), math.cos(D)
    ssig2 = ssig1 * cD + csig1 * sD
    csig2 = csig1 * cD - ssig1 * sD
    sbet2 = calp0 * ssig2
    cbet2 = math.hypot(salp0, calp0 * csig2)
    if cbet2 == 0:
        cbet2 = csig2 = TINY
    salp2 = salp0
    calp2 = calp0 * csig2
    somg2 = salp0 * ssig2
    comg2 = csig2
    E = math.copysign(1.0, salp0)
    omg12 = E * (D - (math.atan2(ssig2, csig2) - math.atan2(ssig1, csig1))
                 + (math.atan2(E * somg2, comg2) - math.atan2(E * somg1, comg1)))

    def hfun(d):
        return (2 - f) / (1 + (1 - f) * np.sqrt(1 + k2 * s2(d)))
    pieces = max(1, int(abs(D) / 0.8) + 1)
    J = _integrate(hfun, D, pieces)
    lam12 = omg12 - f * salp0 * J
    phi2 = math.atan2(sbet2, (1 - f) * cbet2)
    return math.degrees(phi2), lon1 + math.degrees(lam12), math.degrees(math.atan2(salp2, calp2))


def distance_for_arc(lat1, az1, D, a, invf, two_sigma_m=False):
    """Length of the geodesic from latitude lat1 at azimuth az1 whose arc on the auxiliary sphere is D radians (or, with
    two_sigma_m, whose 2 sigma_m = 2 sigma_1 + sigma equals D).  Used only to PLACE workload lines where the trigonometric
    factors of the classical series vanish; returns None when no such positive arc exists."""
    f = 1.0 / invf
    b = a * (1 - f)
    e2 = f * (2 - f)
    ep2 = e2 / (1 - e2)
    sphi, cphi = sincosd(lat1)
    sbet1, cbet1 = (1 - f) * sphi, cphi
    h = math.hypot(sbet1, cbet1)
    sbet1, cbet1 = sbet1 / h, max(TINY, cbet1 / h)
    salp1, calp1 = sincosd(az1)
    calp0 = math.hypot(calp1, salp1 * sbet1)
    ssig1, csig1 = sbet1, calp1 * cbet1
    if ssig1 == 0 and csig1 == 0:
        csig1 = 1.0
    sig1 = math.atan2(ssig1, csig1)
    if two_sigma_m:
        D = D - 2 * sig1
    if not (1e-9 < D < math.pi):
        return None
    k2 = ep2 * calp0 * calp0

    def g(d):
        sg = np.sin(sig1 + d)
        return np.sqrt(1 + k2 * sg * sg)
    return float(b * _integrate(g, D, max(1, int(D / 0.8) + 1)))


def to_xyz(lat, lon, a, invf, h=0.0):
    f = 1.0 / invf
    e2 = f * (2 - f)
    sp, cp = sincosd(lat)
    sl, cl = sincosd(lon)
    nu = a / math.sqrt(1 - e2 * sp * sp)
    return ((nu + h) * cp * cl, (nu + h) * cp * sl, (nu * (1 - e2) + h) * sp)


def chord(lat1, lon1, lat2, lon2, a, invf):
    return math.dist(to_xyz(lat1, lon1, a, invf), to_xyz(lat2, lon2, a, invf))


def sphsep(la1, lo1, la2, lo2):
    p1, p2 = math.radians(la1), math.radians(la2)
    dl = math.radians(lo2 - lo1)
    a = math.sin((p2 - p1) / 2) ** 2 + math.cos(p1) * math.cos(p2) * math.sin(dl / 2) ** 2
    return math.degrees(2 * math.asin(min(1.0, math.sqrt(a))))


def axis_distance(lat, a, invf):
    """distance of the surface point at `lat` from the rotation axis (m)"""
    f = 1.0 / invf
    e2 = f * (2 - f)
    sp, cp = sincosd(lat)
    return a * cp / math.sqrt(1 - e2 * sp * sp)


# ---------------------------------------------------------------------------------------------
def _ode_direct(lat1, lon1, az1, s12, a, invf):
    """Independent derivation: integrate the geodesic ODE on the ellipsoid (no auxiliary sphere)."""
    from scipy.integrate import solve_ivp
    f = 1.0 / invf
    e2 = f * (2 - f)

    def rhs(s, y):
        phi, lam, alp = y
        w = math.sqrt(1 - e2 * math.sin(phi) ** 2)
        rho = a * (1 - e2) / w ** 3
        nu = a / w
        return [math.cos(alp) / rho, math.sin(alp) / (nu * math.cos(phi)), math.sin(alp) * math.tan(phi) / nu]
    sol = solve_ivp(rhs, [0.0, s12], [math.radians(lat1), math.radians(lon1), math.radians(az1)],
                    method='DOP853', rtol=1e-13, atol=1e-15)
    phi, lam, alp = sol.y[:, -1]
    return math.degrees(phi), math.degrees(lam), math.degrees(alp)


def self_check(seed=1, n_ode=6, n_mp=2):
    """Validates the oracle against (a) Karney's GeodTest first line, (b) the GDA technical manual's
    Flinders Peak -> Buninyong line, (c) an ODE integration of the geodesic equations, (d) mpmath evaluation of the
    same two integrals at 30 digits.  Raises AssertionError on disagreement; returns the residuals."""
    import random
    rnd = random.Random(seed)
    res = {}
    # (a) GeodTest.dat line 1 (WGS84)
    la, lo, az = direct(36.530042355041, 0.0, 176.125875162171, 9398502.0434687, 6378137.0, 298.257223563)
    res['geodtest_dlat'] = abs(la - (-48.164270779097768864))
    res['geodtest_dlon'] = abs(lo - 5.762344694676510456)
    res['geodtest_daz'] = abs(az - 175.334308316285410561)
    assert max(res['geodtest_dlat'], res['geodtest_dlon'], res['geodtest_daz']) < 2e-12, ('geod oracle: GeodTest', la, lo, az)
    # (b) Flinders Peak -> Buninyong (GRS80), table precision
    la, lo, az = direct(-(37 + 57 / 60 + 3.72030 / 3600), 144 + 25 / 60 + 29.52440 / 3600,
                        306 + 52 / 60 + 5.37 / 3600, 54972.271, 6378137.0, 298.257222101)
    res['manual_dlat_arcsec'] = abs(la + (37 + 39 / 60 + 10.15611 / 3600)) * 3600
    res['manual_dlon_arcsec'] = abs(lo - (143 + 55 / 60 + 35.38393 / 3600)) * 3600
    res['manual_daz_arcsec'] = abs(((az + 180) % 360) - (127 + 10 / 60 + 25.07 / 3600)) * 3600
    assert res['manual_dlat_arcsec'] < 1.5e-4 and res['manual_dlon_arcsec'] < 1.5e-4 and res['manual_daz_arcsec'] < 1e-2, \
        ('geod oracle: technical manual line', la, lo, az)
    # (c) ODE
    mx = 0.0
    mxa = 0.0
    for _ in range(n_ode):
        lat1 = rnd.uniform(-70, 70)
        az1 = rnd.uniform(20, 160) * rnd.choice([1, -1])
        s = 10 ** rnd.uniform(3, 6.6)
        aa, iv = rnd.choice([(6378137.0, 298.257222101), (6378388.0, 297.0), (6300000.0, 280.0)])
        la, lo, az = direct(lat1, 10.0, az1, s, aa, iv)
        la2, lo2, az2 = _ode_direct(lat1, 10.0, az1, s, aa, iv)
        if abs(la2) < 85:
            mx = max(mx, chord(la, lo, la2, lo2, aa, iv))
            mxa = max(mxa, abs(((az - az2) + 180) % 360 - 180))
    res['ode_pos_m'] = mx
    res['ode_az_deg'] = mxa
    assert mx < 2e-5 and mxa < 1e-9, ('geod oracle vs ODE', mx, mxa)
    # (d) mpmath on the two integrals
    if n_mp:
        import mpmath as mp
        old = mp.mp.dps
        mp.mp.dps = 30
        try:
            mxd = 0.0
            for _ in range(n_mp):
                lat1 = rnd.uniform(-80, 80)
                az1 = rnd.uniform(1, 179)
                s = rnd.uniform(1e5, 1.9e7)
                aa, iv = 6378137.0, 298.257222101
                la, lo, az = direct(lat1, 0.0, az1, s, aa, iv)
                f = 1 / mp.mpf(iv)
                b = aa * (1 - f)
                e2 = f * (2 - f)
                ep2 = e2 / (1 - e2)
                bet1 = mp.atan((1 - f) * mp.tan(mp.radians(lat1)))
                alp1 = mp.radians(az1)
                salp0 = mp.sin(alp1) * mp.cos(bet1)
                calp0 = mp.sqrt(1 - salp0 ** 2)
                sig1 = mp.atan2(mp.sin(bet1), mp.cos(alp1) * mp.cos(bet1))
                k2 = ep2 * calp0 ** 2
                sig2 = mp.findroot(lambda x: b * mp.quad(lambda t: mp.sqrt(1 + k2 * mp.sin(t) ** 2), [sig1, x]) - s,
                                   sig1 + s / b)
                bet2 = mp.asin(calp0 * mp.sin(sig2))
                phi2 = mp.atan(mp.tan(bet2) / (1 - f))
                mxd = max(mxd, abs(float(mp.degrees(phi2)) - la))
            res['mpmath_dlat_deg'] = mxd
            assert mxd < 1e-12, ('geod oracle vs mpmath', mxd)
        finally:
            mp.mp.dps = old
    return res
