"""helmert_exact (DESIGN.md 3.3): the 7/14-parameter similarity transformation in exact rational arithmetic.

    X' = T + (1 + s*1e-6) * R * X,   R = [[1, rz, -ry], [-rz, 1, rx], [ry, -rx, 1]],   rotations = arc-seconds * pi/648000
    parameter(t) = parameter + rate * (days / 365.25)        (days from datetime.date ordinals)

Everything is evaluated in fractions.Fraction from the exact binary values of the arguments with a 40-digit rational pi and
rounded once at the end.  The covariance propagation J Q J^T is built independently in numpy."""
import datetime
import math
from fractions import Fraction as F

import numpy as np

PI = F(31415926535897932384626433832795028841971, 10 ** 40)
AS = PI / 648000            # arc-second in radians
ASf = math.pi / 648000.0
P7 = ('tx', 'ty', 'tz', 'sc', 'rx', 'ry', 'rz')
P14 = P7 + tuple('d_' + p for p in P7)


def params_of(t):
    """exact parameters of a Transformation-like object as a dict of Fractions"""
    return {p: F(getattr(t, p)) for p in P14}


def years_between(ref_epoch, epoch):
    return F(epoch.toordinal() - ref_epoch.toordinal()) / F(36525, 100)


def params_at(t, epoch=None):
    """7 parameters (Fractions) of `t` at `epoch` (None: as they stand)"""
    p = params_of(t)
    if epoch is None or not isinstance(t.ref_epoch, datetime.date):
        return {k: p[k] for k in P7}
    dt = years_between(t.ref_epoch, epoch)
    return {k: p[k] + p['d_' + k] * dt for k in P7}


def apply_exact(x, y, z, p):
    """p: dict of the 7 parameters (Fractions or floats).  Returns a tuple of Fractions."""
    x, y, z = F(x), F(y), F(z)
    s = 1 + F(p['sc']) / 10 ** 6
    rx, ry, rz = F(p['rx']) * AS, F(p['ry']) * AS, F(p['rz']) * AS
    return (F(p['tx']) + s * (x + rz * y - ry * z),
            F(p['ty']) + s * (-rz * x + y + rx * z),
            F(p['tz']) + s * (ry * x - rx * y + z))


def apply(x, y, z, p):
    return tuple(float(v) for v in apply_exact(x, y, z, p))


def negated(p):
    return {k: -v for k, v in p.items()}


def jqj(x, y, z, p, sd, V):
    """First-order propagation of the input covariance V (3x3) and the parameter uncertainties `sd`
    (dict with sd_tx.. sd_rz in m, ppm, arc-seconds) through the similarity formula, in float64."""
    pf = {k: float(v) for k, v in p.items()}
    s = 1.0 + pf['sc'] / 1e6
    rx, ry, rz = pf['rx'] * ASf, pf['ry'] * ASf, pf['rz'] * ASf
    R = np.array([[1.0, rz, -ry], [-rz, 1.0, rx], [ry, -rx, 1.0]])
    X = np.array([float(x), float(y), float(z)])
    Jx = s * R
    Js = (R @ X).reshape(3, 1)
    # d/d(rx, ry, rz) of s * R X
    Jr = s * np.array([[0.0, -X[2], X[1]], [X[2], 0.0, -X[0]], [-X[1], X[0], 0.0]])
    Sp = np.diag([(sd['sd_sc'] / 1e6) ** 2, (sd['sd_rx'] * ASf) ** 2, (sd['sd_ry'] * ASf) ** 2, (sd['sd_rz'] * ASf) ** 2,
                  sd['sd_tx'] ** 2, sd['sd_ty'] ** 2, sd['sd_tz'] ** 2])
    Jp = np.hstack([Js, Jr, np.eye(3)])
    V = np.asarray(V, dtype=float)
    return Jx @ V @ Jx.T, Jp @ Sp @ Jp.T


def sd_of(tf_sd):
    return {k: getattr(tf_sd, k) for k in ('sd_tx', 'sd_ty', 'sd_tz', 'sd_sc', 'sd_rx', 'sd_ry', 'sd_rz')}


def self_check():
    """Validates the rational evaluation against mpmath (50 digits) and the Jacobian against finite differences."""
    import mpmath as mp
    import random
    rnd = random.Random(3)
    old = mp.mp.dps
    mp.mp.dps = 50
    res = {}
    try:
        mx = 0.0
        for _ in range(6):
            p = {'tx': rnd.uniform(-1000, 1000), 'ty': rnd.uniform(-1000, 1000), 'tz': rnd.uniform(-1000, 1000),
                 'sc': rnd.uniform(-100, 100), 'rx': rnd.uniform(-60, 60), 'ry': rnd.uniform(-60, 60), 'rz': rnd.uniform(-60, 60)}
            x, y, z = (rnd.uniform(-5e7, 5e7) for _ in range(3))
            a = apply(x, y, z, p)
            asec = mp.pi / 648000
            s = 1 + mp.mpf(p['sc']) / 10 ** 6
            rx, ry, rz = (mp.mpf(p[k]) * asec for k in ('rx', 'ry', 'rz'))
            X, Y, Z = mp.mpf(x), mp.mpf(y), mp.mpf(z)
            b = (mp.mpf(p['tx']) + s * (X + rz * Y - ry * Z), mp.mpf(p['ty']) + s * (-rz * X + Y + rx * Z),
                 mp.mpf(p['tz']) + s * (ry * X - rx * Y + Z))
            mx = max(mx, max(abs(a[i] - float(b[i])) for i in range(3)))
        res['rational_vs_mpmath_m'] = mx
        assert mx < 2e-8, ('helmert oracle vs mpmath', mx)
    finally:
        mp.mp.dps = old
    # Jacobian by central differences on the exact formula
    p = {'tx': 1.5, 'ty': -2.5, 'tz': 3.0, 'sc': 12.5, 'rx': 7.0, 'ry': -11.0, 'rz': 23.0}
    x, y, z = -4.1e6, 2.9e6, -3.6e6
    sd = {'sd_tx': 1.0, 'sd_ty': 1.0, 'sd_tz': 1.0, 'sd_sc': 1.0, 'sd_rx': 1.0, 'sd_ry': 1.0, 'sd_rz': 1.0}
    # with unit sigmas and V = 0, Jp Sp Jp^T = sum of outer products of parameter derivatives (in the sd units)
    _, Pp = jqj(x, y, z, p, sd, np.zeros((3, 3)))
    acc = np.zeros((3, 3))
    for k, unit in (('sc', 1e-6), ('rx', ASf), ('ry', ASf), ('rz', ASf), ('tx', 1.0), ('ty', 1.0), ('tz', 1.0)):
        h = F(1, 1000)
        pp = dict(p)
        pm = dict(p)
        pp[k] = F(p[k]) + h
        pm[k] = F(p[k]) - h
        d = np.array([float((a - b) / (2 * h)) for a, b in zip(apply_exact(x, y, z, pp), apply_exact(x, y, z, pm))])
        acc += np.outer(d, d)
    dev = np.abs(acc - Pp).max() / np.abs(Pp).max()
    res['jacobian_vs_finite_difference_rel'] = float(dev)
    assert dev < 1e-9, ('helmert oracle: Jacobian', dev)
    return res
