"""tm_exact: Transverse Mercator without the Krueger series (DESIGN.md 3.1).

TM is the conformal map, true to scale k0 on the central meridian.  With the isometric latitude
psi(phi) = asinh(tan phi) - e atanh(e sin phi), (psi, lambda) is isothermal on the ellipsoid, so the
projection is the analytic continuation of the meridian arc M:

    w = psi(phi) + i*lambda ;  solve psi(PHI) = w for complex PHI ;  northing + i*easting = k0 * M(PHI)
    M(PHI) = a(1-e^2) * integral_0^PHI (1 - e^2 sin^2 t)^(-3/2) dt   (64-node Gauss-Legendre, straight path)
    dM/dw  = a cos PHI / sqrt(1 - e^2 sin^2 PHI)
    point scale = k0 |dM/dw| / (nu cos phi) ; convergence (grid bearing = azimuth + conv) = -arg(dM/dw)... see below

No Krueger/Karney coefficient, rectifying radius or conformal-latitude shortcut is used.
"""
import cmath
import math

import numpy as np

_gx, _gw = np.polynomial.legendre.leggauss(64)
_X = (_gx + 1.0) / 2.0
_W = _gw / 2.0


def _ell(a, invf):
    f = 1.0 / invf
    e2 = f * (2.0 - f)
    return f, e2, math.sqrt(e2)


def _psi_c(P, e):
    return cmath.asinh(cmath.tan(P)) - e * cmath.atanh(e * cmath.sin(P))


def _M_c(P, a, e2):
    t = P * _X
    s = np.sin(t)
    return a * (1.0 - e2) * P * complex(np.dot(_W, (1.0 - e2 * s * s) ** -1.5))


def _dMdw(P, a, e2):
    return a * cmath.cos(P) / cmath.sqrt(1.0 - e2 * cmath.sin(P) ** 2)


def _solve_P(w, e, e2):
    P = cmath.asin(cmath.tanh(w))
    for _ in range(60):
        F = _psi_c(P, e) - w
        dF = (1.0 - e2) / ((1.0 - e2 * cmath.sin(P) ** 2) * cmath.cos(P))
        dP = F / dF
        P -= dP
        if abs(dP) < 1e-17:
            break
    return P


def forward(lat, dlon, a, invf, k0):
    """lat, dlon (= lon - central meridian) in degrees.
    Returns (x_east, y_north, k, gamma_deg): metres relative to the CM / equator (no false origin),
    point scale factor, grid convergence signed so that grid bearing = geodetic azimuth + gamma."""
    f, e2, e = _ell(a, invf)
    phi = math.radians(lat)
    lam = math.radians(dlon)
    psi = math.asinh(math.tan(phi)) - e * math.atanh(e * math.sin(phi))
    w = complex(psi, lam)
    P = _solve_P(w, e, e2)
    M = _M_c(P, a, e2)
    d = _dMdw(P, a, e2)
    nu = a / math.sqrt(1.0 - e2 * math.sin(phi) ** 2)
    k = k0 * abs(d) / (nu * math.cos(phi))
    # d(N + iE)/d(psi + i lam) = d.  Moving north (d psi > 0) moves the grid point by d (as N + iE):
    # the projected meridian has grid bearing atan2(Im d, Re d) = arg d.  The grid bearing of true north
    # is therefore arg(d); with "grid bearing = azimuth + gamma" and azimuth(north) = 0, gamma = arg(d).
    gamma = math.degrees(cmath.phase(d))
    return k0 * M.imag, k0 * M.real, k, gamma


def inverse(x, y, a, invf, k0):
    """x east of CM, y north of equator (metres, false origin removed).  Returns (lat, dlon, k, gamma)."""
    f, e2, e = _ell(a, invf)
    target = complex(y, x) / k0
    # start: spherical
    P = target / a
    w = cmath.asinh(cmath.tan(P))
    for _ in range(60):
        P = _solve_P(w, e, e2)
        F = _M_c(P, a, e2) - target
        dw = F / _dMdw(P, a, e2)
        w -= dw
        if abs(dw) < 1e-17:
            break
    psi, lam = w.real, w.imag
    # real latitude from isometric latitude
    phi = math.asin(math.tanh(psi))
    for _ in range(60):
        F = math.asinh(math.tan(phi)) - e * math.atanh(e * math.sin(phi)) - psi
        dF = (1.0 - e2) / ((1.0 - e2 * math.sin(phi) ** 2) * math.cos(phi))
        dphi = F / dF
        phi -= dphi
        if abs(dphi) < 1e-17:
            break
    P = _solve_P(w, e, e2)
    d = _dMdw(P, a, e2)
    nu = a / math.sqrt(1.0 - e2 * math.sin(phi) ** 2)
    k = k0 * abs(d) / (nu * math.cos(phi))
    return math.degrees(phi), math.degrees(lam), k, math.degrees(cmath.phase(d))


# ---------------------------------------------------------------------------------------------
# central meridians, independently coded
# ---------------------------------------------------------------------------------------------
def cm_utm_like(zone, prj_zonewidth, prj_initialcm):
    return (zone - 1) * prj_zonewidth + prj_initialcm


def cm_isg(zone, zonewidth, initialcm):
    """ISG zone 'AAS': AMG zone AA (6 deg wide: 3 sub-zones of `zonewidth` = 2 deg), sub-zone S in 1..3.
    Sub-zone 2 is centred on the AMG zone's central meridian."""
    amg, sub = divmod(int(zone), 10)
    return (amg - 1) * 3 * zonewidth + initialcm + (sub - 2) * zonewidth


# ---------------------------------------------------------------------------------------------
# self validation (run in every shard that uses the oracle)
# ---------------------------------------------------------------------------------------------
def self_check(n_mp=6, seed=1):
    """Returns dict of residuals; raises AssertionError if the oracle disagrees with
    (a) scipy quadrature of the real meridian arc, (b) numerical conformality, (c) mpmath at 40 digits,
    (d) the GDA94 technical manual's Flinders Peak values, (e) its own inverse."""
    import random
    from scipy import integrate
    rnd = random.Random(seed)
    res = {}
    a, invf, k0 = 6378137.0, 298.257222101, 0.9996
    f, e2, e = _ell(a, invf)
    # (a) on the central meridian the northing is k0 * meridian arc, easting 0, k = k0, gamma = 0
    mx = 0.0
    for lat in (-79.5, -45.0, -1e-6, 0.0, 12.3, 60.0, 83.9):
        x, y, k, g = forward(lat, 0.0, a, invf, k0)
        arc = a * (1 - e2) * integrate.quad(lambda t: (1 - e2 * math.sin(t) ** 2) ** -1.5, 0, math.radians(lat),
                                            epsabs=0, epsrel=1e-12)[0]
        mx = max(mx, abs(y - k0 * arc), abs(x), abs(k - k0) * 1e6, abs(g) * 1e6)
    res['meridian_arc_m'] = mx
    assert mx < 5e-8, ('tm oracle: central meridian', mx)
    # (b) conformality: finite differences of the map in lat and lon
    mxs = 0.0
    mxa = 0.0
    for _ in range(8):
        lat = rnd.uniform(-79, 83)
        dl = rnd.uniform(-29, 29)
        h = 1e-4
        x0, y0, k, g = forward(lat, dl, a, invf, k0)
        xn, yn, _, _ = forward(lat + h, dl, a, invf, k0)
        xs, ys, _, _ = forward(lat - h, dl, a, invf, k0)
        xe, ye, _, _ = forward(lat, dl + h, a, invf, k0)
        xw, yw, _, _ = forward(lat, dl - h, a, invf, k0)
        phi = math.radians(lat)
        rho = a * (1 - e2) / (1 - e2 * math.sin(phi) ** 2) ** 1.5
        nu = a / math.sqrt(1 - e2 * math.sin(phi) ** 2)
        dn = math.hypot(xn - xs, yn - ys) / (2 * math.radians(h) * rho)
        de = math.hypot(xe - xw, ye - yw) / (2 * math.radians(h) * nu * math.cos(phi))
        mxs = max(mxs, abs(dn - k), abs(de - k))
        # bearing of projected meridian = gamma
        bn = math.degrees(math.atan2(xn - xs, yn - ys))
        mxa = max(mxa, abs(bn - g))
        # parallel is perpendicular
        be = math.degrees(math.atan2(xe - xw, ye - yw))
        mxa = max(mxa, abs(((be - bn - 90) + 180) % 360 - 180))
    res['conformality_scale'] = mxs
    res['conformality_angle_deg'] = mxa
    assert mxs < 2e-8 and mxa < 2e-6, ('tm oracle: conformality', mxs, mxa)
    # (c) mpmath 40 digits
    if n_mp:
        import mpmath as mp
        old = mp.mp.dps
        mp.mp.dps = 40
        try:
            mx = 0.0
            for _ in range(n_mp):
                lat = rnd.uniform(-80, 84)
                dl = rnd.uniform(-30, 30)
                aa = rnd.choice([6378137.0, 6378388.0, 6300000.0, 6400000.0])
                iv = rnd.choice(['298.257222101', '297', '150', '400'])
                x, y, k, g = forward(lat, dl, aa, float(iv), k0)
                ff = 1 / mp.mpf(iv)
                ee2 = ff * (2 - ff)
                ee = mp.sqrt(ee2)
                ph = mp.radians(mp.mpf(lat))
                lm = mp.radians(mp.mpf(dl))
                ps = mp.asinh(mp.tan(ph)) - ee * mp.atanh(ee * mp.sin(ph))
                ww = mp.mpc(ps, lm)
                PP = mp.findroot(lambda P: mp.asinh(mp.tan(P)) - ee * mp.atanh(ee * mp.sin(P)) - ww,
                                 mp.asin(mp.tanh(ww)))
                MM = mp.mpf(aa) * (1 - ee2) * mp.quad(lambda t: (1 - ee2 * mp.sin(t) ** 2) ** mp.mpf(-1.5), [0, PP])
                mx = max(mx, abs(x - float(k0 * MM.imag)), abs(y - float(k0 * MM.real)))
            res['mpmath40_m'] = mx
            assert mx < 2e-8, ('tm oracle vs mpmath', mx)
        finally:
            mp.mp.dps = old
    # (d) published values: Flinders Peak, GDA94 technical manual (MGA94 zone 55)
    lat = -(37 + 57 / 60 + 3.72030 / 3600)
    lon = 144 + 25 / 60 + 29.52440 / 3600
    x, y, k, g = forward(lat, lon - 147.0, a, invf, k0)
    E, N = x + 500000.0, y + 10000000.0
    res['flinders_dE'] = abs(E - 273741.297)
    res['flinders_dN'] = abs(N - 5796489.777)
    gam_pub = -(1 + 35 / 60 + 3.65 / 3600)
    res['flinders_dgamma_deg'] = abs(g - gam_pub)
    res['flinders_dk'] = abs(k - 1.00023056)
    assert res['flinders_dE'] < 1e-3 and res['flinders_dN'] < 1e-3, ('tm oracle: Flinders Peak', E, N)
    assert res['flinders_dgamma_deg'] < 5e-6 and res['flinders_dk'] < 1e-8, ('tm oracle: Flinders k/gamma', k, g)
    # (e) inverse
    mx = 0.0
    for _ in range(10):
        lat = rnd.uniform(-80, 84)
        dl = rnd.uniform(-30, 30)
        x, y, k, g = forward(lat, dl, a, invf, k0)
        la, dd, k2, g2 = inverse(x, y, a, invf, k0)
        mx = max(mx, abs(la - lat), abs(dd - dl), abs(k2 - k), abs(g2 - g))
    res['inverse_roundtrip_deg'] = mx
    assert mx < 1e-12, ('tm oracle: inverse', mx)
    return res
