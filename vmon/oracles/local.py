"""local_exact: closed forms for C16 (local east-north-up frame, covariance congruence, error ellipse, t quantile).

Independent of geodepy: degrees are reduced exactly to [-45, 45] before any trigonometric call (so the cardinal
directions are exact 0 / +-1, unlike sin(radians(x))), the frame is built from its geometric definition
(up = ellipsoid normal, east = direction of increasing longitude, north = up x east), eigen-quantities come from
numpy.linalg, the Student-t quantile from scipy.  `selfcheck()` validates each of them against a second,
differently-derived evaluation (mpmath at 40 digits); a failure makes the run inconclusive."""
import math
from fractions import Fraction

import numpy as np

EPS = 2.220446049250313e-16


def sincosd(x):
    """(sin, cos) of x degrees with exact argument reduction (x finite)."""
    r = math.fmod(float(x), 360.0)
    q = int(round(r / 90.0))
    r -= 90.0 * q                       # exact: |r| <= 45 afterwards
    s, c = math.sin(math.radians(r)), math.cos(math.radians(r))
    q &= 3
    if q == 1:
        s, c = c, -s
    elif q == 2:
        s, c = -s, -c
    elif q == 3:
        s, c = -c, s
    return s + 0.0, c + 0.0


def frame(lat, lon):
    """(east, north, up) unit vectors of the local frame at geodetic lat/lon (degrees), Cartesian components."""
    sp, cp = sincosd(lat)
    sl, cl = sincosd(lon)
    up = (cp * cl, cp * sl, sp)                 # ellipsoid normal
    east = (-sl, cl, 0.0)                       # d(position)/d(lon), normalised; defined by lon also at the poles
    north = (-sp * cl, -sp * sl, cp)            # = up x east
    return east, north, up


def rot(lat, lon):
    """3x3 matrix whose columns are east, north, up: local -> Cartesian."""
    e, n, u = frame(lat, lon)
    return np.array([[e[0], n[0], u[0]], [e[1], n[1], u[1]], [e[2], n[2], u[2]]])


def det3(m):
    return (m[0][0] * (m[1][1] * m[2][2] - m[1][2] * m[2][1])
            - m[0][1] * (m[1][0] * m[2][2] - m[1][2] * m[2][0])
            + m[0][2] * (m[1][0] * m[2][1] - m[1][1] * m[2][0]))


def block_exactly_psd(v00, v01, v11):
    """Exact (rational) positive semi-definiteness of the symmetric 2x2 block [[v00, v01], [v01, v11]]."""
    a, b, c = Fraction(float(v00)), Fraction(float(v01)), Fraction(float(v11))
    return a >= 0 and c >= 0 and a * c - b * b >= 0


def ellipse(h00, h01, h11):
    """Oracle for the error ellipse of the symmetric 2x2 block in (east, north) order.
    Returns (lam_max, lam_min, bearing_deg of the major eigenvector clockwise from north in [0, 180))."""
    H = np.array([[h00, h01], [h01, h11]], dtype=float)
    w, vec = np.linalg.eigh(H)
    ve, vn = float(vec[0, 1]), float(vec[1, 1])
    brg = math.degrees(math.atan2(ve, vn)) % 180.0
    return float(w[1]), float(w[0]), brg


def mod180(d):
    """Signed difference of two axis directions, in (-90, 90]."""
    return (d + 90.0) % 180.0 - 90.0


_T = {}


def t975(n):
    """Two-sided 95 % Student-t quantile t_{0.975, n}."""
    if n not in _T:
        from scipy import stats
        _T[n] = float(stats.t.ppf(0.975, n))
    return _T[n]


def round5_candidates(q, slack=1e-9):
    """The 5-decimal value(s) `q` rounds to; two candidates only if q is within `slack` of a rounding boundary."""
    out = {round(q, 5)}
    out.add(round(q - slack, 5))
    out.add(round(q + slack, 5))
    return out


def selfcheck(rnd, with_t=False):
    """Second derivations.  Returns a dict of residuals; raises AssertionError when one is out of bounds."""
    import mpmath as mp
    res = {}
    old = mp.mp.dps
    mp.mp.dps = 40
    try:
        # (a) trigonometry in degrees and the frame, against mpmath built from the geometric definition
        pts = [(0.0, 0.0), (90.0, 0.0), (-90.0, 180.0), (90.0, -270.0), (0.0, 360.0), (-0.0, -360.0),
               (45.0, 90.0), (89.99999999999, 13.0), (-33.371389383333, 145.673034975), (19.4792453, 70.69315634)]
        for _ in range(6):
            pts.append((rnd.uniform(-90, 90), rnd.uniform(-360, 360)))
        mx = 0.0
        for lat, lon in pts:
            ph = mp.mpf(lat) * mp.pi / 180
            lm = mp.mpf(lon) * mp.pi / 180
            up = [mp.cos(ph) * mp.cos(lm), mp.cos(ph) * mp.sin(lm), mp.sin(ph)]
            east = [-mp.sin(lm), mp.cos(lm), mp.mpf(0)]
            north = [up[1] * east[2] - up[2] * east[1], up[2] * east[0] - up[0] * east[2],
                     up[0] * east[1] - up[1] * east[0]]
            R = rot(lat, lon)
            for j, col in enumerate((east, north, up)):
                for i in range(3):
                    mx = max(mx, abs(float(mp.mpf(float(R[i, j])) - col[i])))
            mx = max(mx, abs(det3(R.tolist()) - 1.0), float(np.max(np.abs(R.T @ R - np.eye(3)))))
        res['frame_vs_mpmath40'] = mx
        assert mx < 1e-15, ('local oracle: frame', mx)
        # (b) numpy eigen-decomposition of 2x2 blocks against the closed form evaluated at 40 digits
        blocks = [(1.44, -1.32, 1.22), (1.0, 0.0, 1e-8), (1e-8, 3e-5, 1.0), (4.0, 6.0, 9.0), (0.0, 0.0, 0.0),
                  (2.0, 0.0, 2.0), (1.0, 1e-9, 1.0 + 1e-8), (0.13717188345143422, -0.162946893597008, 0.1935651057989248)]
        for _ in range(8):
            a, b = rnd.gauss(0, 1), rnd.gauss(0, 1)
            c, d = rnd.gauss(0, 1), rnd.gauss(0, 1)
            s = 10 ** rnd.uniform(-8, 2)
            blocks.append(((a * a + c * c) * s, (a * b + c * d) * s, (b * b + d * d) * s))
        mxe, mxo = 0.0, 0.0
        for h00, h01, h11 in blocks:
            l1, l2, brg = ellipse(h00, h01, h11)
            A, B, C = mp.mpf(h00), mp.mpf(h01), mp.mpf(h11)
            z = mp.sqrt((A - C) ** 2 + 4 * B * B)
            m1, m2 = (A + C + z) / 2, (A + C - z) / 2
            sc = float(max(abs(m1), abs(m2)))
            if sc > 0:
                mxe = max(mxe, abs(float(mp.mpf(l1) - m1)) / sc, abs(float(mp.mpf(l2) - m2)) / sc)
            else:
                assert l1 == 0.0 and l2 == 0.0
            gap = float(m1 - m2)
            if gap > 1e-9 * sc:
                # major direction from the null space of (H - m1 I): (east, north) ~ (B, m1 - A) or (m1 - C, B)
                r1, r2 = (B, m1 - A), (m1 - C, B)
                e, n = r1 if (abs(r1[0]) + abs(r1[1])) >= (abs(r2[0]) + abs(r2[1])) else r2
                ref = float(mp.atan2(e, n) * 180 / mp.pi)
                mxo = max(mxo, abs(mod180(brg - ref)) / math.degrees(sc / gap))
        res['eigvalsh_vs_mpmath40_rel'] = mxe
        res['major_bearing_vs_mpmath40_over_cond_rad'] = mxo
        assert mxe < 1e-14, ('local oracle: eigenvalues', mxe)
        assert mxo < 1e-14, ('local oracle: eigenvector bearing', mxo)
        # (c) Student-t quantiles: the t CDF through the regularised incomplete beta function at 40 digits
        if with_t:
            mxc, margin = 0.0, 1.0
            for n in range(1, 121):
                q = t975(n)
                x = mp.mpf(n) / (mp.mpf(n) + mp.mpf(q) ** 2)
                cdf = 1 - mp.betainc(mp.mpf(n) / 2, mp.mpf(1) / 2, 0, x, regularized=True) / 2
                mxc = max(mxc, abs(float(cdf - mp.mpf('0.975'))))
                f = (q * 1e5) % 1.0
                margin = min(margin, abs(f - 0.5) * 1e-5)
            res['t_cdf_residual'] = mxc
            res['t_min_distance_to_rounding_boundary'] = margin
            # pdf >= 0.02 at every quantile, so |dq| <= 50 * residual
            assert mxc < 1e-12, ('local oracle: t quantiles', mxc)
    finally:
        mp.mp.dps = old
    return res
