"""angle_exact: what an angle value / object *denotes*, as an exact Fraction of a degree (DESIGN.md 3.4).

Deliberately not the library's string parser: HP floats are read through `decimal`, never through
format()/divmod() on floats; object fields are combined in exact rational arithmetic."""
import math
import decimal
from decimal import Decimal, ROUND_HALF_EVEN

_EXACT = decimal.Context(prec=80)
from fractions import Fraction

ARCSEC = Fraction(1, 3600)
TOL_DEG = Fraction(1, 3600 * 10 ** 8)        # 1e-8 arc-second, in degrees
TOL_DEG_F = float(TOL_DEG)

_Q13 = Decimal(1).scaleb(-13)
_Q12 = Decimal(1).scaleb(-12)


def hp_read(h):
    """Read an HP-notation float DDD.MMSSsss... as a decimal numeral at the notation's resolution:
    13 decimals (1e-9"), 12 decimals for |h| >= 512 where float64 cannot distinguish 1e-13.
    Returns (valid, degrees_as_Fraction_or_None, (D, MM, SS_fraction)).  Evaluated in an explicit decimal
    context of its own: the ambient context of the process (a host program may have lowered its precision)
    rounds every Decimal operation, abs() included."""
    with decimal.localcontext(_EXACT):
        return _hp_read(h)


def _hp_read(h):
    h = float(h)
    d = Decimal(h)
    q = _Q13 if abs(h) < 512 else _Q12
    d = d.quantize(q, rounding=ROUND_HALF_EVEN)
    sign = -1 if d < 0 else 1
    d = abs(d)
    t = d.as_tuple()
    digits = ''.join(map(str, t.digits)).rjust(-t.exponent + 1, '0')
    nd = -t.exponent
    ip, fp = digits[:-nd], digits[-nd:]
    D = int(ip or '0')
    MM = int(fp[0:2])
    SS = Fraction(int(fp[2:]), 10 ** (nd - 4))
    valid = MM < 60 and SS < 60
    val = sign * (D + Fraction(MM, 60) + SS / 3600) if valid else None
    return valid, val, (sign, D, MM, SS)


def hp_make(deg_fraction, sec_decimals=9):
    """Exact HP numeral (as Decimal string and float) for an angle given as a Fraction of a degree,
    seconds rounded half-even to `sec_decimals` decimals with proper carries.  Independent of the
    library's dec2hp."""
    sign = -1 if deg_fraction < 0 else 1
    x = abs(Fraction(deg_fraction))
    total = x * 3600 * 10 ** sec_decimals
    n = total.numerator // total.denominator
    r = total - n
    if r > Fraction(1, 2) or (r == Fraction(1, 2) and n % 2 == 1):
        n += 1
    secs_units = 60 * 10 ** sec_decimals
    mins, s = divmod(n, secs_units)
    D, MM = divmod(mins, 60)
    txt = '%d.%02d%0*d' % (D, MM, 2 + sec_decimals, s)
    if sign < 0:
        txt = '-' + txt
    return txt, float(txt)


def split_dms(deg_fraction):
    """(sign, D, M, seconds Fraction) exact."""
    sign = -1 if deg_fraction < 0 else 1
    x = abs(Fraction(deg_fraction))
    D = x.numerator // x.denominator
    r = (x - D) * 60
    M = r.numerator // r.denominator
    S = (r - M) * 60
    return sign, int(D), int(M), S


def denote(obj):
    """Exact angle (Fraction of a degree) denoted by a geodepy angle object, from its stored fields.
    Returns None for an HPAngle holding an invalid HP numeral."""
    n = type(obj).__name__
    if n == 'DECAngle':
        return Fraction(float(obj.dec_angle))
    if n == 'HPAngle':
        ok, v, _ = hp_read(obj.hp_angle)
        return v if ok else None
    if n == 'GONAngle':
        return Fraction(float(obj.gon_angle)) * Fraction(9, 10)
    if n == 'DMSAngle':
        v = Fraction(int(obj.degree)) + Fraction(int(obj.minute), 60) + Fraction(float(obj.second)) / 3600
        return v if obj.positive else -v
    if n == 'DDMAngle':
        v = Fraction(int(obj.degree)) + Fraction(float(obj.minute)) / 60
        return v if obj.positive else -v
    if isinstance(obj, (int, float)):
        return Fraction(float(obj))
    raise TypeError('not an angle object: %r' % (obj,))


def float_value_mismatch(obj):
    """A DECAngle *is* a float: code that takes it as one (math.radians, numpy, format, the library's own rho/nu) reads the
    C double of the float base, not the dec_angle attribute.  Returns None when the two agree (or obj is no float-derived
    angle), else (value of the float base, dec_angle)."""
    if not isinstance(obj, float) or type(obj) is float or not hasattr(obj, 'dec_angle'):
        return None
    raw = float.__float__(obj)
    try:
        da = float(obj.dec_angle)
    except Exception:
        return None
    if raw == da or (raw != raw and da != da):
        return None
    return raw, da


def denote_number(x, notation):
    """notation in 'dec', 'hp', 'gon', 'rad' (rad: returned as float degrees via exact-ish pi)."""
    if notation == 'dec':
        return Fraction(float(x))
    if notation == 'gon':
        return Fraction(float(x)) * Fraction(9, 10)
    if notation == 'hp':
        ok, v, _ = hp_read(x)
        return v if ok else None
    if notation == 'rad':
        return Fraction(float(x)) * 180 / PI_F
    raise ValueError(notation)


# 40-digit rational pi (enough: comparisons are at 1e-8"/720deg ~ 4e-15 relative)
PI_F = Fraction(31415926535897932384626433832795028841971, 10 ** 40)


def close(a, b, extra=Fraction(0)):
    """|a - b| <= 1e-8" (+extra), exact."""
    return abs(Fraction(a) - Fraction(b)) <= TOL_DEG + extra


def err_arcsec(a, b):
    return float(abs(Fraction(a) - Fraction(b)) * 3600)


def structure_ok(obj):
    """Field-range sanity of DMS/DDM objects (minutes < 60, seconds < 60, non-negative)."""
    n = type(obj).__name__
    if n == 'DMSAngle':
        return 0 <= obj.minute < 60 and 0 <= obj.second < 60 and obj.degree >= 0
    if n == 'DDMAngle':
        return 0 <= obj.minute < 60 and obj.degree >= 0
    return True


def make_object(angles_mod, cls_name, value):
    """Build an angle object of class `cls_name` holding (as closely as the notation allows) the float
    angle `value`, using only the constructors, with fields computed here in exact arithmetic."""
    v = Fraction(float(value))
    if cls_name == 'float':
        return float(value)
    if cls_name == 'DECAngle':
        return angles_mod.DECAngle(float(value))
    if cls_name == 'GONAngle':
        return angles_mod.GONAngle(float(v * Fraction(10, 9)))
    if cls_name == 'HPAngle':
        return angles_mod.HPAngle(hp_make(v, 9)[1])
    sign, D, M, S = split_dms(v)
    if cls_name == 'DMSAngle':
        s = float(S)
        if s >= 60.0:       # rounding of the float seconds field; carry exactly
            s = math.nextafter(60.0, 0.0)
        return angles_mod.DMSAngle(D, M, s, positive=(sign > 0))
    if cls_name == 'DDMAngle':
        m = float(M + S / 60)
        if m >= 60.0:
            m = math.nextafter(60.0, 0.0)
        return angles_mod.DDMAngle(D, m, positive=(sign > 0))
    raise ValueError(cls_name)


ANGLE_CLASSES = ['DECAngle', 'HPAngle', 'GONAngle', 'DMSAngle', 'DDMAngle']
ARG_TYPES = ['float'] + ANGLE_CLASSES
