"""Closed forms and numerical tools for C19 (survey reductions).  Nothing here imports the library.

* plane geometry: exact quadrant reduction of a bearing in degrees (`sincos_deg`), bearing of a vector by
  octant reduction with `atan` of the smaller/larger component and explicit quadrant assembly
  (`bearing_of`) -- deliberately not `atan2` + "add 360 if negative", the formula the library uses;
* atmosphere: saturation vapour pressure of Giacomo (1982) eq. 22 typed from the paper, Rueger (2012)
  eq. 5.27/5.28 (psychrometer), used only to decide the domain (e >= 0, e <= 40 hPa) and to turn a
  wet-bulb observation into the equivalent relative humidity;
* differentiation: complex-step derivative of a real-analytic routine written in plain arithmetic, with a
  Richardson-extrapolated central difference as fall-back / second derivation.
"""
import math

DEG = 180.0 / math.pi
C_VACUUM = 299792458.0


# ------------------------------------------------------------------------------------------------
# plane geometry
# ------------------------------------------------------------------------------------------------
def sincos_deg(theta):
    """(sin, cos) of an angle in degrees, reduced exactly to [0, 90) first, so the axes are exact."""
    t = math.fmod(theta, 360.0)
    if t < 0.0:
        t += 360.0
    k = int(t // 90.0)
    u = t - 90.0 * k            # exact (Sterbenz) for k >= 1, trivially for k == 0
    k %= 4
    s, c = math.sin(math.radians(u)), math.cos(math.radians(u))
    return ((s, c), (c, -s), (-s, -c), (-c, s))[k]


def bearing_of(de, dn):
    """Bearing in degrees, clockwise from north, in [0, 360), of the vector (de, dn); None for the zero
    vector.  Octant reduction: atan of (smaller / larger) component, assembled by quadrant."""
    ae, an = abs(de), abs(dn)
    if ae == 0.0 and an == 0.0:
        return None
    if ae <= an:
        a = math.degrees(math.atan(ae / an))
    else:
        a = 90.0 - math.degrees(math.atan(an / ae))
    if de >= 0.0 and dn >= 0.0:
        b = a
    elif de >= 0.0:
        b = 180.0 - a
    elif dn < 0.0:
        b = 180.0 + a
    else:
        b = 360.0 - a
    if b >= 360.0:
        b -= 360.0
    return b


def octant(b):
    return int(b // 45.0) % 8


def decade(x):
    x = abs(x)
    if x == 0.0:
        return 'zero'
    return int(math.floor(math.log10(x)))


def rotate_scale(ve, vn, rot_deg, psf):
    """Vector (east, north) turned clockwise by rot_deg (bearing increases) and scaled by psf."""
    s, c = sincos_deg(rot_deg)
    return psf * (ve * c + vn * s), psf * (vn * c - ve * s)


# ------------------------------------------------------------------------------------------------
# atmosphere
# ------------------------------------------------------------------------------------------------
def svp_giacomo_pa(tc):
    """Saturation vapour pressure (Pa) over water, Giacomo 1982 (BIPM 1981) eq. 22."""
    tk = tc + 273.15
    return math.exp(1.2378847e-5 * tk * tk - 1.9121316e-2 * tk + 33.93711047 - 6.3431645e3 / tk)


def e_giacomo_hpa(h_percent, tc):
    """Partial water vapour pressure (hPa) for a relative humidity in percent (no enhancement factor;
    the enhancement factor is applied inside the Ciddor routine)."""
    return (h_percent / 100.0) * svp_giacomo_pa(tc) / 100.0


def svp_rueger_hpa(t_wet, p_hpa):
    """Rueger 2012 eq. 5.27: saturation vapour pressure over water at the wet-bulb temperature (hPa)."""
    return (1.0007 + 3.46e-6 * p_hpa) * 6.1121 * math.exp(17.502 * t_wet / (240.94 + t_wet))


def e_psychrometer_hpa(t_dry, t_wet, p_hpa):
    """Rueger 2012 eq. 5.28 (aspirated psychrometer)."""
    return svp_rueger_hpa(t_wet, p_hpa) - 0.000662 * p_hpa * (t_dry - t_wet)


def n_ref_of(nref, freq, unit):
    """Reference refractive index of the instrument: given, or Rueger eq. 6.3 from unit length and
    modulation frequency."""
    if nref is not None:
        return nref
    return C_VACUUM / (2.0 * unit * freq)


# ------------------------------------------------------------------------------------------------
# differentiation
# ------------------------------------------------------------------------------------------------
def complex_step(f_of_sigma, sigma, h=1e-20):
    """(f(sigma), f'(sigma)) from one evaluation at sigma + ih.  f must be real-analytic plain arithmetic."""
    z = f_of_sigma(complex(sigma, h))
    return z.real, z.imag / h


def richardson(f_of_sigma, sigma, rel_step=2e-2, levels=5):
    """f'(sigma) by central differences with Richardson (Romberg) extrapolation."""
    h = rel_step * sigma
    tab = []
    for i in range(levels):
        hi = h / (2 ** i)
        row = [(f_of_sigma(sigma + hi) - f_of_sigma(sigma - hi)) / (2.0 * hi)]
        for j in range(1, i + 1):
            row.append(row[j - 1] + (row[j - 1] - tab[i - 1][j - 1]) / (4.0 ** j - 1.0))
        tab.append(row)
    return tab[-1][-1]


def ciddor_1996(lam_um, t_c, p_hpa, e_hpa, xc_ppm):
    """Phase and group refractivity (n - 1) x 1e8 of moist air after Ciddor (1996), Appl. Opt. 35, 1566 (phase) and Ciddor &
    Hill (1999) for the group form, written from the published equations: dispersion of standard air (eq. 1) and of standard
    water vapour (eq. 3), CO2 correction (eq. 2), BIPM density equation with the compressibility of appendix A, densities of
    the dry-air and water-vapour components relative to their standard states (eq. 5).  `e_hpa` is the partial water vapour
    pressure; the enhancement factor is applied to it as in the paper (x_w = f e / p).  Independent of the library's typing
    of the same equations: own constants table, own evaluation order, group dispersion from the closed-form derivatives."""
    s2 = (1.0 / lam_um) ** 2
    k0, k1, k2, k3 = 238.0185, 5792105.0, 57.362, 167917.0
    w0, w1, w2, w3 = 295.235, 2.6422, -0.032380, 0.004028
    # standard air 15 C, 101325 Pa, 450 ppm CO2, dry;  phase and group
    nas = k1 / (k0 - s2) + k3 / (k2 - s2)
    ngas = k1 * (k0 + s2) / (k0 - s2) ** 2 + k3 * (k2 + s2) / (k2 - s2) ** 2
    co2 = 1.0 + 0.534e-6 * (xc_ppm - 450.0)
    # standard water vapour 20 C, 1333 Pa
    nws = 1.022 * (w0 + s2 * (w1 + s2 * (w2 + s2 * w3)))
    ngws = 1.022 * (w0 + s2 * (3.0 * w1 + s2 * (5.0 * w2 + s2 * 7.0 * w3)))

    def zed(p, t, xw):
        T = t + 273.15
        a0, a1, a2 = 1.58123e-6, -2.9331e-8, 1.1043e-10
        b0, b1, c0, c1, d, e = 5.707e-6, -2.051e-8, 1.9898e-4, -2.376e-6, 1.83e-11, -0.765e-8
        q = p / T
        return 1.0 - q * (a0 + a1 * t + a2 * t * t + (b0 + b1 * t) * xw + (c0 + c1 * t) * xw * xw) + q * q * (d + e * xw * xw)
    R, Mw = 8.314510, 0.018015
    Ma = 1e-3 * (28.9635 + 12.011e-6 * (xc_ppm - 400.0))
    rho_axs = 101325.0 * Ma / (zed(101325.0, 15.0, 0.0) * R * 288.15)
    rho_ws = 1333.0 * Mw / (zed(1333.0, 20.0, 1.0) * R * 293.15)
    p = p_hpa * 100.0
    f = 1.00062 + 3.14e-8 * p + 5.6e-7 * t_c * t_c
    xw = f * (e_hpa * 100.0) / p
    Z = zed(p, t_c, xw)
    T = t_c + 273.15
    rho_a = p * Ma * (1.0 - xw) / (Z * R * T)
    rho_w = p * Mw * xw / (Z * R * T)
    phase = rho_a / rho_axs * nas * co2 + rho_w / rho_ws * nws
    group = rho_a / rho_axs * ngas * co2 + rho_w / rho_ws * ngws
    return phase, group


def ciddor_selfcheck():
    """The typed group form must be the typed phase form plus sigma dn/dsigma (central differences, Richardson), and dry
    standard air at 450 ppm must give the standard-air dispersion itself."""
    worst = 0.0
    for lam, t, p, e, xc in ((0.6328, 20.0, 1013.25, 11.0, 420.0), (0.85, -5.0, 800.0, 0.0, 300.0), (1.55, 35.0, 1050.0, 38.0, 600.0)):
        ph, gr = ciddor_1996(lam, t, p, e, xc)
        sig = 1.0 / lam
        d = richardson(lambda sg: ciddor_1996(1.0 / sg, t, p, e, xc)[0], sig)
        worst = max(worst, abs(gr - (ph + sig * d)) / gr)
    assert worst < 1e-9, worst
    ph, _ = ciddor_1996(0.6328, 15.0, 1013.25, 0.0, 450.0)
    s2 = (1 / 0.6328) ** 2
    assert abs(ph - (5792105.0 / (238.0185 - s2) + 167917.0 / (57.362 - s2))) < 1e-6 * ph
    return worst


def selfcheck_tools():
    """Validates the tools above against second derivations.  Returns a dict of residuals; raises
    AssertionError text via ValueError if one is out of bounds (caller turns it into INCONCLUSIVE)."""
    res = {}
    # published check values of the Giacomo saturation vapour pressure: 611.2 Pa at 0 C, 2339 Pa at 20 C
    res['svp0'] = abs(svp_giacomo_pa(0.0) - 611.2)
    res['svp20'] = abs(svp_giacomo_pa(20.0) - 2339.0)
    if res['svp0'] > 0.5 or res['svp20'] > 1.0:
        raise ValueError('Giacomo saturation vapour pressure check values not reproduced: %r' % res)
    # Rueger's and Giacomo's saturation pressures describe the same physics: within 0.5 % over -20..45 C
    worst = 0.0
    for t in range(-20, 46, 5):
        a, b = svp_rueger_hpa(float(t), 1000.0), svp_giacomo_pa(float(t)) / 100.0
        worst = max(worst, abs(a - b) / b)
    res['svp_rueger_vs_giacomo_rel'] = worst
    if worst > 2e-2:
        raise ValueError('Rueger and Giacomo saturation pressures disagree: %r' % worst)
    # geometry: bearings of known vectors, sincos on the axes
    known = [((0.0, 1.0), 0.0), ((1.0, 1.0), 45.0), ((1.0, 0.0), 90.0), ((1.0, -1.0), 135.0), ((0.0, -1.0), 180.0),
             ((-1.0, -1.0), 225.0), ((-1.0, 0.0), 270.0), ((-1.0, 1.0), 315.0),
             ((1.0, math.sqrt(3.0)), 30.0), ((-math.sqrt(3.0), -1.0), 240.0)]
    worst = 0.0
    for (de, dn), want in known:
        worst = max(worst, abs(bearing_of(de, dn) - want))
        s, c = sincos_deg(want)
        n = math.hypot(de, dn)
        worst = max(worst, abs(s - de / n) * DEG, abs(c - dn / n) * DEG)
    res['geometry_deg'] = worst
    if worst > 1e-12:
        raise ValueError('bearing oracle self-check failed: %r' % worst)
    if sincos_deg(90.0) != (1.0, -0.0) and sincos_deg(90.0) != (1.0, 0.0):
        raise ValueError('sincos_deg(90) not exact')
    # differentiation tools on a function of the same shape with a hand-derived derivative
    k0, k1, w = 238.0185, 5792105.0, 0.004028

    def f(s):
        return k1 / (k0 - s * s) + w * s ** 6

    def df(s):
        return 2.0 * k1 * s / (k0 - s * s) ** 2 + 6.0 * w * s ** 5
    worst_c = worst_r = 0.0
    for s in (0.625, 1.0, 1.7, 2.5):
        _, d1 = complex_step(f, s)
        d2 = richardson(f, s)
        worst_c = max(worst_c, abs(d1 - df(s)) / abs(df(s)))
        worst_r = max(worst_r, abs(d2 - df(s)) / abs(df(s)))
    res['complex_step_rel'] = worst_c
    res['richardson_rel'] = worst_r
    if worst_c > 1e-14 or worst_r > 1e-9:
        raise ValueError('differentiation tools self-check failed: %r' % res)
    return res
