"""Closed forms and numerical tools for C19 (survey reductions).  Nothing here imports the library.

* plane geometry: exact quadrant reduction of a bearing in degrees (`sincos_deg`), bearing of a vector by
  octant reduction with `atan` of the smaller/larger component and explicit quadrant assembly
  (`bearing_of`) -- deliberately not `atan2` + "add 360 if negative", the formula the library uses;
* atmosphere: saturation vapour pressure of Giacomo (1982) eq. 22 typed from the paper, Rueger (2012)
  eq. 5.27/5.28 (psychrometer), used only to decide the domain (e >= 0, e <= 40 hPa) and to turn a
  wet-bulb observation into the equivalent relative humidity;
* differentiation: complex-step derivative of a real-analytic routine written in plain arithmetic, with a
  Richardson-extrapolated central difference as fall-back / second derivation.
"""
import math

DEG = 180.0 / math.pi
C_VACUUM = 299792458.0


# ------------------------------------------------------------------------------------------------
# plane geometry
# ------------------------------------------------------------------------------------------------
def sincos_deg(theta):
    """(sin, cos) of an angle in degrees, reduced exactly to [0, 90) first, so the axes are exact."""
    t = math.fmod(theta, 360.0)
    if t < 0.0:
        t += 360.0
    k = int(t // 90.0)
    u = t - 90.0 * k            # exact (Sterbenz) for k >= 1, trivially for k == 0
    k %= 4
    s, c = math.sin(math.radians(u)), math.cos(math.radians(u))
    return ((s, c), (c, -s), (-s, -c), (-c, s))[k]


def bearing_of(de, dn):
    """Bearing in degrees, clockwise from north, in [0, 360), of the vector (de, dn); None for the zero
    vector.  Octant reduction: atan of (smaller / larger) component, assembled by quadrant."""
    ae, an = abs(de), abs(dn)
    if ae == 0.0 and an == 0.0:
        return None
    if ae <= an:
        a = math.degrees(math.atan(ae / an))
    else:
        a = 90.0 - math.degrees(math.atan(an / ae))
    if de >= 0.0 and dn >= 0.0:
        b = a
    elif de >= 0.0:
        b = 180.0 - a
    elif dn < 0.0:
        b = 180.0 + a
    else:
        b = 360.0 - a
    if b >= 360.0:
        b -= 360.0
    return b


def octant(b):
    return int(b // 45.0) % 8


def decade(x):
    x = abs(x)
    if x == 0.0:
        return 'zero'
    return int(math.floor(math.log10(x)))


def rotate_scale(ve, vn, rot_deg, psf):
    """Vector (east, north) turned clockwise by rot_deg (bearing increases) and scaled by psf."""
    s, c = sincos_deg(rot_deg)
    return psf * (ve * c + vn * s), psf * (vn * c - ve * s)


# ------------------------------------------------------------------------------------------------
# atmosphere
# ------------------------------------------------------------------------------------------------
def svp_giacomo_pa(tc):
    """Saturation vapour pressure (Pa) over water, Giacomo 1982 (BIPM 1981) eq. 22."""
    tk = tc + 273.15
    return math.exp(1.2378847e-5 * tk * tk - 1.9121316e-2 * tk + 33.93711047 - 6.3431645e3 / tk)


def e_giacomo_hpa(h_percent, tc):
    """Partial water vapour pressure (hPa) for a relative humidity in percent (no enhancement factor;
    the enhancement factor is applied inside the Ciddor routine)."""
    return (h_percent / 100.0) * svp_giacomo_pa(tc) / 100.0


def svp_rueger_hpa(t_wet, p_hpa):
    """Rueger 2012 eq. 5.27: saturation vapour pressure over water at the wet-bulb temperature (hPa)."""
    return (1.0007 + 3.46e-6 * p_hpa) * 6.1121 * math.exp(17.502 * t_wet / (240.94 + t_wet))


def e_psychrometer_hpa(t_dry, t_wet, p_hpa):
    """Rueger 2012 eq. 5.28 (aspirated psychrometer)."""
    return svp_rueger_hpa(t_wet, p_hpa) - 0.000662 * p_hpa * (t_dry - t_wet)


def n_ref_of(nref, freq, unit):
    """Reference refractive index of the instrument: given, or Rueger eq. 6.3 from unit length and
    modulation frequency."""
    if nref is not None:
        return nref
    return C_VACUUM / (2.0 * unit * freq)


# ------------------------------------------------------------------------------------------------
# differentiation
# ------------------------------------------------------------------------------------------------
def complex_step(f_of_sigma, sigma, h=1e-20):
    """(f(sigma), f'(sigma)) from one evaluation at sigma + ih.  f must be real-analytic plain arithmetic."""
    z = f_of_sigma(complex(sigma, h))
    return z.real, z.imag / h


def richardson(f_of_sigma, sigma, rel_step=2e-2, levels=5):
    """f'(sigma) by central differences with Richardson (Romberg) extrapolation."""
    h = rel_step * sigma
    tab = []
    for i in range(levels):
        hi = h / (2 ** i)
        row = [(f_of_sigma(sigma + hi) - f_of_sigma(sigma - hi)) / (2.0 * hi)]
        for j in range(1, i + 1):
            row.append(row[j - 1] + (row[j - 1] - tab[i - 1][j - 1]) / (4.0 ** j - 1.0))
        tab.append(row)
    return tab[-1][-1]


def selfcheck_tools():
    """Validates the tools above against second derivations.  Returns a dict of residuals; raises
    AssertionError text via ValueError if one is out of bounds (caller turns it into INCONCLUSIVE)."""
    res = {}
    # published check values of the Giacomo saturation vapour pressure: 611.2 Pa at 0 C, 2339 Pa at 20 C
    res['svp0'] = abs(svp_giacomo_pa(0.0) - 611.2)
    res['svp20'] = abs(svp_giacomo_pa(20.0) - 2339.0)
    if res['svp0'] > 0.5 or res['svp20'] > 1.0:
        raise ValueError('Giacomo saturation vapour pressure check values not reproduced: %r' % res)
    # Rueger's and Giacomo's saturation pressures describe the same physics: within 0.5 % over -20..45 C
    worst = 0.0
    for t in range(-20, 46, 5):
        a, b = svp_rueger_hpa(float(t), 1000.0), svp_giacomo_pa(float(t)) / 100.0
        worst = max(worst, abs(a - b) / b)
    res['svp_rueger_vs_giacomo_rel'] = worst
    if worst > 2e-2:
        raise ValueError('Rueger and Giacomo saturation pressures disagree: %r' % worst)
    # geometry: bearings of known vectors, sincos on the axes
    known = [((0.0, 1.0), 0.0), ((1.0, 1.0), 45.0), ((1.0, 0.0), 90.0), ((1.0, -1.0), 135.0), ((0.0, -1.0), 180.0),
             ((-1.0, -1.0), 225.0), ((-1.0, 0.0), 270.0), ((-1.0, 1.0), 315.0),
             ((1.0, math.sqrt(3.0)), 30.0), ((-math.sqrt(3.0), -1.0), 240.0)]
    worst = 0.0
    for (de, dn), want in known:
        worst = max(worst, abs(bearing_of(de, dn) - want))
        s, c = sincos_deg(want)
        n = math.hypot(de, dn)
        worst = max(worst, abs(s - de / n) * DEG, abs(c - dn / n) * DEG)
    res['geometry_deg'] = worst
    if worst > 1e-12:
        raise ValueError('bearing oracle self-check failed: %r' % worst)
    if sincos_deg(90.0) != (1.0, -0.0) and sincos_deg(90.0) != (1.0, 0.0):
        raise ValueError('sincos_deg(90) not exact')
    # differentiation tools on a function of the same shape with a hand-derived derivative
    k0, k1, w = 238.0185, 5792105.0, 0.004028

    def f(s):
        return k1 / (k0 - s * s) + w * s ** 6

    def df(s):
        return 2.0 * k1 * s / (k0 - s * s) ** 2 + 6.0 * w * s ** 5
    worst_c = worst_r = 0.0
    for s in (0.625, 1.0, 1.7, 2.5):
        _, d1 = complex_step(f, s)
        d2 = richardson(f, s)
        worst_c = max(worst_c, abs(d1 - df(s)) / abs(df(s)))
        worst_r = max(worst_r, abs(d2 - df(s)) / abs(df(s)))
    res['complex_step_rel'] = worst_c
    res['richardson_rel'] = worst_r
    if worst_c > 1e-14 or worst_r > 1e-9:
        raise ValueError('differentiation tools self-check failed: %r' % res)
    return res
