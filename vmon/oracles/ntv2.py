"""ntv2_synth: NTv2 grid-shift files written from a *model*, node addressing model, exact expected values
(DESIGN.md 3.5).  Nothing here imports or calls the library; the expected values come from the model only.

Format (NTv2 developer's guide, binary little-endian variant):
    overview header   11 records x 16 bytes  NUM_OREC NUM_SREC NUM_FILE GS_TYPE VERSION SYSTEM_F SYSTEM_T
                                              MAJOR_F MINOR_F MAJOR_T MINOR_T
    per sub-grid      11 records x 16 bytes  SUB_NAME PARENT CREATED UPDATED S_LAT N_LAT E_LONG W_LONG LAT_INC
                                              LONG_INC GS_COUNT, then GS_COUNT nodes x 4 float32
    end record        'END     ' + 8 bytes
    a record is an 8-character blank-padded key followed by 8 bytes: int32 + 4 pad bytes, 8 characters, or a double.
    Latitudes/longitudes/increments are arc-seconds, longitudes are POSITIVE WEST.  Nodes are stored row by row from
    the south, inside a row from the EAST (smallest positive-west longitude) to the west.

Model (JSON-able, all quantities exact integers so that the truth is known to the bit):
    {'gs_type','version','system_f','system_t','major_f','minor_f','major_t','minor_t',
     'subgrids': [ {'name','parent','created','updated'  (DDMMYYYY),
                    's_mas','e_mas'          south / east extent in 0.001 arc-second (east = smallest positive-west value),
                    'lat_inc_u','lon_inc_u'  increments in 1e-6 arc-second,
                    'nrows','ncols',
                    'fields': 4 x {'s': s, 'k': 3x3 integers}}, ... ]   (file order = list order)}
    field value at fractional node index (i = rows from the south, j = columns from the east)
        v(i, j) = sum_{a,b<=2} k[a][b] * i^a * j^b / 2^s
    A polynomial in the node index is a polynomial of the same degree in latitude and longitude.  The integers are
    bounded so that |sum k i^a j^b| < 2^24 at every node: every node value is exactly representable in float32.
"""
import math
import struct
from fractions import Fraction

import numpy as np

HDR = 176               # 11 records x 16 bytes
NODE = 16               # 4 x float32
F32_INT = 1 << 24
EDGE_ULPS = 4           # a query within 4 ulp of an extent edge is a don't-care for inclusion
IDX_EPS = Fraction(1, 10 ** 9)     # a query this close (in cells) to a grid line may use either adjacent cell
RING_EPS = 1e-6         # true fractional index within 1e-6 of the outermost ring counts as in the ring


class OracleError(Exception):
    """The synthetic file / model failed its own validation."""


# ------------------------------------------------------------------------------------------------------
# model arithmetic (exact)
# ------------------------------------------------------------------------------------------------------
def n_mas(sg):
    x = sg['s_mas'] * 1000 + (sg['nrows'] - 1) * sg['lat_inc_u']
    if x % 1000:
        raise OracleError('north extent of %s is not a whole number of 0.001"' % sg['name'])
    return x // 1000


def w_mas(sg):
    x = sg['e_mas'] * 1000 + (sg['ncols'] - 1) * sg['lon_inc_u']
    if x % 1000:
        raise OracleError('west extent of %s is not a whole number of 0.001"' % sg['name'])
    return x // 1000


_EXT = {}


def extents(sg):
    """(S, N, E, W) exact arc-seconds, (lat_inc, lon_inc) exact arc-seconds."""
    key = (sg['s_mas'], sg['e_mas'], sg['lat_inc_u'], sg['lon_inc_u'], sg['nrows'], sg['ncols'])
    r = _EXT.get(key)
    if r is None:
        if len(_EXT) > 256:
            _EXT.clear()
        r = _EXT[key] = (Fraction(sg['s_mas'], 1000), Fraction(n_mas(sg), 1000), Fraction(sg['e_mas'], 1000),
                         Fraction(w_mas(sg), 1000), Fraction(sg['lat_inc_u'], 10 ** 6), Fraction(sg['lon_inc_u'], 10 ** 6))
    return r


def header_values(sg):
    """The six doubles written into / expected back from the sub-grid header (nearest double of the decimal)."""
    return {'s_lat': sg['s_mas'] / 1000, 'n_lat': n_mas(sg) / 1000, 'e_long': sg['e_mas'] / 1000,
            'w_long': w_mas(sg) / 1000, 'lat_inc': sg['lat_inc_u'] / 10 ** 6, 'long_inc': sg['lon_inc_u'] / 10 ** 6}


def node_array(sg):
    """float64 array [row, col, field] of the exact node values; raises if one is not float32-exact."""
    nr, nc = sg['nrows'], sg['ncols']
    i = np.arange(nr, dtype=np.int64)[:, None]
    j = np.arange(nc, dtype=np.int64)[None, :]
    out = np.empty((nr, nc, 4), dtype=np.float64)
    for f, fld in enumerate(sg['fields']):
        tot = np.zeros((nr, nc), dtype=np.int64)
        for a in range(3):
            for b in range(3):
                k = int(fld['k'][a][b])
                if k:
                    tot = tot + k * i ** a * j ** b
        if int(np.abs(tot).max()) >= F32_INT:
            raise OracleError('field %d of %s exceeds the float32-exact range' % (f, sg['name']))
        out[:, :, f] = tot / float(1 << fld['s'])
    if not np.array_equal(out.astype('<f4').astype(np.float64), out):
        raise OracleError('node values of %s are not float32-exact' % sg['name'])
    return out


def poly(fld, i, j):
    k = fld['k']
    v = 0.0
    for a in range(3):
        ia = i ** a if a else 1.0
        for b in range(3):
            if k[a][b]:
                v += k[a][b] * ia * (j ** b if b else 1.0)
    return v / (1 << fld['s'])


def poly_di(fld, i, j):
    k = fld['k']
    v = 0.0
    for b in range(3):
        jb = j ** b if b else 1.0
        v += (k[1][b] + 2.0 * k[2][b] * i) * jb
    return v / (1 << fld['s'])


def poly_dj(fld, i, j):
    k = fld['k']
    v = 0.0
    for a in range(3):
        ia = i ** a if a else 1.0
        v += (k[a][1] + 2.0 * k[a][2] * j) * ia
    return v / (1 << fld['s'])


def degree(fld):
    """'const' | 'linear' | 'bilinear' | 'biquadratic' (largest class of terms present)."""
    k = fld['k']
    if any(k[2]) or k[0][2] or k[1][2]:
        return 'biquadratic'
    if k[1][1]:
        return 'bilinear'
    if k[1][0] or k[0][1]:
        return 'linear'
    return 'const'


def cell_change(fld, r0, c0):
    """The field's change across the cell [r0, r0+1] x [c0, c0+1]: bound of |df/di| plus bound of |df/dj| on the cell
    (for a linear field a*i + b*j this is |a| + |b|, the change between opposite corners).  The partial derivatives of a
    bi-quadratic are sampled on the 3 x 3 lattice of corners, edge mid-points and centre."""
    di = dj = 0.0
    for u in (0.0, 0.5, 1.0):
        for v in (0.0, 0.5, 1.0):
            di = max(di, abs(poly_di(fld, r0 + u, c0 + v)))
            dj = max(dj, abs(poly_dj(fld, r0 + u, c0 + v)))
    return di + dj


def tolerance(fld, r0, c0):
    """Statement: 1e-6 of the field unit plus 1e-6 of the field's change across one cell."""
    return 1e-6 + 1e-6 * cell_change(fld, r0, c0)


# ------------------------------------------------------------------------------------------------------
# writer and addressing model
# ------------------------------------------------------------------------------------------------------
def _key(key):
    b = key.encode('ascii')
    if len(b) > 8:
        raise OracleError('key too long: %r' % key)
    return b.ljust(8, b' ')


def _rec_int(key, v):
    return _key(key) + struct.pack('<i', v) + b'\x00\x00\x00\x00'


def _rec_str(key, v):
    b = v.encode('ascii')
    if len(b) > 8:
        raise OracleError('value too long: %r' % v)
    return _key(key) + b.ljust(8, b' ')


def _rec_dbl(key, v):
    return _key(key) + struct.pack('<d', v)


def layout(model):
    """Addressing model, computed arithmetically (not by writing): per sub-grid the byte offset of its header, of its
    first node, and its shape."""
    out = []
    off = HDR
    for sg in model['subgrids']:
        cnt = sg['nrows'] * sg['ncols']
        out.append({'name': sg['name'], 'hdr': off, 'nodes': off + HDR, 'count': cnt, 'end': off + HDR + NODE * cnt,
                    'nrows': sg['nrows'], 'ncols': sg['ncols']})
        off += HDR + NODE * cnt
    return out


def file_size(model):
    return layout(model)[-1]['end'] + 16


def node_offset(lay_k, r, c):
    return lay_k['nodes'] + NODE * (r * lay_k['ncols'] + c)


def write(model, path):
    """Write the file sequentially; returns the per-sub-grid node arrays (exact values)."""
    arrays = []
    names = [sg['name'] for sg in model['subgrids']]
    if len(set(names)) != len(names):
        raise OracleError('duplicate sub-grid names')
    with open(path, 'wb') as f:
        f.write(_rec_int('NUM_OREC', 11))
        f.write(_rec_int('NUM_SREC', 11))
        f.write(_rec_int('NUM_FILE', len(model['subgrids'])))
        f.write(_rec_str('GS_TYPE', model['gs_type']))
        f.write(_rec_str('VERSION', model['version']))
        f.write(_rec_str('SYSTEM_F', model['system_f']))
        f.write(_rec_str('SYSTEM_T', model['system_t']))
        f.write(_rec_dbl('MAJOR_F', model['major_f']))
        f.write(_rec_dbl('MINOR_F', model['minor_f']))
        f.write(_rec_dbl('MAJOR_T', model['major_t']))
        f.write(_rec_dbl('MINOR_T', model['minor_t']))
        for sg in model['subgrids']:
            hv = header_values(sg)
            arr = node_array(sg)
            arrays.append(arr)
            f.write(_rec_str('SUB_NAME', sg['name']))
            f.write(_rec_str('PARENT', sg['parent']))
            f.write(_rec_str('CREATED', sg['created']))
            f.write(_rec_str('UPDATED', sg['updated']))
            f.write(_rec_dbl('S_LAT', hv['s_lat']))
            f.write(_rec_dbl('N_LAT', hv['n_lat']))
            f.write(_rec_dbl('E_LONG', hv['e_long']))
            f.write(_rec_dbl('W_LONG', hv['w_long']))
            f.write(_rec_dbl('LAT_INC', hv['lat_inc']))
            f.write(_rec_dbl('LONG_INC', hv['long_inc']))
            f.write(_rec_int('GS_COUNT', sg['nrows'] * sg['ncols']))
            f.write(arr.astype('<f4').tobytes(order='C'))      # rows from the south, columns from the east
        f.write(b'END     ' + b'\x00' * 8)
    return arrays


def verify_file(model, path, arrays):
    """Self-validation by a second route: the bytes found at the arithmetically computed offsets must decode to the
    model's header values and node values (random access against the sequential writer), size and end record must match.
    Returns the number of values compared; raises OracleError otherwise."""
    data = open(path, 'rb').read()
    lay = layout(model)
    if len(data) != file_size(model):
        raise OracleError('file size %d != addressing model %d' % (len(data), file_size(model)))
    if data[:16] != b'NUM_OREC\x0b\x00\x00\x00\x00\x00\x00\x00' or data[-16:-8] != b'END     ':
        raise OracleError('first / end record malformed')
    if struct.unpack_from('<i', data, 2 * 16 + 8)[0] != len(model['subgrids']):
        raise OracleError('NUM_FILE mismatch')
    n = 0
    for sg, lk, arr in zip(model['subgrids'], lay, arrays):
        h = lk['hdr']
        if data[h:h + 8] != b'SUB_NAME' or data[h + 8:h + 16].decode('ascii').strip() != sg['name']:
            raise OracleError('sub-grid header of %s not at offset %d' % (sg['name'], h))
        hv = header_values(sg)
        for idx, key in ((4, 's_lat'), (5, 'n_lat'), (6, 'e_long'), (7, 'w_long'), (8, 'lat_inc'), (9, 'long_inc')):
            if struct.unpack_from('<d', data, h + 16 * idx + 8)[0] != hv[key]:
                raise OracleError('header value %s of %s' % (key, sg['name']))
        if struct.unpack_from('<i', data, h + 16 * 10 + 8)[0] != lk['count']:
            raise OracleError('GS_COUNT of %s' % sg['name'])
        # every node through the addressing formula (vectorised) and the four corners through node_offset()
        blk = np.frombuffer(data, dtype='<f4', count=4 * lk['count'], offset=lk['nodes']).astype(np.float64)
        blk = blk.reshape(lk['nrows'], lk['ncols'], 4)
        if not np.array_equal(blk, arr):
            raise OracleError('node block of %s does not decode to the model' % sg['name'])
        for r in (0, lk['nrows'] - 1):
            for c in (0, lk['ncols'] - 1):
                got = struct.unpack_from('<4f', data, node_offset(lk, r, c))
                want = tuple(poly(fld, float(r), float(c)) for fld in sg['fields'])
                if got != want:
                    raise OracleError('corner node (%d,%d) of %s: %r != %r' % (r, c, sg['name'], got, want))
        n += blk.size + 7
    return n


# ------------------------------------------------------------------------------------------------------
# where a query lies, which sub-grid must serve it
# ------------------------------------------------------------------------------------------------------
def query_arcsec(lat_deg, lon_deg):
    """Exact arc-second coordinates of a query given in decimal degrees (longitude positive EAST in, positive WEST out)."""
    return Fraction(lat_deg) * 3600, -Fraction(lon_deg) * 3600


def _axis(x, lo, hi, deg=None):
    fx = float(x)
    if deg is not None and x == lo and float(lo) == lo and deg * 3600.0 == float(lo) and float(lo) / 3600.0 == deg:
        # exactly on the lower (south / east) limit, and exactly so in floating point whichever way an implementation
        # converts between degrees and arc-seconds: the limits belong to the extents, the position is inside
        return 'in'
    for e in (lo, hi):
        tol = Fraction(EDGE_ULPS * max(math.ulp(float(e)), math.ulp(fx)))
        if abs(x - e) <= tol:
            return 'edge'
    return 'in' if lo < x < hi else 'out'


def locate(model, lat_deg, lon_deg):
    """For every sub-grid: 'in' (strictly inside, or exactly on the south / east limit with exactly representable numbers:
    decisive), 'edge' (within 4 ulp of one of its extent edges and not outside in the other coordinate: inclusion is a
    don't-care; this includes the north / west limits, which the reader treats as half-open), 'out'.
    Returns dict(status=[...], finest_in=index|None, acceptable=set of indices and/or None, decisive=bool)."""
    LAT, LON = query_arcsec(lat_deg, lon_deg)
    status = []
    on_lower = False
    for sg in model['subgrids']:
        S, N, E, W, _, _ = extents(sg)
        a, b = _axis(LAT, S, N, float(lat_deg)), _axis(LON, E, W, -float(lon_deg))
        status.append('out' if 'out' in (a, b) else ('edge' if 'edge' in (a, b) else 'in'))
        if status[-1] == 'in' and (LAT == S or LON == E):
            on_lower = True
    ins = [k for k, s in enumerate(status) if s == 'in']
    edges = [k for k, s in enumerate(status) if s == 'edge']
    finest = None
    for k in ins:
        if finest is None or _finer(model['subgrids'][k], model['subgrids'][finest]):
            finest = k
    acceptable = set()
    if finest is None:
        acceptable.add(None)
        acceptable.update(edges)
    else:
        acceptable.add(finest)
        acceptable.update(k for k in edges if _finer(model['subgrids'][k], model['subgrids'][finest]))
    return {'status': status, 'finest_in': finest, 'acceptable': acceptable, 'decisive': len(acceptable) == 1,
            'LAT': LAT, 'LON': LON, 'exactly_on_south_or_east_limit': on_lower}


def _finer(a, b):
    return (a['lat_inc_u'], a['lon_inc_u']) < (b['lat_inc_u'], b['lon_inc_u'])


def frac_index(sg, LAT, LON):
    """Exact fractional node index (rows from the south, columns from the east) of a query."""
    S, _, E, _, dlat, dlon = extents(sg)
    return (LAT - S) / dlat, (LON - E) / dlon


def _floor(x):
    return x.numerator // x.denominator


def cells_along(x, n, lo_margin, hi_margin):
    """Cell indices r (lower node of the cell) that legitimately enclose the exact index x on an axis of n nodes; a
    query within 1e-9 of a grid line may be served from either side.  Only cells whose stencil [r-lo_margin,
    r+1+hi_margin] lies inside 0..n-1 are returned."""
    base = _floor(x)
    cand = {base}
    if x - base <= IDX_EPS:
        cand.add(base - 1)
    if base + 1 - x <= IDX_EPS:
        cand.add(base + 1)
    return sorted(r for r in cand if r - lo_margin >= 0 and r + 1 + hi_margin <= n - 1)


def expected_node_sets(sg, fi, fj, method):
    """All node-index sets (row*ncols + col) that are 'exactly the 4 (bilinear) / 16 (bicubic) nodes around the
    query'.  Empty when no admissible stencil exists inside the sub-grid."""
    m = 0 if method == 'bilinear' else 1
    nc = sg['ncols']
    out = []
    for r in cells_along(fi, sg['nrows'], m, m):
        for c in cells_along(fj, nc, m, m):
            out.append(frozenset((r + dr) * nc + (c + dc) for dr in range(-m, 2 + m) for dc in range(-m, 2 + m)))
    return out


def ring_node_bounds(sg, fi, fj):
    """For a bicubic query in the outermost ring of cells: list of (must, may) node-index sets, one per cell that may
    legitimately serve the query (a query within 1e-9 of a grid line may be served from either side).  `must` = the part of the 4x4
    stencil of the true cell that exists in the sub-grid; `may` = must plus the nodes a completion of the stencil from the
    sub-grid's own nodes can use: the three rows / columns nearest to an edge the stencil crosses."""
    nr, nc = sg['nrows'], sg['ncols']

    def axis(k0, n):
        want = [k for k in range(k0 - 1, k0 + 3)]
        inside = {k for k in want if 0 <= k < n}
        extra = set(inside)
        if want[0] < 0:
            extra |= set(range(0, min(3, n)))
        if want[-1] > n - 1:
            extra |= set(range(max(0, n - 3), n))
        return inside, extra
    out = []
    for r0 in cells_along(fi, nr, 0, 0) or [true_cell(sg, fi, fj)[0]]:
        for c0 in cells_along(fj, nc, 0, 0) or [true_cell(sg, fi, fj)[1]]:
            ri, re_ = axis(r0, nr)
            ci, ce = axis(c0, nc)
            out.append((frozenset(r * nc + c for r in ri for c in ci), frozenset(r * nc + c for r in re_ for c in ce)))
    return out


def true_cell(sg, fi, fj):
    r0 = min(max(_floor(fi), 0), sg['nrows'] - 2)
    c0 = min(max(_floor(fj), 0), sg['ncols'] - 2)
    return r0, c0


def stencil_leaves_subgrid(sg, fi, fj):
    """True iff the 4x4 stencil of the query's true cell is not contained in the sub-grid; a true fractional index
    within 1e-6 of the outermost ring of cells counts as in the ring."""
    i, j = float(fi), float(fj)
    return (i < 1 + RING_EPS or i > sg['nrows'] - 2 - RING_EPS or
            j < 1 + RING_EPS or j > sg['ncols'] - 2 - RING_EPS)


def bilinear_blend(arr, f, r0, c0, y, x):
    """Exact bilinear blend of the four enclosing nodes (y = fraction towards north, x = towards west)."""
    v00 = float(arr[r0, c0, f])
    v01 = float(arr[r0, c0 + 1, f])
    v10 = float(arr[r0 + 1, c0, f])
    v11 = float(arr[r0 + 1, c0 + 1, f])
    return (1 - y) * ((1 - x) * v00 + x * v01) + y * ((1 - x) * v10 + x * v11)


def classify_reads(lay, reads):
    """reads: [(absolute position, bytes requested, bytes returned)].  Returns (blocks, nodes, outside) where
    blocks = set of sub-grid indices whose node block was touched, nodes = {(k, node index): 16-bit mask of the bytes
    read}, outside = list of reads with a byte outside every node block (headers, end record, beyond EOF)."""
    nodes = {}
    blocks = set()
    outside = []
    for pos, want, got in reads:
        if got < want or want <= 0:
            outside.append((pos, want, got))
            if got <= 0:
                continue
        hit = None
        for k, lk in enumerate(lay):
            if lk['nodes'] <= pos and pos + got <= lk['end']:
                hit = k
                break
        if hit is None:
            if (pos, want, got) not in outside:
                outside.append((pos, want, got))
            continue
        blocks.add(hit)
        rel = pos - lay[hit]['nodes']
        n0, b0 = divmod(rel, NODE)
        if b0 + got <= NODE:                      # the usual case: the read stays inside one node
            key = (hit, n0)
            nodes[key] = nodes.get(key, 0) | (((1 << got) - 1) << b0)
        else:
            for b in range(rel, rel + got):
                key = (hit, b // NODE)
                nodes[key] = nodes.get(key, 0) | (1 << (b % NODE))
    return blocks, nodes, outside


def selfcheck():
    """Fixed check values of the model arithmetic (independent of any file)."""
    fld = {'s': 3, 'k': [[8, 4, 2], [-16, 1, 0], [3, 0, 1]]}
    # v = (8 + 4j + 2j^2 - 16i + ij + 3i^2 + i^2 j^2)/8 ; at (2, 3): 8+12+18-32+6+12+36 = 60 -> 7.5
    if poly(fld, 2.0, 3.0) != 7.5:
        raise OracleError('poly')
    # dv/di = (-16 + j + 6i + 2 i j^2)/8 at (2,3): -16+3+12+36 = 35 ; dv/dj = (4 + 4j + i + 2 i^2 j)/8: 4+12+2+24 = 42
    if poly_di(fld, 2.0, 3.0) != 35 / 8 or poly_dj(fld, 2.0, 3.0) != 42 / 8:
        raise OracleError('poly derivative')
    if degree(fld) != 'biquadratic' or degree({'s': 0, 'k': [[1, 2, 0], [3, 0, 0], [0, 0, 0]]}) != 'linear':
        raise OracleError('degree')
    sg = {'name': 'T', 's_mas': -1000500, 'e_mas': 2000250, 'lat_inc_u': 37500000, 'lon_inc_u': 112500000, 'nrows': 5,
          'ncols': 3, 'fields': [fld] * 4}
    if n_mas(sg) != -850500 or w_mas(sg) != 2225250:
        raise OracleError('extent arithmetic')
    lay = layout({'subgrids': [sg, sg]})
    if (lay[0]['nodes'], lay[0]['end'], lay[1]['hdr'], lay[1]['nodes']) != (352, 352 + 240, 592, 768):
        raise OracleError('layout')
    if node_offset(lay[1], 2, 1) != 768 + 16 * 7:
        raise OracleError('node offset')
    fi, fj = frac_index(sg, Fraction(-1000500 + 37500 * 3, 1000), Fraction(2000250 + 56250, 1000))
    if (fi, fj) != (3, Fraction(1, 2)):
        raise OracleError('fractional index')
    if expected_node_sets(sg, fi, fj, 'bilinear') != [frozenset({6, 7, 9, 10}), frozenset({9, 10, 12, 13})]:
        raise OracleError('node sets')
    if expected_node_sets(sg, fi, fj, 'bicubic') != [] or not stencil_leaves_subgrid(sg, fi, fj):
        raise OracleError('stencil')
    return True
