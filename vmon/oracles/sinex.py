"""sinex_synth: SINEX 2.02 writer from a model, an independent parser, and the sub-matrix model (C18).

Everything here is derived from the published SINEX 2.02 format description only (fixed columns of the header
line, FILE/COMMENT, SITE/ID, SOLUTION/EPOCHS, SOLUTION/ESTIMATE, SOLUTION/MATRIX_ESTIMATE L|U with three
values per line).  Nothing is imported from the library under test, and no expected value is obtained by
re-reading a file with the library.

Column numbers below are 0-based Python slices of the line.

  header   %=SNX 0:5 | version 6:10 | agency 11:14 | creation time 15:27 | data agency 28:31 | start 32:44 |
           end 45:57 | observation code 58 | number of estimates 60:65 (I5.5) | constraint code 66 |
           solution content codes 68, 70, 72 ... (6(1X,A1))
  SITE/ID  code 1:5 | pt 6:8 | domes 9:18 | technique 19 | description 21:43 | longitude 44:55 (I3,1X,I2,1X,F4.1)
           | latitude 56:67 (I3,1X,I2,1X,F4.1) | height 68:75 (F7.1)
  EPOCHS   code 1:5 | pt 6:8 | soln 9:13 | technique 14 | start 16:28 | end 29:41 | mean 42:54
  ESTIMATE index 1:6 | type 7:13 | code 14:18 | pt 19:21 | soln 22:26 | ref epoch 27:39 | unit 40:44 |
           constraint 45 | value 47:68 (E21.15) | std dev 69:80 (E11.6)
  MATRIX   para1 1:6 | para2 7:12 | values 13:34, 35:56, 57:78 (3(1X,E21.14))

A *model* is a plain dict (JSON-able apart from nothing): all numbers are kept as the decimal numerals that are
written to the file, so the truth is known to the digit.
"""
import random
import re
from decimal import Decimal, InvalidOperation

import numpy as np

TRAILER = '%ENDSNX'
BLOCK_ORDER = ['FILE/COMMENT', 'SITE/ID', 'SOLUTION/EPOCHS', 'SOLUTION/ESTIMATE', 'SOLUTION/MATRIX_ESTIMATE']
HDR_SITE = '*CODE PT __DOMES__ T _STATION DESCRIPTION__ APPROX_LON_ APPROX_LAT_ _APP_H_'
HDR_EPOCH = '*CODE PT SOLN T _DATA_START_ __DATA_END__ _MEAN_EPOCH_'
HDR_EST = '*INDEX TYPE__ CODE PT SOLN _REF_EPOCH__ UNIT S __ESTIMATED VALUE____ _STD_DEV___'
HDR_MAT = '*PARA1 PARA2 ____PARA2+0__________ ____PARA2+1__________ ____PARA2+2__________'
AGENCIES = ['AUS', 'IGS', 'VIC', 'NSV', 'GVA', 'VVV', 'COD', 'TVL']
CANON_ZERO = '0.00000000000000e+00'       # the only spelling remove_matrixzeros_sinex documents/recognises
TIME_RE = re.compile(r'^(\d\d):(\d\d\d):(\d{5})$')


# ------------------------------------------------------------------------------------------------------------
# fixed-column line builder
# ------------------------------------------------------------------------------------------------------------
def place(fields):
    """fields: [(start_col, width, text, 'l'|'r')] -> line; refuses overlap and over-long text."""
    end = max(c + w for c, w, _, _ in fields)
    buf = [' '] * end
    used = [False] * end
    for c, w, t, just in fields:
        t = str(t)
        if len(t) > w:
            raise ValueError('field %r does not fit width %d' % (t, w))
        t = t.ljust(w) if just == 'l' else t.rjust(w)
        for k, ch in enumerate(t):
            if used[c + k]:
                raise ValueError('overlapping fields at column %d' % (c + k))
            used[c + k] = True
            buf[c + k] = ch
    return ''.join(buf).rstrip()


def fmt_e(x, width, decimals, upper):
    s = ('%*.*e' % (width, decimals, x))
    return s.upper() if upper else s


# ------------------------------------------------------------------------------------------------------------
# model generation (all randomness from the `random.Random` handed in)
# ------------------------------------------------------------------------------------------------------------
def make_model(gen):
    """gen: {'fseed': str, 'nst': int, 'nsol': 1..3, 'vel': bool, 'tri': 'L'|'U', 'expo': 'e'|'E',
             'agency': str, 'dagency': str, 'cstyle': 'star'|'blank'|'none', 'zero': 'dense'|'groups'|'sparse'}"""
    rnd = random.Random(gen['fseed'])
    upper = gen.get('expo', 'e') == 'E'
    nst, nsol, vel = int(gen['nst']), int(gen['nsol']), bool(gen['vel'])
    alphabet = 'ABCDEFGHIJKLMNOPQRSTUVWXYZ0123456789'
    codes = []
    while len(codes) < nst:
        c = ''.join(rnd.choice(alphabet) for _ in range(4))
        if c not in codes:
            codes.append(c)
    sites = []
    for k, c in enumerate(codes):
        neg = rnd.random() < 0.5
        latd = rnd.choice([0, 0, rnd.randint(0, 89)]) if rnd.random() < 0.2 else rnd.randint(0, 89)
        h10 = rnd.choice([40606, 317, -125, 53, 50, 99999 // 2, rnd.randint(-4000, 88000), rnd.randint(-999, 999)])
        sites.append({
            'code': c, 'pt': ' A', 'domes': '%05dM%03d' % (rnd.randint(10000, 99999), rnd.randint(1, 9)),
            'tech': 'P', 'desc': ('Station %s %s' % (c, rnd.choice(['', 'pillar', 'AU', 'roof']))).strip()[:22],
            'lon': [rnd.randint(0, 359), rnd.randint(0, 59), '%4.1f' % (rnd.randint(0, 599) / 10.0)],
            'lat': [neg, latd, rnd.randint(0, 59), '%4.1f' % (rnd.randint(0, 599) / 10.0)],
            'h': '%7.1f' % (h10 / 10.0)})
    nsols = [rnd.randint(1, nsol) for _ in codes]
    nsols[rnd.randrange(nst)] = nsol
    stasol = [(c, s + 1) for c, k in zip(codes, nsols) for s in range(k)]
    if gen.get('order') == 'by-solution':
        # the later solution segments of a station do not follow its first one directly (all first segments, then all
        # second ones ...): the format does not ask for adjacency
        stasol.sort(key=lambda cs: cs[1])
    types = [('STAX', 'm', 6.0e6), ('STAY', 'm', 6.0e6), ('STAZ', 'm', 6.0e6)]
    if vel:
        types += [('VELX', 'm/y', 0.1), ('VELY', 'm/y', 0.1), ('VELZ', 'm/y', 0.1)]
    yy = rnd.choice([19, 5, 99, 24])
    est = []
    for c, s in stasol:
        epoch = '%02d:%03d:%05d' % (yy, rnd.randint(1, 365), rnd.choice([0, 43200, rnd.randint(0, 86399)]))
        for typ, unit, scale in types:
            v = rnd.uniform(-scale, scale)
            if rnd.random() < 0.03:
                v = 0.0
            est.append({'type': typ, 'code': c, 'pt': ' A', 'soln': s, 'epoch': epoch, 'unit': unit, 'cons': '2',
                        'val': fmt_e(v, 21, 14, upper), 'sd': fmt_e(rnd.uniform(1e-4, 1e-2), 11, 5, upper)})
    npar = len(est)
    rs = np.random.RandomState(rnd.getrandbits(32))
    ppe = 6 if vel else 3            # parameters per (station, solution) entry
    if gen.get('zero', 'dense') == 'groups' and len(stasol) > 1:
        # sub-networks: entries of different groups are uncorrelated -> exact zeros scattered over the triangle
        # (a permuted block-diagonal of positive-definite blocks, hence positive definite)
        ng = rnd.randint(2, max(2, min(4, len(stasol))))
        grp = [rnd.randrange(ng) for _ in stasol]
        grp[0], grp[-1] = 0, 1
        split = vel and rnd.random() < 0.5      # velocities of some entries form networks of their own
        label = []
        for e, g in enumerate(grp):
            for k in range(ppe):
                label.append(g + ng if (split and k >= 3 and (e + g) % 2 == 0) else g)
        Q = np.zeros((npar, npar))
        for g in sorted(set(label)):
            idx = [i for i, lab in enumerate(label) if lab == g]
            A = rs.randn(len(idx), len(idx))
            B = A @ A.T * 1e-6 + np.eye(len(idx)) * 1e-8
            Q[np.ix_(idx, idx)] = B
    elif gen.get('zero', 'dense') == 'sparse':
        # isolated exact zeros anywhere in the triangle (lines with one or two zero values among non-zero ones);
        # positive definite by strict diagonal dominance (Gershgorin)
        d = np.array([rnd.uniform(1e-6, 4e-6) for _ in range(npar)])
        off = 1e-6 / (2.0 * max(npar, 1))
        Q = np.diag(d)
        for i in range(npar):
            for j in range(i):
                if rnd.random() < 0.5:
                    Q[i, j] = Q[j, i] = rnd.choice([-1.0, 1.0]) * rnd.uniform(0.05, 0.95) * off
    else:
        A = rs.randn(npar, npar)
        Q = A @ A.T * 1e-6 + np.eye(npar) * 1e-8
    if gen.get('qscale'):
        # the same structure at another magnitude (a covariance in other units; values far below 1e-16 are still values)
        Q = Q * float(gen['qscale'])
    Qt = [[None] * npar for _ in range(npar)]
    for i in range(npar):
        for j in range(i, npar):
            x = float(Q[i, j])
            t = fmt_e(0.0 if x == 0.0 else x, 21, 14, upper)       # never "-0.0"
            Qt[i][j] = t
            Qt[j][i] = t
    cstyle = gen.get('cstyle', 'star')
    if cstyle == 'none':
        comment = None
    elif cstyle == 'blank':
        comment = [' generated test solution %s' % gen['fseed'], ' second comment line, 1X,A79 form']
    else:
        comment = ['* generated test solution %s' % gen['fseed']]
    return {
        'gen': dict(gen), 'version': '2.02', 'agency': gen.get('agency', 'AUS'), 'dagency': gen.get('dagency', 'IGS'),
        'ctime': '%02d:%03d:%05d' % (rnd.choice([20, 21, 7]), rnd.randint(1, 365), rnd.randint(0, 86399)),
        'start': '%02d:%03d:%05d' % (yy, rnd.randint(1, 180), 0), 'end': '%02d:%03d:%05d' % (yy, rnd.randint(181, 365), 86370),
        'obs': 'P', 'constraint': rnd.choice(['2', '1', '0']), 'vel': vel, 'tri': gen['tri'], 'upper': upper,
        'comment': comment, 'codes': codes, 'sites': sites, 'stasol': stasol, 'est': est, 'Q': Qt, 'npar': npar,
    }


# ------------------------------------------------------------------------------------------------------------
# writer
# ------------------------------------------------------------------------------------------------------------
def header_line(m, count=None, content=None):
    content = content if content is not None else (['S', 'V'] if m['vel'] else ['S'])
    f = [(0, 5, '%=SNX', 'l'), (6, 4, m['version'], 'l'), (11, 3, m['agency'], 'l'), (15, 12, m['ctime'], 'l'),
         (28, 3, m['dagency'], 'l'), (32, 12, m['start'], 'l'), (45, 12, m['end'], 'l'), (58, 1, m['obs'], 'l'),
         (60, 5, '%05d' % (m['npar'] if count is None else count), 'r'), (66, 1, m['constraint'], 'l')]
    for k, c in enumerate(content):
        f.append((68 + 2 * k, 1, c, 'l'))
    return place(f)


def site_line(s):
    neg, d, mi, sec = s['lat']
    latd = ('-%d' % d) if neg else ('%d' % d)
    return place([(1, 4, s['code'], 'l'), (6, 2, s['pt'], 'r'), (9, 9, s['domes'], 'l'), (19, 1, s['tech'], 'l'),
                  (21, 22, s['desc'], 'l'), (44, 3, s['lon'][0], 'r'), (48, 2, s['lon'][1], 'r'), (51, 4, s['lon'][2], 'r'),
                  (56, 3, latd, 'r'), (60, 2, mi, 'r'), (63, 4, sec, 'r'), (68, 7, s['h'], 'r')])


def epoch_line(m, code, soln):
    return place([(1, 4, code, 'l'), (6, 2, ' A', 'r'), (9, 4, soln, 'r'), (14, 1, 'P', 'l'),
                  (16, 12, m['start'], 'l'), (29, 12, m['end'], 'l'), (42, 12, m['start'][:7] + '43185', 'l')])


def estimate_line(index, e):
    return place([(1, 5, index, 'r'), (7, 6, e['type'], 'l'), (14, 4, e['code'], 'l'), (19, 2, e['pt'], 'r'),
                  (22, 4, e['soln'], 'r'), (27, 12, e['epoch'], 'l'), (40, 4, e['unit'], 'l'), (45, 1, e['cons'], 'l'),
                  (47, 21, e['val'], 'r'), (69, 11, e['sd'], 'r')])


def matrix_lines(Qt, tri, omit_zero_lines=False):
    """omit_zero_lines: records whose values are all exactly zero are left out (elements that are not given are zero: the
    layout a zero-line removal produces and the format allows)."""
    n = len(Qt)
    out = []
    for i in range(n):
        cols = list(range(0, i + 1)) if tri == 'L' else list(range(i, n))
        for k in range(0, len(cols), 3):
            chunk = cols[k:k + 3]
            if omit_zero_lines and all(float(Qt[i][j].replace('D', 'E')) == 0.0 for j in chunk):
                continue
            f = [(1, 5, i + 1, 'r'), (7, 5, chunk[0] + 1, 'r')]
            for q, j in enumerate(chunk):
                f.append((13 + 22 * q, 21, Qt[i][j], 'r'))
            out.append(place(f))
    return out


def write_lines(m):
    """gen['lay'] selects a layout the format allows: 'std' (one column-header comment per block), 'nohdr' (none), 'extra' (two
    comment lines after each block title), 'mid' (comment lines between the data lines of SITE/ID, SOLUTION/EPOCHS and
    SOLUTION/ESTIMATE), 'blocks' (further blocks the editing functions have no business with: FILE/REFERENCE before SITE/ID,
    SOLUTION/STATISTICS after SOLUTION/EPOCHS)."""
    lay = m['gen'].get('lay', 'std')

    def block(title, hdr, data, title_tail=''):
        out = ['+' + title + title_tail]
        if lay != 'nohdr':
            out.append(hdr)
        if lay == 'extra':
            out.append('* second comment line of the block')
        data = list(data)
        if lay == 'mid' and len(data) >= 2 and 'MATRIX' not in title:
            k = len(data) // 2
            data = data[:k] + ['* comment between two data lines'] + data[k:]
        out.extend(data)
        out.append('-' + title + title_tail)
        return out
    L = [header_line(m)]
    if m['comment'] is not None:
        L.append('+FILE/COMMENT')
        L.extend(m['comment'])
        L.append('-FILE/COMMENT')
    if lay == 'blocks':
        L += ['+FILE/REFERENCE', ' DESCRIPTION        generated test solution', ' SOFTWARE           sinex_synth', '-FILE/REFERENCE']
    L += block('SITE/ID', HDR_SITE, (site_line(s) for s in m['sites']))
    L += block('SOLUTION/EPOCHS', HDR_EPOCH, (epoch_line(m, c, s) for c, s in m['stasol']))
    if lay == 'blocks':
        L += ['+SOLUTION/STATISTICS', '*_STATISTICAL PARAMETER________ __VALUE(S)____________',
              ' NUMBER OF OBSERVATIONS              %17d' % (3 * len(m['est'])), ' VARIANCE FACTOR                    1.000000000000000',
              '-SOLUTION/STATISTICS']
    L += block('SOLUTION/ESTIMATE', HDR_EST, (estimate_line(i + 1, e) for i, e in enumerate(m['est'])))
    mat = matrix_lines(m['Q'], m['tri'], omit_zero_lines=bool(m['gen'].get('omit_zero_lines')))
    if m['gen'].get('cpad'):
        # a comment line of chosen length right after the block title: moves every record of the block by that many characters
        # (a reader that works in fixed-size chunks meets a record boundary exactly on a chunk boundary for one of the lengths)
        mat = ['*' + '-' * (int(m['gen']['cpad']) - 1)] + mat
    L += block('SOLUTION/MATRIX_ESTIMATE', HDR_MAT, mat, ' %s COVA' % m['tri'])
    L.append(TRAILER)
    return L


def write_text(m):
    return '\n'.join(write_lines(m)) + '\n'


# ------------------------------------------------------------------------------------------------------------
# independent parser
# ------------------------------------------------------------------------------------------------------------
class Parsed:
    def __init__(self):
        self.header = None
        self.lines = []
        self.blocks = {}         # name -> {'open': str, 'close': str|None, 'data': [str], 'comments': [str]}
        self.order = []
        self.problems = []       # [(key, detail)]  structural well-formedness findings
        self.trailer_ok = False

    def problem(self, key, detail):
        self.problems.append((key, detail))


def parse(text):
    """Structure of a SINEX file.  Never raises for malformed input: findings are collected in .problems.

    Keys: header-missing, block-end-joined-with-trailer, block-end-not-on-own-line, block-end-without-begin,
          nested-block, block-not-closed, data-outside-block, text-after-trailer, trailer-not-on-own-line."""
    p = Parsed()
    lines = text.split('\n')
    if lines and lines[-1] == '':
        lines = lines[:-1]
    p.lines = lines
    if not lines or not lines[0].startswith('%=SNX'):
        p.problem('header-missing', (lines[0] if lines else '')[:100])
        if not lines:
            return p
    p.header = lines[0]
    cur = None
    seen_trailer = False
    for ln in lines[1:]:
        if seen_trailer:
            if ln.strip():
                p.problem('text-after-trailer', ln[:100])
            continue
        c0 = ln[:1]
        if c0 == '+':
            name = ln[1:].split()[0] if ln[1:].split() else ''
            if cur is not None:
                p.problem('nested-block', '%s opened inside %s' % (name, cur))
            cur = name
            p.blocks[name] = {'open': ln, 'close': None, 'data': [], 'comments': []}
            p.order.append(name)
        elif c0 == '-' and cur is not None and ln[1:1 + len(cur)] == cur:
            blk = p.blocks[cur]
            want = ('-' + blk['open'][1:]).rstrip()
            rest = ln.rstrip()
            if rest == want or rest == '-' + cur:
                blk['close'] = ln
            elif rest.endswith(TRAILER) and rest[:-len(TRAILER)].rstrip() in (want, '-' + cur):
                p.problem('block-end-joined-with-trailer', ln[:120])
                blk['close'] = rest[:-len(TRAILER)]
                seen_trailer = True          # the trailer text is there, only not on its own line
                p.trailer_ok = False
            else:
                p.problem('block-end-not-on-own-line', ln[:120])
                blk['close'] = ln
            cur = None
        elif c0 == '-' and cur is None:
            p.problem('block-end-without-begin', ln[:100])
        elif c0 == '-' and ln[1:2].isalpha():
            p.problem('block-end-does-not-match-begin', '%s inside %s' % (ln[:60], cur))
        elif ln.startswith(TRAILER):
            if cur is not None:
                p.problem('block-not-closed', cur)
                cur = None
            if ln.rstrip() == TRAILER:
                p.trailer_ok = True
            else:
                p.problem('trailer-not-on-own-line', ln[:100])
            seen_trailer = True
        elif c0 == '*':
            if cur is not None:
                p.blocks[cur]['comments'].append(ln)
        else:
            if cur is None:
                if ln.strip():
                    p.problem('data-outside-block', ln[:100])
            else:
                p.blocks[cur]['data'].append(ln)
    if cur is not None:
        p.problem('block-not-closed', cur)
    if not seen_trailer:
        p.problem('trailer-not-on-own-line', (lines[-1] if lines else '')[-100:])
    return p


HEADER_FIELDS = [('magic', 0, 5), ('version', 6, 10), ('agency', 11, 14), ('creation_time', 15, 27),
                 ('data_agency', 28, 31), ('data_start', 32, 44), ('data_end', 45, 57), ('obs_code', 58, 59),
                 ('count', 60, 65), ('constraint', 66, 67)]
HEADER_BLANKS = [5, 10, 14, 27, 31, 44, 57, 59, 65, 67]


def header_fields(h):
    h = h.rstrip()
    d = {name: h[a:b] for name, a, b in HEADER_FIELDS}
    d['content'] = h[68:]
    d['blanks'] = [c for c in HEADER_BLANKS if c < len(h) and h[c] != ' ']
    d['length'] = len(h)
    return d


def creation_time_ok(t):
    mt = TIME_RE.match(t)
    if not mt:
        return False
    return 0 <= int(mt.group(2)) <= 366 and 0 <= int(mt.group(3)) <= 86399


def header_layout(h, want):
    """Field-by-field layout check at the SINEX columns, left to right, ignoring trailing blanks.
    `want`: {'version','agency','data_agency','obs_code','constraint'} values that must be unchanged.
    Returns (first_failing_field | None, detail).  Data start/end are not judged; the count and content values
    are judged separately (only their position/format here)."""
    f = header_fields(h)
    seq = [('magic', f['magic'] == '%=SNX'), ('version', f['version'] == want['version']),
           ('agency', f['agency'] == want['agency']), ('creation-time', creation_time_ok(f['creation_time'])),
           ('data-agency', f['data_agency'] == want['data_agency']), ('obs-code', f['obs_code'] == want['obs_code']),
           ('count-field', re.fullmatch(r'\d{5}', f['count']) is not None),
           ('constraint-code', f['constraint'] == want['constraint']),
           ('separators', not f['blanks']),
           ('content-codes-position', re.fullmatch(r'([A-Z]( [A-Z])*)?', f['content']) is not None)]
    for name, ok in seq:
        if not ok:
            return name, {'header': h, 'fields': {k: v for k, v in f.items()}}
    return None, None


def dec(token):
    """A SINEX numeral (lower- or upper-case exponent, also Fortran D) as an exact Decimal; None if it is none."""
    try:
        return Decimal(token.strip().replace('D', 'E').replace('d', 'e'))
    except (InvalidOperation, ValueError):
        return None


def parse_estimate_line(ln):
    return {'index': ln[1:6], 'type': ln[7:13].strip(), 'code': ln[14:18], 'pt': ln[19:21], 'soln': ln[22:26],
            'epoch': ln[27:39], 'unit': ln[40:44].strip(), 'cons': ln[45:46], 'val': ln[47:68], 'sd': ln[69:80]}


def parse_matrix(block):
    """-> (layout flag, kind, {(row, col): token}, problems) from the data lines; 1-based indices."""
    prob = []
    toks = block['open'].split()
    tri = toks[1] if len(toks) > 1 else None
    kind = toks[2] if len(toks) > 2 else None
    el = {}
    for ln in block['data']:
        c = ln.split()
        try:
            r, c0 = int(c[0]), int(c[1])
        except (ValueError, IndexError):
            prob.append(('unreadable-line', ln[:100]))
            continue
        vals = c[2:]
        if not 1 <= len(vals) <= 3:
            prob.append(('not-1-to-3-values', ln[:100]))
        for k, v in enumerate(vals):
            if (r, c0 + k) in el:
                prob.append(('duplicate-element', [r, c0 + k]))
            el[(r, c0 + k)] = v
    return tri, kind, el, prob


# ------------------------------------------------------------------------------------------------------------
# expected results from the model
# ------------------------------------------------------------------------------------------------------------
def keep_indices(m, removed=(), drop_velocity=False):
    removed = set(removed)
    return [i for i, e in enumerate(m['est'])
            if e['code'] not in removed and not (drop_velocity and e['type'].startswith('VEL'))]


def expected_triangle(m, keep, tri=None):
    """Sub-matrix model: the original with every row/column not in `keep` deleted, as decimal numerals, in the
    stored triangle; 1-based indices of the edited file."""
    tri = tri or m['tri']
    Q = m['Q']
    out = {}
    for a, ia in enumerate(keep):
        rng = range(0, a + 1) if tri == 'L' else range(a, len(keep))
        for b in rng:
            out[(a + 1, b + 1)] = Q[ia][keep[b]]
    return out


def is_matrix_data_line(ln):
    c = ln.split()
    if not ln.startswith(' ') or not 3 <= len(c) <= 5:
        return False
    return c[0].isdigit() and c[1].isdigit() and all(dec(x) is not None for x in c[2:])


def zero_line_kind(ln):
    """None if the matrix data line holds a non-zero value; 'canonical' if every value is spelled exactly
    0.00000000000000e+00; 'other' for all-zero lines in another spelling (E exponent, signs ...)."""
    vals = ln.split()[2:]
    if not vals or any(dec(v) != 0 for v in vals):
        return None
    return 'canonical' if all(v == CANON_ZERO for v in vals) else 'other'


# ------------------------------------------------------------------------------------------------------------
# self-validation (second derivations; an oracle that fails makes the run INCONCLUSIVE)
# ------------------------------------------------------------------------------------------------------------
# Lines typed by hand from the format description / the SINEX 2.02 document examples, with the column ruler.
_REF_HEADER = '%=SNX 2.02 AUS 20:001:00000 IGS 19:100:00000 19:200:86370 P 00012 2 S V'
_REF_SITE = ' ALBH  A 40129M003 P Victoria, BC, Canada   236 30 45.1  48 23 23.2    31.7'
_REF_SITE2 = ' MAWS  A 66004M001 P Mawson                  62 52 14.6 -67 36 17.2  4060.6'
_REF_EPOCH = ' ALBH  A    1 P 19:100:00000 19:200:86370 19:100:43185'
_REF_EST = '     7 VELX   ALBH  A    2 10:001:00000 m/y  2 -2.34133301687257e+06 5.58270e-04'
_REF_MAT = '     4     1  1.00000000000000e-06 -2.50000000000000e-07  0.00000000000000e+00'


def selfcheck():
    """Returns a list of failures (empty = the oracle agrees with its second derivations)."""
    bad = []
    m = {'version': '2.02', 'agency': 'AUS', 'dagency': 'IGS', 'ctime': '20:001:00000', 'start': '19:100:00000',
         'end': '19:200:86370', 'obs': 'P', 'constraint': '2', 'vel': True, 'npar': 12}
    if header_line(m) != _REF_HEADER:
        bad.append('header writer: %r' % header_line(m))
    s = {'code': 'ALBH', 'pt': ' A', 'domes': '40129M003', 'tech': 'P', 'desc': 'Victoria, BC, Canada',
         'lon': [236, 30, '45.1'], 'lat': [False, 48, 23, '23.2'], 'h': '31.7'}
    if site_line(s) != _REF_SITE:
        bad.append('site writer: %r' % site_line(s))
    s2 = {'code': 'MAWS', 'pt': ' A', 'domes': '66004M001', 'tech': 'P', 'desc': 'Mawson',
          'lon': [62, 52, '14.6'], 'lat': [True, 67, 36, '17.2'], 'h': '4060.6'}
    if site_line(s2) != _REF_SITE2:
        bad.append('site writer (negative latitude): %r' % site_line(s2))
    if _REF_SITE2[68:75] != ' 4060.6' or _REF_SITE2[56:67] != '-67 36 17.2' or _REF_SITE2[44:55] != ' 62 52 14.6':
        bad.append('SITE/ID column table')
    if epoch_line(m, 'ALBH', 1) != _REF_EPOCH:
        bad.append('epoch writer: %r' % epoch_line(m, 'ALBH', 1))
    e = {'type': 'VELX', 'code': 'ALBH', 'pt': ' A', 'soln': 2, 'epoch': '10:001:00000', 'unit': 'm/y', 'cons': '2',
         'val': '-2.34133301687257e+06', 'sd': '5.58270e-04'}
    if estimate_line(7, e) != _REF_EST:
        bad.append('estimate writer: %r' % estimate_line(7, e))
    pe = parse_estimate_line(_REF_EST)
    if (pe['index'], pe['type'], pe['code'], pe['soln'], pe['epoch'], pe['unit'], pe['val'], pe['sd']) != \
            ('    7', 'VELX', 'ALBH', '   2', '10:001:00000', 'm/y', '-2.34133301687257e+06', '5.58270e-04'):
        bad.append('estimate parser: %r' % pe)
    Qt = [[' 1.00000000000000e-06', '-2.50000000000000e-07', ' 0.00000000000000e+00', ' 3.0e-07'] for _ in range(4)]
    ml = matrix_lines(Qt, 'L')
    if ml[3] != _REF_MAT or len(ml) != 1 + 1 + 1 + 2 or len(matrix_lines(Qt, 'U')) != 2 + 1 + 1 + 1:
        bad.append('matrix writer: %r' % ml)
    f = header_fields(_REF_HEADER)
    if (f['version'], f['agency'], f['creation_time'], f['count'], f['constraint'], f['content'], f['blanks']) != \
            ('2.02', 'AUS', '20:001:00000', '00012', '2', 'S V', []):
        bad.append('header parser: %r' % f)
    if creation_time_ok('24:001:86400') or creation_time_ok('24:001:999') or not creation_time_ok('24:366:86399'):
        bad.append('creation time judge')
    if dec(' 1.50000000000000E-06') != dec('1.5e-6') or dec('1.5e-6') == dec('1.50000000000001e-06') or dec('x') is not None:
        bad.append('decimal numerals')
    # round trip of a generated model through writer and parser, and the sub-matrix model against numpy.delete
    for gen in ({'fseed': 'selfcheck-1', 'nst': 4, 'nsol': 2, 'vel': True, 'tri': 'U', 'expo': 'E', 'agency': 'VIC',
                 'dagency': 'IGS', 'cstyle': 'blank', 'zero': 'groups'},
                {'fseed': 'selfcheck-2', 'nst': 3, 'nsol': 1, 'vel': False, 'tri': 'L', 'expo': 'e', 'agency': 'AUS',
                 'dagency': 'NSV', 'cstyle': 'none', 'zero': 'dense'},
                {'fseed': 'selfcheck-3', 'nst': 5, 'nsol': 3, 'vel': True, 'tri': 'L', 'expo': 'e', 'agency': 'COD',
                 'dagency': 'IGS', 'cstyle': 'star', 'zero': 'sparse'}):
        mm = make_model(gen)
        p = parse(write_text(mm))
        if p.problems or not p.trailer_ok:
            bad.append('round trip: structural problems %r' % p.problems[:3])
            continue
        name, _ = header_layout(p.header, {'version': '2.02', 'agency': mm['agency'], 'data_agency': mm['dagency'],
                                           'obs_code': 'P', 'constraint': mm['constraint']})
        if name is not None or int(header_fields(p.header)['count']) != mm['npar']:
            bad.append('round trip: header %r' % p.header)
        est = [parse_estimate_line(x) for x in p.blocks['SOLUTION/ESTIMATE']['data']]
        if [(int(a['index']), a['type'], a['code'], int(a['soln']), dec(a['val']), dec(a['sd'])) for a in est] != \
                [(i + 1, b['type'], b['code'], b['soln'], dec(b['val']), dec(b['sd'])) for i, b in enumerate(mm['est'])]:
            bad.append('round trip: estimates')
        tri, kind, el, prob = parse_matrix(p.blocks['SOLUTION/MATRIX_ESTIMATE'])
        full = expected_triangle(mm, list(range(mm['npar'])))
        if prob or tri != mm['tri'] or set(el) != set(full) or any(dec(el[k]) != dec(full[k]) for k in full):
            bad.append('round trip: matrix')
        # sub-matrix model vs numpy.delete on the float matrix
        Qf = np.array([[float(x) for x in row] for row in mm['Q']])
        removed = mm['codes'][1:2]
        keep = keep_indices(mm, removed)
        gone = [i for i in range(mm['npar']) if i not in keep]
        sub = np.delete(np.delete(Qf, gone, 0), gone, 1)
        ex = expected_triangle(mm, keep)
        n = len(keep)
        want = {(a + 1, b + 1) for a in range(n) for b in range(n) if (b <= a if mm['tri'] == 'L' else b >= a)}
        if set(ex) != want or any(float(ex[(a, b)]) != sub[a - 1, b - 1] for a, b in ex):
            bad.append('sub-matrix model vs numpy.delete')
        if np.min(np.linalg.eigvalsh(Qf)) <= 0:
            bad.append('generated covariance not positive definite')
    z = ['     1     1  0.00000000000000e+00', '     2     1  0.00000000000000E+00  0.00000000000000E+00',
         '     2     1  0.00000000000000e+00  1.00000000000000e-09']
    if [zero_line_kind(x) for x in z] != ['canonical', 'other', None] or not all(is_matrix_data_line(x) for x in z):
        bad.append('zero line classifier')
    return bad
