#!/bin/sh
# Offline setup: third-party helpers for the harness go into the git-ignored /verif/.deps
# (mpmath: oracle self-validation; icontract: contract decorators on repo classes).
set -e
cd "$(dirname "$0")"
if [ ! -f .deps/mpmath/__init__.py ] || [ ! -f .deps/icontract/__init__.py ]; then
  PIP_NO_INDEX=1 /venv/bin/python -m pip install --quiet --no-index --find-links /opt/veriftools/wheels \
      --target .deps mpmath icontract >/dev/null 2>&1 || \
  PIP_NO_INDEX=1 /venv/bin/python -m pip install --no-index --find-links /opt/veriftools/wheels \
      --target .deps mpmath icontract
fi
mkdir -p evidence replays
echo "setup ok"
