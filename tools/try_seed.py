#!/venv/bin/python
"""Run checks against a seeded change (development tooling).

    tools/try_seed.py <patch.diff> C05 [C04 ...] [--tier quick] [--seeds 0,1] [--demo demo.py] [--tests]

Applies the patch to /repo's working tree (git apply), optionally runs the repository's own tests and the demonstration
program, runs the named checks with evidence/replays redirected to a scratch directory (so that committed evidence is not
overwritten by a run against a changed tree), and ALWAYS undoes the patch (git checkout -- .) before exiting.
"""
import argparse
import json
import os
import shutil
import subprocess
import sys
import tempfile

ROOT = os.path.dirname(os.path.dirname(os.path.abspath(__file__)))
REPO = '/repo'


def sh(cmd, **kw):
    return subprocess.run(cmd, capture_output=True, text=True, **kw)


def main():
    ap = argparse.ArgumentParser()
    ap.add_argument('patch')
    ap.add_argument('props', nargs='+')
    ap.add_argument('--tier', default='quick')
    ap.add_argument('--seeds', default='0')
    ap.add_argument('--demo')
    ap.add_argument('--tests', action='store_true')
    ap.add_argument('--inplace', action='store_true', help='apply to /repo itself (git apply, undone afterwards)')
    a = ap.parse_args()
    tmp = tempfile.mkdtemp(prefix='seedrun-', dir=os.environ.get('VERIF_SCRATCH', '/var/tmp'))
    global REPO
    if not a.inplace:
        # default: a scratch copy of /repo's working tree (background sweeps may be using /repo itself)
        copy = os.path.join(tmp, 'repo')
        # the committed tree only (git archive): no .git directory to copy, nothing another process can change under it
        os.makedirs(copy)
        ar = subprocess.run('git -C /repo archive HEAD | tar -x -C %s' % copy, shell=True)
        if ar.returncode != 0:
            print('could not export /repo HEAD')
            shutil.rmtree(tmp, ignore_errors=True)
            return 2
        REPO = copy
    if a.inplace:
        st = sh(['git', '-C', REPO, 'status', '--porcelain'])
        if st.stdout.strip():
            print('refusing: working tree is not clean:\n' + st.stdout)
            return 2
    r = sh(['git', 'apply', os.path.abspath(a.patch)], cwd=REPO)
    if r.returncode != 0:
        print('patch does not apply:', r.stderr)
        shutil.rmtree(tmp, ignore_errors=True)
        return 2
    out = {'patch': a.patch, 'checks': {}}
    try:
        if a.tests:
            t = sh(['/venv/bin/python', '-m', 'pytest', '-q', '-p', 'no:cacheprovider', '--timeout=300', 'geodepy/tests', 'api'], cwd=REPO)
            out['repo_tests'] = t.stdout.strip().splitlines()[-1:] if t.stdout.strip() else [t.stderr[-200:]]
        if a.demo:
            d = sh(['/venv/bin/python', os.path.abspath(a.demo)], cwd=REPO, env=dict(os.environ, PYTHONPATH=REPO, SEED_WORKTREE=REPO))
            out['demo_with_change'] = {'rc': d.returncode, 'tail': (d.stdout + d.stderr).strip().splitlines()[-2:]}
        for pid in a.props:
            for seed in a.seeds.split(','):
                env = dict(os.environ, VERIF_SEED=seed, VERIF_REPO_ROOT=REPO, VERIF_EVIDENCE_DIR=os.path.join(tmp, 'ev'), VERIF_REPLAY_DIR=os.path.join(tmp, 'rp'))
                c = sh([os.path.join(ROOT, 'check'), pid, '--tier', a.tier], env=env)
                mechs = [l.strip().split()[0][len('mechanism='):] for l in c.stdout.splitlines() if l.strip().startswith('mechanism=')]
                out['checks']['%s/seed%s' % (pid, seed)] = {'rc': c.returncode, 'mechanisms': mechs[:8]}
    finally:
        if a.inplace:
            sh(['git', '-C', REPO, 'checkout', '--', '.'])
        shutil.rmtree(tmp, ignore_errors=True)
    if a.demo:
        d = sh(['/venv/bin/python', os.path.abspath(a.demo)], cwd=REPO, env=dict(os.environ, PYTHONPATH=REPO, SEED_WORKTREE=REPO))
        out['demo_without_change'] = {'rc': d.returncode, 'tail': (d.stdout + d.stderr).strip().splitlines()[-2:]}
    out['caught'] = any(v['rc'] == 1 for v in out['checks'].values())
    print(json.dumps(out, indent=1))
    if a.inplace:
        st = sh(['git', '-C', REPO, 'status', '--porcelain'])
        if st.stdout.strip():
            print('WARNING: /repo not clean after undo:\n' + st.stdout)
    return 0


if __name__ == '__main__':
    sys.exit(main())
