#!/venv/bin/python
"""Regenerates MANIFEST.json from the property modules' own metadata (keeps the manifest valid and current)."""
import importlib
import json
import os
import sys

ROOT = os.path.dirname(os.path.dirname(os.path.abspath(__file__)))
sys.path.insert(0, ROOT)
sys.path.insert(0, os.path.join(ROOT, '.deps'))
props = [json.loads(l) for l in open(os.path.join(ROOT, 'properties.jsonl'))]
baseline = json.load(open('/root/.vp/BASELINE.json'))['cmd'] if os.path.exists('/root/.vp/BASELINE.json') else \
    'cd /repo && /venv/bin/python -m pytest -ra -q -p no:cacheprovider --timeout=900 --continue-on-collection-errors --junitxml=<file>'
checks, na = [], []
PENDING = {}
if os.path.exists(os.path.join(ROOT, 'tools', 'not_applicable.json')):
    PENDING = json.load(open(os.path.join(ROOT, 'tools', 'not_applicable.json')))
for p in props:
    pid = p['id']
    path = os.path.join(ROOT, 'vmon', 'props', pid.lower() + '.py')
    if pid in PENDING or not os.path.exists(path):
        na.append({'property_id': pid, 'reason': PENDING.get(pid, 'check not built yet (work in progress; see DESIGN.md section 4 for the planned monitor)')})
        continue
    m = importlib.import_module('vmon.props.' + pid.lower())
    checks.append({
        'property_id': pid,
        'quick_cmd': './check %s --tier quick' % pid,
        'thorough_cmd': './check %s --tier thorough' % pid,
        'evidence_file': '/verif/evidence/%s.json' % pid,
        'replay_cmd_template': './check %s --replay {path}' % pid,
        'engine': 'vmon',
        'level_claimed': {'category': m.LEVEL,
                          'text': getattr(m, 'LEVEL_TEXT', None) or (
                              'Runtime monitoring (%s): the real functions of the working tree are executed on generated, boundary '
                              'and hostile workloads (incl. sequences that repeat a call with one configuration element changed, and the '
                              'same call delivered in other ways: int / numpy / float-subclass numbers, other array layouts and dtypes, '
                              'keywords and left-out defaults, other containers, shards in other time zones / hash seeds / decimal contexts / '
                              'working directories, a twin call injected at a statement boundary inside a share of the judged calls, results edited in place by the caller afterwards, calls the library refuses, inputs some orders of magnitude above and below the usual) and '
                              'every observed execution is judged by a monitor against an independent executable oracle. The verdict '
                              'is "held on the executions observed" (counts, class buckets, samples and max error/tolerance are in '
                              'the evidence), nothing more; inconclusive (exit 2) when a deciding monitor saw nothing. Workload and '
                              'oracle: %s' % (m.TITLE, m.RULE[:520])),
                          'design_ref': 'DESIGN.md section 4 (%s)' % pid},
        'level_note': getattr(m, 'LEVEL_NOTE', '; '.join(m.ASSUMPTIONS)),
        'technique': getattr(m, 'TECHNIQUE', 'runtime monitoring: post-condition monitors with an independent reference oracle over generated workloads'),
    })
man = {
    'version': 1,
    'setup_cmd': './setup.sh',
    'hooks': {
        'guard': 'GEODEPY_VERIF',
        'enable': 'harness-side interposition only (wrappers, write barrier, I/O and clock substitution installed by vmon '
                  'on the live modules when GEODEPY_VERIF=1 is set by ./check); the repository contains no hook code',
        'baseline_off_cmd': baseline,
        'source_commits': [],
        'add_only': True,
    },
    'engines': [{'name': 'vmon', 'path': '/verif/vmon', 'serves_properties': [c['property_id'] for c in checks],
                 'kind_free_text': 'runtime monitors + independent reference oracles + sharded workload runner (fresh '
                                   'interpreter per shard), three-valued verdicts, replay files'}],
    'checks': checks,
    'not_applicable': na,
    'notes': 'Exit codes: 0 held, 1 violation (VIOLATION line with replay file), 2 inconclusive (never on the unchanged '
             'tree). VERIF_SEED / VERIF_TIER honoured; VERIF_REPO_ROOT selects another tree (default /repo). Known '
             'findings: /verif/known_findings.txt.',
}
json.dump(man, open(os.path.join(ROOT, 'MANIFEST.json'), 'w'), indent=1)
print('claimed', [c['property_id'] for c in checks]); print('not_applicable', [n['property_id'] for n in na])
