#!/bin/sh
# tools/sweep.sh <tier> <seeds...>   -- runs every claimed check for every seed, prints one line per run (development tooling)
tier="$1"; shift
here="$(cd "$(dirname "$0")/.." && pwd)"
cd "$here"
./setup.sh >/dev/null
for seed in "$@"; do
  for p in C01 C02 C03 C04 C05 C06 C07 C08 C09 C10 C11 C12 C13 C14 C15 C16 C17 C18 C19 C20; do
    start=$(date +%s)
    out=$(VERIF_SEED=$seed VERIF_EVIDENCE_DIR="$here/.sweep-evidence" VERIF_REPLAY_DIR="$here/.sweep-replays/seed$seed" ./check $p --tier $tier 2>&1)
    rc=$?
    echo "$p tier=$tier seed=$seed rc=$rc $(( $(date +%s) - start ))s $(echo "$out" | egrep 'VIOLATION|INCONCLUSIVE|mechanism=' | head -4 | tr '\n' ' ' | cut -c1-400)"
  done
done
