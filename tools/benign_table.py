#!/venv/bin/python
"""Prints the markdown table of the behaviour-preserving changes (from benign/*/meta.json)."""
import glob
import json
import os

ROOT = os.path.dirname(os.path.dirname(os.path.abspath(__file__)))
print('| id | property | kind | change | checks run (quick) | outcome |')
print('|---|---|---|---|---|---|')
for mp in sorted(glob.glob(os.path.join(ROOT, 'benign', '*', 'meta.json'))):
    m = json.load(open(mp))
    props = sorted({c.split('/')[0] for c in m.get('checks_run', [])})
    out = 'silent' if m.get('silent') else 'ALARM'
    if m.get('before_correction'):
        out += ' (false alarm before the machinery was corrected: %s)' % ', '.join(
            sorted({x for v in m['before_correction']['alarms'].values() for x in (v['mechanisms'] or ['exit %d' % v['rc']])})[:3])
    print('| %s | %s | %s | %s | %s | %s |' % (m['id'], m['property'], m.get('kind', ''), m.get('what', ''), ' '.join(props), out))
