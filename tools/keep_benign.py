#!/venv/bin/python
"""Confirm an independently written BEHAVIOUR-PRESERVING change and file it under /verif/benign/<id>/ (development tooling).

    tools/keep_benign.py <id> <property> <worktree> <change.diff> <demo.py> --kind "<a-f: what kind of change>" --what "<text>"

The counterpart of keep_seed.py for the false-alarm side: the change keeps the property true, so every check must stay silent.
1. confirms in the scratch worktree: repo tests pass with the change; the demonstration (the author's own evidence that the
   property still holds) passes with the change and without it;
2. runs the quick checks of the property and of every property anchored in a file the change touches (plus C09, which any cache
   or shared object concerns), seeds 0 and 1, against a scratch copy of /repo with the change applied;
3. writes benign/<id>/patch.diff, demo.py, meta.json.  An alarm here is either a false alarm of the machinery (to be corrected
   there) or a change that is not behaviour-preserving after all (to be shown with a witness and dropped or moved to seeded/).
"""
import argparse
import json
import os
import re
import shutil
import subprocess
import sys

ROOT = os.path.dirname(os.path.dirname(os.path.abspath(__file__)))
BY_FILE = {
    'geodepy/angles.py': ['C08', 'C12', 'C04', 'C15', 'C20', 'C01'],
    'geodepy/convert.py': ['C01', 'C02', 'C03', 'C10', 'C13', 'C14', 'C15', 'C08'],
    'geodepy/geodesy.py': ['C04', 'C05', 'C14', 'C20'],
    'geodepy/transform.py': ['C06', 'C07', 'C13'],
    'geodepy/constants.py': ['C06', 'C07', 'C11', 'C01', 'C03', 'C13'],
    'geodepy/statistics.py': ['C16', 'C13'],
    'geodepy/survey.py': ['C19', 'C14'],
    'geodepy/ntv2reader.py': ['C17'],
    'geodepy/gnss.py': ['C18'],
    'geodepy/coord.py': ['C15', 'C01', 'C03'],
    'api/app.py': ['C20'],
    'Standalone/mga2020_to_geographic.py': ['C02'],
}


def main():
    ap = argparse.ArgumentParser()
    ap.add_argument('id')
    ap.add_argument('prop')
    ap.add_argument('worktree')
    ap.add_argument('diff')
    ap.add_argument('demo')
    ap.add_argument('--kind', required=True)
    ap.add_argument('--what', default='')
    ap.add_argument('--seeds', default='0,1')
    ap.add_argument('--related', default=os.environ.get('KB_RELATED'), help='comma list: run only these related properties (default: by touched file, plus C09)')
    a = ap.parse_args()
    wt = a.worktree
    run = lambda cmd, **kw: subprocess.run(cmd, capture_output=True, text=True, **kw)
    if run(['git', '-C', wt, 'status', '--porcelain']).stdout.strip():
        print('worktree not clean')
        return 2
    env = dict(os.environ, PYTHONPATH=wt)
    conf = {}
    if run(['git', '-C', wt, 'apply', os.path.abspath(a.diff)]).returncode != 0:
        print('APPLY-FAILED')
        return 2
    try:
        t = run(['/venv/bin/python', '-m', 'pytest', '-q', '-p', 'no:cacheprovider', '--timeout=300', 'geodepy/tests', 'api'], cwd=wt, env=env)
        conf['repo_tests_with_change'] = (t.stdout.strip().splitlines() or ['?'])[-1]
        d = run(['/venv/bin/python', os.path.abspath(a.demo)], cwd=wt, env=env, timeout=1800)
        conf['demo_with_change'] = {'rc': d.returncode, 'tail': (d.stdout + d.stderr).strip().splitlines()[-2:]}
    finally:
        run(['git', '-C', wt, 'checkout', '--', '.'])
        run(['git', '-C', wt, 'clean', '-fdq'])
    d = run(['/venv/bin/python', os.path.abspath(a.demo)], cwd=wt, env=env, timeout=1800)
    conf['demo_without_change'] = {'rc': d.returncode, 'tail': (d.stdout + d.stderr).strip().splitlines()[-2:]}
    ok = ('passed' in conf['repo_tests_with_change'] and 'failed' not in conf['repo_tests_with_change']
          and conf['demo_with_change']['rc'] == 0 and conf['demo_without_change']['rc'] == 0)
    files = re.findall(r'^diff --git a/(\S+)', open(a.diff).read(), flags=re.M)
    props = [a.prop]
    for f in files:
        for p in BY_FILE.get(f, []):
            if p not in props:
                props.append(p)
    if 'C09' not in props:
        props.append('C09')
    if a.related is not None:
        props = [a.prop] + [p for p in a.related.split(',') if p and p != a.prop]
    # the property's own check on every seed, the related ones on the first seed
    res = {'checks': {}}
    for plist, seeds in (([a.prop], a.seeds), (props[1:], a.seeds.split(',')[0])):
        r = run([os.path.join(ROOT, 'tools', 'try_seed.py'), a.diff] + plist + ['--seeds', seeds])
        try:
            res['checks'].update(json.loads(r.stdout).get('checks', {}))
        except ValueError:
            res['error'] = (r.stdout + r.stderr)[-500:]
    alarms = {k: v for k, v in res.get('checks', {}).items() if v.get('rc') != 0}
    d = os.path.join(ROOT, 'benign', a.id)
    os.makedirs(d, exist_ok=True)
    shutil.copy(a.diff, os.path.join(d, 'patch.diff'))
    shutil.copy(a.demo, os.path.join(d, 'demo.py'))
    # helper modules the author's demonstrations share (judges, reference implementations, file writers)
    helpers = []
    for f in sorted(os.listdir(os.path.dirname(os.path.abspath(a.demo)))):
        if f.endswith('.py') and not re.match(r'(demo\d|change)', f) and os.path.getsize(os.path.join(os.path.dirname(os.path.abspath(a.demo)), f)) < 60000:
            shutil.copy(os.path.join(os.path.dirname(os.path.abspath(a.demo)), f), os.path.join(d, f))
            helpers.append(f)
    head = run(['git', '-C', ROOT, 'log', '--format=%h', '-n1']).stdout.strip()
    meta = {'id': a.id, 'property': a.prop, 'kind': a.kind, 'what': a.what, 'files': files,
            'confirmed_in_scratch_worktree': dict(conf, ok=ok),
            'demo_helpers': helpers, 'checks_run': sorted(res.get('checks', {})), 'alarms': alarms, 'silent': (not alarms and bool(res.get('checks'))),
            'origin': 'written by a fresh sub-agent that saw only the property text and its own scratch worktree',
            'verif_commit': head}
    if 'error' in res:
        meta['error'] = res['error']
    json.dump(meta, open(os.path.join(d, 'meta.json'), 'w'), indent=1)
    print(json.dumps({'ok': ok, 'silent': meta['silent'], 'alarms': alarms, 'conf': conf}, indent=1))
    return 0


if __name__ == '__main__':
    sys.exit(main())
