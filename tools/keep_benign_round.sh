#!/bin/sh
# tools/keep_benign_round.sh <prefix e.g. ben2> <cNN> <slug1> <slug2> <slug3>   -- files the behaviour-preserving changes of one
# sub-agent of a false-alarm round (development tooling); "-" skips a change
B="$1"; n="$2"; shift 2
out=/tmp/${B}-out/$n; wt=/tmp/${B}-$n
P=$(echo "$n" | tr c C)
pre=$(echo "$B" | sed "s/ben/b/")
here="$(cd "$(dirname "$0")/.." && pwd)"
cd "$here"
k=0
for slug in "$@"; do
  k=$((k+1))
  [ "$slug" = "-" ] && continue
  kind=$(python3 -c "import json;print(json.load(open('$out/notes.json'))['change$k'].get('kind',''))")
  what=$(python3 -c "import json;print(json.load(open('$out/notes.json'))['change$k'].get('what',''))")
  echo "=== $pre-$n-$slug"
  tools/keep_benign.py "$pre-$n-$slug" "$P" "$wt" "$out/change$k.diff" "$out/demo$k.py" --kind "$kind" --what "$what" > /tmp/keep_b.$$.log 2>&1
  python3 -c "
import json;m=json.load(open('benign/$pre-$n-$slug/meta.json'));print('confirmed',m['confirmed_in_scratch_worktree']['ok'],'silent',m['silent'],'checks',len(m['checks_run']));print({k:v.get('mechanisms',v)[:3] for k,v in m['alarms'].items()})"
  rm -f /tmp/keep_b.$$.log
done
