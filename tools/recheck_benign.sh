#!/bin/sh
# tools/recheck_benign.sh   -- re-runs the quick check of each behaviour-preserving change's own property (seed 0) on a scratch
# copy of /repo with the change applied; every line must say rc=0 (development tooling; regression after the checks changed).
here="$(cd "$(dirname "$0")/.." && pwd)"
cd "$here"
for d in benign/*/; do
  id=$(basename "$d")
  prop=$(python3 -c "import json;print(json.load(open('$d/meta.json'))['property'])")
  if [ $# -gt 0 ]; then case " $* " in *" $prop "*) ;; *) continue;; esac; fi
  rc=$(./tools/try_seed.py "$d/patch.diff" "$prop" --seeds 0 | grep -o '"rc": [0-9]*' | head -1)
  echo "$id $prop $rc"
done
