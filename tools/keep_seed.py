#!/venv/bin/python
"""Confirm an independently seeded change and file it under /verif/seeded/<id>/ (development tooling).

    tools/keep_seed.py <id> <property> <worktree> <change.diff> <demo.py> --needs "<what it needs to manifest>" [--also C07,C09]

1. confirms in the scratch worktree: repo tests pass with the change, the demonstration fails with it and passes without;
2. runs the property's quick check (and any --also checks) against a scratch copy of /repo with the change applied,
   seeds 0 and 1, and the thorough tier if the quick tier misses it;
3. writes seeded/<id>/patch.diff, demo.py and meta.json (property, what it needs, what was run, what caught it).
The change is never applied to /repo itself here and never committed there.
"""
import argparse
import json
import os
import shutil
import subprocess
import sys

ROOT = os.path.dirname(os.path.dirname(os.path.abspath(__file__)))


def main():
    ap = argparse.ArgumentParser()
    ap.add_argument('id')
    ap.add_argument('prop')
    ap.add_argument('worktree')
    ap.add_argument('diff')
    ap.add_argument('demo')
    ap.add_argument('--needs', required=True)
    ap.add_argument('--what', default='')
    ap.add_argument('--also', default='')
    ap.add_argument('--no-thorough', action='store_true')
    a = ap.parse_args()
    c = subprocess.run([os.path.join(ROOT, 'tools', 'confirm_seed.sh'), a.worktree, a.diff, a.demo], capture_output=True, text=True)
    conf = c.stdout.strip().splitlines()
    print('\n'.join(conf))
    ok = (len(conf) >= 3 and 'passed' in conf[0] and 'failed' not in conf[0] and 'rc=0' not in conf[1] and 'rc=0' in conf[2])
    props = [a.prop] + [p for p in a.also.split(',') if p]
    r = subprocess.run([os.path.join(ROOT, 'tools', 'try_seed.py'), a.diff] + props + ['--seeds', '0,1'], capture_output=True, text=True)
    try:
        res = json.loads(r.stdout)
    except ValueError:
        res = {'error': (r.stdout + r.stderr)[-500:], 'checks': {}, 'caught': False}
    thorough = None
    if not res.get('caught') and not a.no_thorough:
        r2 = subprocess.run([os.path.join(ROOT, 'tools', 'try_seed.py'), a.diff, a.prop, '--tier', 'thorough'], capture_output=True, text=True)
        try:
            thorough = json.loads(r2.stdout)
        except ValueError:
            thorough = {'error': (r2.stdout + r2.stderr)[-500:]}
    d = os.path.join(ROOT, 'seeded', a.id)
    os.makedirs(d, exist_ok=True)
    shutil.copy(a.diff, os.path.join(d, 'patch.diff'))
    shutil.copy(a.demo, os.path.join(d, 'demo.py'))
    # helper modules the demonstration imports from its own directory travel with it
    import ast
    src_dir = os.path.dirname(os.path.abspath(a.demo))
    try:
        tree = ast.parse(open(a.demo).read())
        mods = set()
        for n in ast.walk(tree):
            if isinstance(n, ast.Import):
                mods |= {x.name.split('.')[0] for x in n.names}
            elif isinstance(n, ast.ImportFrom) and n.level == 0 and n.module:
                mods.add(n.module.split('.')[0])
        for m in sorted(mods):
            hp = os.path.join(src_dir, m + '.py')
            if os.path.isfile(hp):
                shutil.copy(hp, os.path.join(d, m + '.py'))
    except (SyntaxError, OSError):
        pass
    prev = None
    mp = os.path.join(d, 'meta.json')
    if os.path.exists(mp):
        try:
            old = json.load(open(mp))
            prev = old.get('before_strengthening')
            if prev is None and not (old.get('caught_by_quick') or old.get('caught_by_thorough')):
                prev = {'verif_commit': old.get('verif_commit'), 'checks_quick': old.get('checks_quick'),
                        'caught_by_quick': old.get('caught_by_quick'), 'caught_by_thorough': old.get('caught_by_thorough')}
        except ValueError:
            pass
    head = subprocess.run(['git', '-C', ROOT, 'log', '--format=%h', '-n1'], capture_output=True, text=True).stdout.strip()
    meta = {
        'id': a.id, 'property': a.prop, 'what': a.what, 'needs_to_manifest': a.needs,
        'confirmed_in_scratch_worktree': {'ok': ok, 'lines': conf,
                                          'commands': ['git apply patch.diff', 'pytest geodepy/tests api', 'python demo.py (expect failure)',
                                                       'git checkout -- .', 'python demo.py (expect success)']},
        'checks_quick': res.get('checks', {}), 'caught_by_quick': bool(res.get('caught')),
        'checks_thorough': None if thorough is None else thorough.get('checks', thorough),
        'caught_by_thorough': None if thorough is None else bool(thorough.get('caught')),
        'origin': 'written by a fresh sub-agent that saw only the property text and its own scratch worktree',
        'verif_commit': head,
    }
    if prev is not None:
        meta['before_strengthening'] = prev
    json.dump(meta, open(os.path.join(d, 'meta.json'), 'w'), indent=1)
    print(json.dumps({k: meta[k] for k in ('caught_by_quick', 'caught_by_thorough', 'checks_quick')}, indent=1))
    return 0


if __name__ == '__main__':
    sys.exit(main())
