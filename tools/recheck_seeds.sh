#!/bin/sh
# tools/recheck_seeds.sh [C12 C08 ...]   -- re-runs the quick check of each kept seeded change's own property (seeds 0,1) on a
# scratch copy of /repo with the change applied and prints one line per change (development tooling; regression after the
# checks were changed).  With no arguments: every seeded change.
here="$(cd "$(dirname "$0")/.." && pwd)"
cd "$here"
for d in seeded/*/; do
  id=$(basename "$d")
  prop=$(python3 -c "import json;print(json.load(open('$d/meta.json'))['property'])")
  if [ $# -gt 0 ]; then case " $* " in *" $prop "*) ;; *) continue;; esac; fi
  n=$(./tools/try_seed.py "$d/patch.diff" "$prop" --seeds ${RECHECK_SEEDS:-0,1} | grep -c '"rc": 1')
  echo "$id $prop caught_runs=$n"
done
