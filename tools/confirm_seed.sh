#!/bin/sh
# tools/confirm_seed.sh <worktree> <change.diff> <demo.py>
# Confirms a seeded change in its scratch worktree: applies, runs the repository's own tests (must pass), runs the
# demonstration (must fail), undoes the change, runs the demonstration again (must pass).
wt="$1"; diff="$2"; demo="$3"
cd "$wt" || exit 2
[ -z "$(git status --porcelain)" ] || { echo "worktree not clean"; exit 2; }
git apply "$diff" || { echo "APPLY-FAILED"; exit 2; }
t=$(PYTHONPATH="$wt" /venv/bin/python -m pytest -q -p no:cacheprovider --timeout=300 geodepy/tests api 2>&1 | tail -1)
PYTHONPATH="$wt" /venv/bin/python "$demo" >/tmp/confirm_demo_with.$$ 2>&1; rc_with=$?
git checkout -- . ; git clean -fdq
PYTHONPATH="$wt" /venv/bin/python "$demo" >/tmp/confirm_demo_without.$$ 2>&1; rc_without=$?
echo "repo-tests-with-change: $t"
echo "demo-with-change: rc=$rc_with $(tail -1 /tmp/confirm_demo_with.$$)"
echo "demo-without-change: rc=$rc_without $(tail -1 /tmp/confirm_demo_without.$$)"
rm -f /tmp/confirm_demo_with.$$ /tmp/confirm_demo_without.$$
