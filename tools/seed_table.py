#!/venv/bin/python
"""Prints the markdown catch matrix of the independently seeded changes (from seeded/*/meta.json)."""
import glob
import json
import os

ROOT = os.path.dirname(os.path.dirname(os.path.abspath(__file__)))
rows = []
for mp in sorted(glob.glob(os.path.join(ROOT, 'seeded', '*', 'meta.json'))):
    m = json.load(open(mp))
    mechs = []
    for k, v in (m.get('checks_quick') or {}).items():
        if v.get('rc') == 1:
            mechs.append('%s: %s' % (k.split('/')[0], ', '.join(v['mechanisms'][:2])))
    mechs = sorted(set(mechs))
    before = m.get('before_strengthening')
    status = 'quick' if m.get('caught_by_quick') else ('thorough' if m.get('caught_by_thorough') else 'MISSED')
    if before is not None:
        status += ' (missed before the workload was strengthened)'
    rows.append('| %s | %s | %s | %s | %s |' % (m['id'], m['property'], m.get('what', ''), m.get('needs_to_manifest', ''),
                                               status + ('<br>' + '; '.join(mechs[:3]) if mechs else '')))
print('| id | property | change | needs, to manifest | caught by |')
print('|---|---|---|---|---|')
print('\n'.join(rows))
