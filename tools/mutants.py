"""Seeded breaks used by tools/selftest.py (DESIGN.md section 6, lists 'M').  Each is a single textual substitution
(or a list of `edits`) applied to a scratch copy of the repository."""

MUTANTS = [
    # ---- C01 / C02 / C10: Transverse Mercator ------------------------------------------------------------------
    dict(id='tm-alpha-digit', props=['C01'], file='geodepy/convert.py', old='+ 101606400))', new='+ 101606500))',
         note='one digit of an alpha coefficient (n^1 term of a2: 5 mm)'),
    dict(id='tm-rectradius-grs80', props=['C01', 'C02'], file='geodepy/convert.py',
         old='return (ellipsoid.semimaj / (1 + nval)', new='return (grs80.semimaj / (1 + nval)',
         note='rectifying radius from the default ellipsoid'),
    dict(id='tm-north-falsenorth', props=['C01'], file='geodepy/convert.py', old='        falsenorth = 0\n',
         new='        falsenorth = 0.001\n', note='northern false northing 1 mm'),
    dict(id='tm-zone-round', props=['C01'], file='geodepy/convert.py',
         old='zone = int((float(lon) - (prj.initialcm - (1.5 * prj.zonewidth))) / prj.zonewidth)',
         new='zone = round((float(lon) - (prj.initialcm - (1.5 * prj.zonewidth))) / prj.zonewidth)',
         note='auto zone int -> round'),
    dict(id='tm-isg-cm', props=['C01'], file='geodepy/convert.py',
         old="""        cm = float((amgzone - 1) * prj.zonewidth * 3 + prj.initialcm + (subzone - 2) * prj.zonewidth)
    else:
        cm = float(zone * prj.zonewidth + prj.initialcm - prj.zonewidth)""",
         new="""        cm = float((amgzone - 1) * prj.zonewidth * 3 + prj.initialcm + (subzone - 1) * prj.zonewidth)
    else:
        cm = float(zone * prj.zonewidth + prj.initialcm - prj.zonewidth)""",
         note='ISG central meridian arithmetic in the forward conversion'),
    dict(id='tm-drop-a8', props=['C01'], file='geodepy/convert.py',
         old='    return a2, a4, a6, a8, a10, a12, a14, a16', new='    return a2, a4, a6, 0.0, a10, a12, a14, a16',
         note='a8 term dropped: 0.6 mm at 30 deg from the CM, 0.02 mm within a zone (a16/a10 are below float noise)'),
    dict(id='tm-beta-digit', props=['C02'], file='geodepy/convert.py', old='            - 135475200))\n          / 270950400.)',
         new='            - 135475300))\n          / 270950400.)', note='one digit of a beta coefficient (n^1 term of b2: 4 mm)'),
    dict(id='tm-newton-cap', props=['C02'], file='geodepy/convert.py', old='while diff > 1e-15 and itercount < 100:',
         new='while diff > 1e-15 and itercount < 1:', note='Newton cap 100 -> 1 (two steps already converge to 1e-10 deg)'),
    dict(id='tm-hemisign', props=['C10'], file='geodepy/convert.py',
         old="""    return (hemisign * round(lat, 11),
            round(long, 11), round(psf, 8),
            hemisign * grid_conv)""",
         new="""    return (hemisign * round(lat, 11),
            round(long, 11), round(psf, 8),
            grid_conv)""", note='convergence sign not flipped for the northern hemisphere'),
    dict(id='tm-standalone-newton', props=['C02'], file='Standalone/mga2gda.py', old='    lat = degrees(atan(t4))',
         new='    lat = degrees(atan(t2))', note='stand-alone converter: one Newton step only'),
    dict(id='psf-quadrant', props=['C10'], file='geodepy/convert.py', old='    elif cm < lon and lat > 0:',
         new='    elif cm < lon and lat >= 0 and False:', note='quadrant sign rule'),
    dict(id='psf-cosh-sinh', props=['C10'], file='geodepy/convert.py',
         old='        q += 2*r * a[r-1] * sin(2*r * xi1) * sinh(2*r * eta1)',
         new='        q += 2*r * a[r-1] * sin(2*r * xi1) * cosh(2*r * eta1)', note='cosh <-> sinh in q'),
    dict(id='psf-defect-inverse-only', props=['C10'], file='geodepy/convert.py',
         old="""    psf, grid_conv = psfandgridconv(xi1, eta1, lat, long, cm, conf_lat,
                                    ellipsoid, prj)""",
         new="""    psf, grid_conv = psfandgridconv(xi1, eta1, lat, long, cm, conf_lat)""",
         note='baseline defect restored for the inverse direction only'),
    # ---- C08 / C12: angles ---------------------------------------------------------------------------------------
    dict(id='ang-hpangle-17', props=['C08'], file='geodepy/angles.py',
         old="    places = 13 if abs(hp) < 512 else 12\n    hp_deg_str", new="    places = 17\n    hp_deg_str",
         note='(a) validation on a 17-decimal rendering'),
    dict(id='ang-no-512', props=['C08'], file='geodepy/angles.py',
         old="    places = 13 if abs(hp) < 512 else 12\n    hp_deg_str", new="    places = 13\n    hp_deg_str",
         note='(e) 13 decimals also beyond 512 deg'),
    dict(id='ang-dec2hp-nocarry', props=['C08'], file='geodepy/angles.py',
         old="""    if minute >= 60:
        minute = 0
        degree += 1
    """, new="    ", note='(d) minutes not carried into degrees'),
    dict(id='ang-dms-hp-float', props=['C08'], file='geodepy/angles.py',
         old="""        :rtype: float
        \"\"\"
        # via dec2hp, which carries seconds of 59.999... into the minutes
        return dec2hp(self.dec())

    def hpa(self):
        \"\"\"
        Convert to HP Notation (class)
        :return: HP Notation (DDD.MMSSSS)
        :rtype: HPAngle
        \"\"\"
        return HPAngle(self.hp())

    def gon(self):
        \"\"\"
        Convert to Gradians (float)
        :return: Gradians
        :rtype: float
        \"\"\"
        return dec2gon(self.dec())

    def gona(self):
        \"\"\"
        Convert to Gradians (class)
        :return: Gradians
        :rtype: GONAngle
        \"\"\"
        return GONAngle(self.gon())

    def ddm(self):""",
         new="""        :rtype: float
        \"\"\"
        if self.positive:
            return self.degree + (self.minute / 100) + (self.second / 10000)
        else:
            return -(self.degree + (self.minute / 100) + (self.second / 10000))

    def hpa(self):
        \"\"\"
        Convert to HP Notation (class)
        :return: HP Notation (DDD.MMSSSS)
        :rtype: HPAngle
        \"\"\"
        return HPAngle(self.hp())

    def gon(self):
        \"\"\"
        Convert to Gradians (float)
        :return: Gradians
        :rtype: float
        \"\"\"
        return dec2gon(self.dec())

    def gona(self):
        \"\"\"
        Convert to Gradians (class)
        :return: Gradians
        :rtype: GONAngle
        \"\"\"
        return GONAngle(self.gon())

    def ddm(self):""", note='(c) DMSAngle.hp by float addition'),
    dict(id='ang-dec2dms-sign', props=['C08', 'C12'], file='geodepy/angles.py',
         old="""    return (DMSAngle(degree, minute, second, positive=True) if dec >= 0
            else DMSAngle(degree, minute, second, positive=False))


def dec2ddm(dec):""",
         new="""    return (DMSAngle(degree, minute, second) if dec >= 0
            else DMSAngle(-int(degree), minute, second))


def dec2ddm(dec):""", note='sign flag dropped in dec2dms: wrong for -1 < x < 0'),
    dict(id='ang-gon-factor', props=['C08'], file='geodepy/angles.py', old='    return 9/10 * gon', new='    return 10/9 * gon',
         note='10/9 <-> 9/10'),
    dict(id='ang-radd-class', props=['C12'], file='geodepy/angles.py',
         old="""    def __radd__(self, other):
        try:
            return HPAngle(dec2hp(other.dec() + self.dec()))""",
         new="""    def __radd__(self, other):
        try:
            return DECAngle(other.dec() + self.dec())""", note='HPAngle.__radd__ returns DECAngle'),
    dict(id='ang-sub-class', props=['C12'], file='geodepy/angles.py',
         old="""    def __sub__(self, other):
        try:
            return GONAngle(dec2gon(self.dec() - other.dec()))""",
         new="""    def __sub__(self, other):
        try:
            return DECAngle(self.dec() - other.dec())""", note='GONAngle.__sub__ returns DECAngle'),
    dict(id='ang-lt-rawhp', props=['C12'], file='geodepy/angles.py',
         old="""    def __lt__(self, other):
        return self.dec() < other.dec()

    def __gt__(self, other):
        return self.dec() > other.dec()

    def __int__(self):
        return int(self.hp_angle)""",
         new="""    def __lt__(self, other):
        return self.hp_angle < other.hp()

    def __gt__(self, other):
        return self.dec() > other.dec()

    def __int__(self):
        return int(self.hp_angle)""", note='HPAngle.__lt__ compares raw HP values'),
    dict(id='ang-dms-neg-zero', props=['C12'], file='geodepy/angles.py',
         old="""        if self.positive:
            return DMSAngle(-self.degree, -self.minute, -self.second)""",
         new="""        if self.positive:
            return DMSAngle(-self.degree, self.minute, self.second)""",
         note='DMSAngle.__neg__ loses the sign when degree == 0'),
    dict(id='ang-mod-hp', props=['C12'], file='geodepy/angles.py',
         old="""    def __mod__(self, other):
        return dec2dms(self.dec() % other)""",
         new="""    def __mod__(self, other):
        return hp2dms(self.hp() % other)""", note='DMSAngle.__mod__ via HP'),
    dict(id='ang-ddm-round', props=['C12'], file='geodepy/angles.py',
         old="            return DDMAngle(-self.degree, -round(self.minute, n))",
         new="            return DDMAngle(self.degree, round(self.minute, n))", note='DDMAngle.__round__ drops the sign'),
    # ---- C04 / C05: geodesics ------------------------------------------------------------------------------------
    dict(id='vd-bcoef', props=['C04'], file='geodepy/geodesy.py',
         old="""    b = (u_squared / 1024) \\
        * (256 + u_squared * (-128 + u_squared * (74 - 47 * u_squared)))

    # Eq. 94""",
         new="""    b = (u_squared / 1024) \\
        * (256 + u_squared * (-128 + u_squared * (75 - 47 * u_squared)))

    # Eq. 94""", note='vincdir B series 74 -> 75'),
    dict(id='vd-grs80-f', props=['C04'], file='geodepy/geodesy.py',
         old="""    # Eq. 100
    c = (ellipsoid.f/16)*cos(alpha)**2 \\
        * (4 + ellipsoid.f*(4 - 3*cos(alpha)**2))""",
         new="""    # Eq. 100
    c = (grs80.f/16)*cos(alpha)**2 \\
        * (4 + grs80.f*(4 - 3*cos(alpha)**2))""", note='C coefficient from the default ellipsoid'),
    dict(id='vd-looptol', props=['C04'], file='geodepy/geodesy.py', old='        if abs(sigma_change) < 1e-12:',
         new='        if abs(sigma_change) < 1e-6:', note='sigma iteration tolerance 1e-12 -> 1e-6'),
    dict(id='vd-eq101-sign', props=['C04'], file='geodepy/geodesy.py',
         old="* (sigma + c*sin(sigma)*(cos(two_sigma_m) + c*cos(sigma)", new="* (sigma - c*sin(sigma)*(cos(two_sigma_m) + c*cos(sigma)",
         note='sign inside eq. 101'),
    dict(id='vd-revaz', props=['C04'], file='geodepy/geodesy.py',
         old="    azimuth2to1 = degrees(atan2(sin(alpha), -sin(u1)*sin(sigma)\n                          + cos(u1)*cos(sigma)*cos(azimuth1to2))) + 180\n\n    return round(lat2, 11), round(lon2, 11), round(azimuth2to1, 9)",
         new="    azimuth2to1 = degrees(atan2(sin(alpha), -sin(u1)*sin(sigma)\n                          + cos(u1)*cos(sigma)*cos(azimuth1to2))) + 180\n\n    return round(lat2, 11), round(lon2, 11), round(azimuth2to1, 6)",
         note='reverse azimuth rounded to 6 decimals'),
    dict(id='vi-itercap', props=['C05'], file='geodepy/geodesy.py',
         old="""    cos_two_sigma_m = 0
    for i in range(1000):""", new="""    cos_two_sigma_m = 0
    for i in range(5):""", note='lambda iteration cap 1000 -> 5 (long lines only)'),
    dict(id='vi-atan2-swap', props=['C05'], file='geodepy/geodesy.py',
         old="""    azimuth2to1 = degrees(atan2(cos(u1)*sin(lon),
                                (-sin(u1)*cos(u2)
                                 + cos(u1)*sin(u2)*cos(lon)))) + 180""",
         new="""    azimuth2to1 = degrees(atan2((-sin(u1)*cos(u2)
                                 + cos(u1)*sin(u2)*cos(lon)),
                                cos(u1)*sin(lon))) + 180""", note='atan2 arguments swapped in the reverse azimuth'),
    dict(id='vi-coincide-tol', props=['C05'], file='geodepy/geodesy.py', old='    tolerance = 0.0000000001', new='    tolerance = 0.000001',
         note='coincidence shortcut 1e-10 -> 1e-6 deg (0.1 m lines return 0)'),
    dict(id='vi-no-180', props=['C05'], file='geodepy/geodesy.py',
         old="                                 + cos(u1)*sin(u2)*cos(lon)))) + 180", new="                                 + cos(u1)*sin(u2)*cos(lon))))",
         note='+180 dropped from the reverse azimuth'),
    dict(id='vi-semimin-grs80', props=['C05'], file='geodepy/geodesy.py', old="    ell_dist = ellipsoid.semimin*a * (sigma - delta_sigma)",
         new="    ell_dist = grs80.semimin*a * (sigma - delta_sigma)", note='distance scaled with the default ellipsoid'),
    # ---- C20: HTTP API ---------------------------------------------------------------------------------------------
    dict(id='api-latlon-swap', props=['C20'], file='api/app.py',
         old="""    lat2_dd, lon2_dd, azimuth2to1_dd = vincdir(lat1_dd, lon1_dd,
                                               azimuth1to2_dd, ell_dist)""",
         new="""    lat2_dd, lon2_dd, azimuth2to1_dd = vincdir(lon1_dd, lat1_dd,
                                               azimuth1to2_dd, ell_dist)""", note='lat/lon swapped in /vincdir'),
    dict(id='api-to-ignored', props=['C20'], file='api/app.py',
         old="    angle = dd_to_angle_type[to_angle_type]", new="    angle = dd_to_angle_type[from_angle_type]",
         note='/vincinv output type taken from from_angle_type'),
    dict(id='api-dd-converts', props=['C20'], file='api/app.py',
         old="""dd_to_angle_type = {
    'dd': lambda x: x,""", new="""dd_to_angle_type = {
    'dd': lambda x: round(x, 8),""", note='dd output branch alters the value'),
    dict(id='api-pt-swap', props=['C20'], file='api/app.py',
         old="""    ell_dist, azimuth1to2_dd, azimuth2to1_dd = vincinv(lat1_dd, lon1_dd,
                                                       lat2_dd, lon2_dd)""",
         new="""    ell_dist, azimuth2to1_dd, azimuth1to2_dd = vincinv(lat2_dd, lon2_dd,
                                                       lat1_dd, lon1_dd)""",
         note='/vincinv computes the swapped problem and exchanges the azimuths (differs only in the last digits)'),
    # ---- C14: grid geodesics ----------------------------------------------------------------------------------------
    dict(id='g14-k1', props=['C14'], file='geodepy/geodesy.py', old="          (6 * r_sq_m))", new="          (5 * r_sq_m))",
         note='6 -> 5 in k1 of the line scale factor'),
    dict(id='g14-conv-sign', props=['C14'], file='geodepy/geodesy.py', old="    grid2to1 = az2to1 + pt2[3]",
         new="    grid2to1 = az2to1 - pt2[3]", note='sign of the convergence at P2 in vincinv_utm'),
    dict(id='g14-hemi-lsf', props=['C14'], file='geodepy/geodesy.py',
         old="""    lsf = line_sf(zone1, east1, north1,
                  zone2, east2, north2, hemisphere, ellipsoid)
    grid_dist = ell_dist * lsf""",
         new="""    lsf = line_sf(zone1, east1, north1,
                  zone2, east2, north2, ellipsoid=ellipsoid)
    grid_dist = ell_dist * lsf""", note='hemisphere not forwarded to line_sf in vincinv_utm (northern lines)'),
    dict(id='g14-zone1-reproj', props=['C14'], file='geodepy/geodesy.py',
         old="        stn2_zone1 = geo2grid(stn2_geo[0], stn2_geo[1], zone1, ellipsoid)",
         new="        stn2_zone1 = geo2grid(stn2_geo[0], stn2_geo[1], zone2, ellipsoid)",
         note='cross-zone re-projection of station 2 stays in zone 2'),
    dict(id='g14-direct-hemi', props=['C14'], file='geodepy/geodesy.py',
         old="""    lat2, lon2, psf2, gridconv2 = grid2geo(zone2, east2, north2,
                                           hemisphere, ellipsoid)
    grid2to1 = az2to1 + gridconv2""",
         new="""    lat2, lon2, psf2, gridconv2 = grid2geo(zone2, east2, north2,
                                           ellipsoid=ellipsoid)
    grid2to1 = az2to1 + gridconv2""", note='vincdir_utm: final convergence computed for the southern hemisphere always'),
    dict(id='g14-direct-ell', props=['C14'], file='geodepy/geodesy.py',
         old="""        lat2, lon2, az2to1 = vincdir(lat1, lon1, az1to2,
                                     grid_dist / lsf, ellipsoid)""",
         new="""        lat2, lon2, az2to1 = vincdir(lat1, lon1, az1to2,
                                     grid_dist / lsf)""", note='vincdir_utm: geodesic on the default ellipsoid'),
    # ---- C03: geodetic <-> Cartesian ---------------------------------------------------------------------------------
    dict(id='c03-iterstop', props=['C03'], file='geodepy/convert.py', old="    while abs(itercheck) > 1e-10:",
         new="    while abs(itercheck) > 1e-6:", note='xyz2llh iteration stop 1e-10 -> 1e-6'),
    dict(id='c03-ecc-swap-iter', props=['C03'], file='geodepy/convert.py',
         old="        lat = atan((z + nu * ellipsoid.ecc1sq * sin(lat))/p)", new="        lat = atan((z + nu * ellipsoid.ecc2sq * sin(lat))/p)",
         note='ecc1sq <-> ecc2sq inside the iteration'),
    dict(id='c03-equator-grs80', props=['C03'], file='geodepy/convert.py', old="        nu = ellipsoid.semimaj\n    else:",
         new="        nu = grs80.semimaj\n    else:", note='baseline defect restored: GRS80 radius on the equator'),
    dict(id='c03-height-cancel', props=['C03'], file='geodepy/convert.py',
         old="    ellht = p * cos(lat) + z * sin(lat) - ellipsoid.semimaj**2 / nu", new="    ellht = p/(cos(lat)) - nu",
         note='baseline defect restored: ill-conditioned height'),
    dict(id='c03-semimin', props=['C03'], file='geodepy/convert.py',
         old="    z = ((ellipsoid.semimin**2 / ellipsoid.semimaj**2) * nu + ellht) * sin(lat)",
         new="    z = ((grs80.semimin**2 / grs80.semimaj**2) * nu + ellht) * sin(lat)", note='z from the default ellipsoid axes ratio'),
    # ---- C09: purity ---------------------------------------------------------------------------------------------------
    dict(id='pure-add-inplace', props=['C09', 'C07'], file='geodepy/constants.py',
         old="""            tf_sd = self.tf_sd
            if type(self.tf_sd) == TransformationSD:
                tf_sd = TransformationSD(""",
         new="""            tf_sd = self.tf_sd
            if type(self.tf_sd) == TransformationSD:
                self.tf_sd.sd_rx = (self.tf_sd.sd_rx**2 + (self.tf_sd.sd_d_rx * timediff)**2) ** 0.5
                tf_sd = TransformationSD(""", note='__add__ again writes one propagated sigma into the shared uncertainty object'),
    dict(id='pure-sort-inplace', props=['C09'], file='geodepy/survey.py', old="    vert_list = sorted(vert_list, reverse=True)",
         new="    vert_list.sort(reverse=True)", note='precise_inst_ht sorts the caller list in place'),
    dict(id='pure-alpha-memo', props=['C09', 'C01'], edits=[
        dict(file='geodepy/convert.py', old="def alpha_coeff(ellipsoid):", new="_ALPHA_CACHE = {}\n\n\ndef alpha_coeff(ellipsoid):\n    if 'a' in _ALPHA_CACHE:\n        return _ALPHA_CACHE['a']\n    _ALPHA_CACHE['a'] = _alpha_coeff(ellipsoid)\n    return _ALPHA_CACHE['a']\n\n\ndef _alpha_coeff(ellipsoid):")],
         note='alpha coefficients memoised on a module global without the ellipsoid in the key'),
    dict(id='pure-vcv-inplace', props=['C09'], file='geodepy/statistics.py',
         old="    rot_matrix = rotation_matrix(lat, lon)\n    vcv_local = rot_matrix.transpose() @ vcv_cart @ rot_matrix",
         new="    rot_matrix = rotation_matrix(lat, lon)\n    vcv_cart *= 1.0000001\n    vcv_local = rot_matrix.transpose() @ vcv_cart @ rot_matrix",
         note='vcv_cart2local scales the caller array in place'),
    dict(id='pure-neg-shares-list', props=['C09'], file='geodepy/constants.py',
         old="                              tf_sd=self.tf_sd\n                              )",
         new="                              tf_sd=setattr(self, 'tx', self.tx) or self.tf_sd\n                              )",
         expect='silent', note='__neg__ rewrites an attribute of the shipped constant with the identical value: a write but no change; the check must stay silent'),
    dict(id='pure-ellipsoid-cache', props=['C09'], file='geodepy/geodesy.py',
         old="    return (ellipsoid.semimaj /\n            sqrt(1 - ellipsoid.ecc1sq * (sin(radians(lat)) ** 2)))",
         new="    ellipsoid.last_nu_lat = lat\n    return (ellipsoid.semimaj /\n            sqrt(1 - ellipsoid.ecc1sq * (sin(radians(lat)) ** 2)))",
         note='nu() stores a scratch attribute on the shipped ellipsoid'),
]
