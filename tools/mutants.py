"""Seeded breaks used by tools/selftest.py (DESIGN.md section 6, lists 'M').  Each is a single textual substitution
(or a list of `edits`) applied to a scratch copy of the repository."""

MUTANTS = [
    # ---- round 7 shapes: aliasing, refusals, magnitude, multiplicity ------------------------------------------------
    dict(id='al-add-same-epoch-self', props=['C09', 'C11'], file='geodepy/constants.py',
         old="""        if type(other) == date:
            timediff = (other - self.ref_epoch).days/365.25
""",
         new="""        if type(other) == date:
            if other == self.ref_epoch:
                return self
            timediff = (other - self.ref_epoch).days/365.25
""", note='set + its own epoch hands back the shipped constant itself'),
    dict(id='al-notation-self', props=['C15'], file='geodepy/coord.py',
         old="""            return CoordGeo(self.lat, self.lon, self.ell_ht, self.orth_ht)""",
         new="""            return self""", note='notation() in the same notation returns the source object'),
    dict(id='al-instht-sort-inplace', props=['C09'], file='geodepy/survey.py',
         old="""    if len(vert_list) < 3:
        raise ValueError('ValueError: 3 or more vertical angles required')
    vert_list = sorted(vert_list, reverse=True)""",
         new="""    vert_list.sort(reverse=True)
    if len(vert_list) < 3:
        raise ValueError('ValueError: 3 or more vertical angles required')""",
         note='caller list sorted in place, also on the path that refuses the list'),
    dict(id='al-neg-dec-float-base', props=['C12'], file='geodepy/angles.py',
         old="""    def __neg__(self):
        return DECAngle(-self.dec())""",
         new="""    def __neg__(self):
        r = DECAngle(0.0)
        r.dec_angle = -self.dec()
        return r""", note='negated DECAngle with the right field and a float base of zero'),
    dict(id='mg-add-round-5', props=['C07'], file='geodepy/constants.py',
         old="""                                  round(self.tx + (self.d_tx * timediff), 8),""",
         new="""                                  round(self.tx + (self.d_tx * timediff), 8 if abs(self.tx) < 100 else 5),""",
         note='large translations propagated to 5 decimals only'),
    dict(id='mg-vincdir-short', props=['C04'], file='geodepy/geodesy.py',
         old="""    azimuth1to2 = radians(angular_typecheck(azimuth1to2))
""",
         new="""    if 0 < ell_dist < 1e-3:
        return lat1, lon1, (angular_typecheck(azimuth1to2) + 180) % 360
    azimuth1to2 = radians(angular_typecheck(azimuth1to2))
""", note='sub-millimetre lines answered without the geodesic'),
    # ---- C01 / C02 / C10: Transverse Mercator ------------------------------------------------------------------
    dict(id='tm-alpha-digit', props=['C01'], file='geodepy/convert.py', old='+ 101606400))', new='+ 101606500))',
         note='one digit of an alpha coefficient (n^1 term of a2: 5 mm)'),
    dict(id='tm-rectradius-grs80', props=['C01', 'C02'], file='geodepy/convert.py',
         old='return (ellipsoid.semimaj / (1 + nval)', new='return (grs80.semimaj / (1 + nval)',
         note='rectifying radius from the default ellipsoid'),
    dict(id='tm-north-falsenorth', props=['C01'], file='geodepy/convert.py', old='        falsenorth = 0\n',
         new='        falsenorth = 0.001\n', note='northern false northing 1 mm'),
    dict(id='tm-zone-round', props=['C01'], file='geodepy/convert.py',
         old='zone = int((float(lon) - (prj.initialcm - (1.5 * prj.zonewidth))) / prj.zonewidth)',
         new='zone = round((float(lon) - (prj.initialcm - (1.5 * prj.zonewidth))) / prj.zonewidth)',
         note='auto zone int -> round'),
    dict(id='tm-isg-cm', props=['C01'], file='geodepy/convert.py',
         old="""        cm = float((amgzone - 1) * prj.zonewidth * 3 + prj.initialcm + (subzone - 2) * prj.zonewidth)
    else:
        cm = float(zone * prj.zonewidth + prj.initialcm - prj.zonewidth)""",
         new="""        cm = float((amgzone - 1) * prj.zonewidth * 3 + prj.initialcm + (subzone - 1) * prj.zonewidth)
    else:
        cm = float(zone * prj.zonewidth + prj.initialcm - prj.zonewidth)""",
         note='ISG central meridian arithmetic in the forward conversion'),
    dict(id='tm-drop-a8', props=['C01'], file='geodepy/convert.py',
         old='    return a2, a4, a6, a8, a10, a12, a14, a16', new='    return a2, a4, a6, 0.0, a10, a12, a14, a16',
         note='a8 term dropped: 0.6 mm at 30 deg from the CM, 0.02 mm within a zone (a16/a10 are below float noise)'),
    dict(id='tm-beta-digit', props=['C02'], file='geodepy/convert.py', old='            - 135475200))\n          / 270950400.)',
         new='            - 135475300))\n          / 270950400.)', note='one digit of a beta coefficient (n^1 term of b2: 4 mm)'),
    dict(id='tm-newton-cap', props=['C02'], file='geodepy/convert.py', old='while diff > 1e-15 and itercount < 100:',
         new='while diff > 1e-15 and itercount < 1:', note='Newton cap 100 -> 1 (two steps already converge to 1e-10 deg)'),
    dict(id='tm-hemisign', props=['C10'], file='geodepy/convert.py',
         old="""    return (hemisign * round(lat, 11),
            round(long, 11), round(psf, 8),
            hemisign * grid_conv)""",
         new="""    return (hemisign * round(lat, 11),
            round(long, 11), round(psf, 8),
            grid_conv)""", note='convergence sign not flipped for the northern hemisphere'),
    dict(id='tm-standalone-newton', props=['C02'], file='Standalone/mga2gda.py', old='    lat = degrees(atan(t4))',
         new='    lat = degrees(atan(t2))', note='stand-alone converter: one Newton step only'),
    dict(id='sa-batch-columns', props=['C02'], file='Standalone/mga2gda.py',
         old="        east = float(row[2])\n        north = float(row[3])", new="        east = float(row[3])\n        north = float(row[2])",
         note='stand-alone batch path reads easting and northing from each other\'s column'),
    dict(id='sa-batch-seconds', props=['C02'], file='Standalone/mga2gda.py',
         old="    dms = degrees + (minutes / 100) + (seconds / 10000)", new="    dms = degrees + (minutes / 100) + (round(seconds, 4) / 10000)",
         note='stand-alone batch output: seconds rounded to 4 decimals (1e-4 arc-second = 2.8e-8 deg, above the stated 1e-10 deg)'),
    dict(id='psf-quadrant', props=['C10'], file='geodepy/convert.py', old='    elif sin(long_diff) > 0 and lat > 0:',
         new='    elif sin(long_diff) > 0 and lat > 0 and False:', note='quadrant sign rule'),
    dict(id='psf-cosh-sinh', props=['C10'], file='geodepy/convert.py',
         old='        q += 2*r * a[r-1] * sin(2*r * xi1) * sinh(2*r * eta1)',
         new='        q += 2*r * a[r-1] * sin(2*r * xi1) * cosh(2*r * eta1)', note='cosh <-> sinh in q'),
    dict(id='psf-defect-inverse-only', props=['C10'], file='geodepy/convert.py',
         old="""    psf, grid_conv = psfandgridconv(xi1, eta1, lat, long, cm, conf_lat,
                                    ellipsoid, prj)""",
         new="""    psf, grid_conv = psfandgridconv(xi1, eta1, lat, long, cm, conf_lat)""",
         note='baseline defect restored for the inverse direction only'),
    # ---- C08 / C12: angles ---------------------------------------------------------------------------------------
    dict(id='ang-hpangle-17', props=['C08'], file='geodepy/angles.py',
         old="    places = 13 if abs(hp) < 512 else 12\n    hp_deg_str", new="    places = 17\n    hp_deg_str",
         note='(a) validation on a 17-decimal rendering'),
    dict(id='ang-no-512', props=['C08'], file='geodepy/angles.py',
         old="    places = 13 if abs(hp) < 512 else 12\n    hp_deg_str", new="    places = 13\n    hp_deg_str",
         note='(e) 13 decimals also beyond 512 deg'),
    dict(id='ang-dec2hp-nocarry', props=['C08'], file='geodepy/angles.py',
         old="""    if minute >= 60:
        minute = 0
        degree += 1
    """, new="    ", note='(d) minutes not carried into degrees'),
    dict(id='ang-dms-hp-float', props=['C08'], file='geodepy/angles.py',
         old="""        :rtype: float
        \"\"\"
        # via dec2hp, which carries seconds of 59.999... into the minutes
        return dec2hp(self.dec())

    def hpa(self):
        \"\"\"
        Convert to HP Notation (class)
        :return: HP Notation (DDD.MMSSSS)
        :rtype: HPAngle
        \"\"\"
        return HPAngle(self.hp())

    def gon(self):
        \"\"\"
        Convert to Gradians (float)
        :return: Gradians
        :rtype: float
        \"\"\"
        return dec2gon(self.dec())

    def gona(self):
        \"\"\"
        Convert to Gradians (class)
        :return: Gradians
        :rtype: GONAngle
        \"\"\"
        return GONAngle(self.gon())

    def ddm(self):""",
         new="""        :rtype: float
        \"\"\"
        if self.positive:
            return self.degree + (self.minute / 100) + (self.second / 10000)
        else:
            return -(self.degree + (self.minute / 100) + (self.second / 10000))

    def hpa(self):
        \"\"\"
        Convert to HP Notation (class)
        :return: HP Notation (DDD.MMSSSS)
        :rtype: HPAngle
        \"\"\"
        return HPAngle(self.hp())

    def gon(self):
        \"\"\"
        Convert to Gradians (float)
        :return: Gradians
        :rtype: float
        \"\"\"
        return dec2gon(self.dec())

    def gona(self):
        \"\"\"
        Convert to Gradians (class)
        :return: Gradians
        :rtype: GONAngle
        \"\"\"
        return GONAngle(self.gon())

    def ddm(self):""", note='(c) DMSAngle.hp by float addition'),
    dict(id='ang-dec2dms-sign', props=['C08', 'C12'], file='geodepy/angles.py',
         old="""    return (DMSAngle(degree, minute, second, positive=True) if dec >= 0
            else DMSAngle(degree, minute, second, positive=False))


def dec2ddm(dec):""",
         new="""    return (DMSAngle(degree, minute, second) if dec >= 0
            else DMSAngle(-int(degree), minute, second))


def dec2ddm(dec):""", note='sign flag dropped in dec2dms: wrong for -1 < x < 0'),
    dict(id='ang-gon-factor', props=['C08'], file='geodepy/angles.py', old='    return 9/10 * gon', new='    return 10/9 * gon',
         note='10/9 <-> 9/10'),
    dict(id='ang-radd-class', props=['C12'], file='geodepy/angles.py',
         old="""    def __radd__(self, other):
        try:
            return HPAngle(dec2hp(other.dec() + self.dec()))""",
         new="""    def __radd__(self, other):
        try:
            return DECAngle(other.dec() + self.dec())""", note='HPAngle.__radd__ returns DECAngle'),
    dict(id='ang-sub-class', props=['C12'], file='geodepy/angles.py',
         old="""    def __sub__(self, other):
        try:
            return GONAngle(dec2gon(self.dec() - other.dec()))""",
         new="""    def __sub__(self, other):
        try:
            return DECAngle(self.dec() - other.dec())""", note='GONAngle.__sub__ returns DECAngle'),
    dict(id='ang-lt-rawhp', props=['C12'], file='geodepy/angles.py',
         old="""    def __lt__(self, other):
        return self.dec() < other.dec()

    def __gt__(self, other):
        return self.dec() > other.dec()

    def __int__(self):
        return int(self.hp_angle)""",
         new="""    def __lt__(self, other):
        return self.hp_angle < other.hp()

    def __gt__(self, other):
        return self.dec() > other.dec()

    def __int__(self):
        return int(self.hp_angle)""", note='HPAngle.__lt__ compares raw HP values'),
    dict(id='ang-dms-neg-zero', props=['C12'], file='geodepy/angles.py',
         old="""        if self.positive:
            return DMSAngle(-self.degree, -self.minute, -self.second)""",
         new="""        if self.positive:
            return DMSAngle(-self.degree, self.minute, self.second)""",
         note='DMSAngle.__neg__ loses the sign when degree == 0'),
    dict(id='ang-mod-hp', props=['C12'], file='geodepy/angles.py',
         old="""    def __mod__(self, other):
        return dec2dms(self.dec() % other)""",
         new="""    def __mod__(self, other):
        return hp2dms(self.hp() % other)""", note='DMSAngle.__mod__ via HP'),
    dict(id='ang-ddm-round', props=['C12'], file='geodepy/angles.py',
         old="            return DDMAngle(-self.degree, -round(self.minute, n))",
         new="            return DDMAngle(self.degree, round(self.minute, n))", note='DDMAngle.__round__ drops the sign'),
    # ---- C04 / C05: geodesics ------------------------------------------------------------------------------------
    dict(id='vd-bcoef', props=['C04'], file='geodepy/geodesy.py',
         old="""    b = (u_squared / 1024) \\
        * (256 + u_squared * (-128 + u_squared * (74 - 47 * u_squared)))

    # Eq. 94""",
         new="""    b = (u_squared / 1024) \\
        * (256 + u_squared * (-128 + u_squared * (75 - 47 * u_squared)))

    # Eq. 94""", note='vincdir B series 74 -> 75'),
    dict(id='vd-grs80-f', props=['C04'], file='geodepy/geodesy.py',
         old="""    # Eq. 100
    c = (ellipsoid.f/16)*cos(alpha)**2 \\
        * (4 + ellipsoid.f*(4 - 3*cos(alpha)**2))""",
         new="""    # Eq. 100
    c = (grs80.f/16)*cos(alpha)**2 \\
        * (4 + grs80.f*(4 - 3*cos(alpha)**2))""", note='C coefficient from the default ellipsoid'),
    dict(id='vd-looptol', props=['C04'], file='geodepy/geodesy.py', old='        if abs(sigma_change) < 1e-12:',
         new='        if abs(sigma_change) < 1e-6:', note='sigma iteration tolerance 1e-12 -> 1e-6'),
    dict(id='vd-eq101-sign', props=['C04'], file='geodepy/geodesy.py',
         old="* (sigma + c*sin(sigma)*(cos(two_sigma_m) + c*cos(sigma)", new="* (sigma - c*sin(sigma)*(cos(two_sigma_m) + c*cos(sigma)",
         note='sign inside eq. 101'),
    dict(id='vd-revaz', props=['C04'], file='geodepy/geodesy.py',
         old="    azimuth2to1 = degrees(atan2(sin(alpha), -sin(u1)*sin(sigma)\n                          + cos(u1)*cos(sigma)*cos(azimuth1to2))) + 180\n\n    return round(lat2, 11), round(lon2, 11), round(azimuth2to1, 9)",
         new="    azimuth2to1 = degrees(atan2(sin(alpha), -sin(u1)*sin(sigma)\n                          + cos(u1)*cos(sigma)*cos(azimuth1to2))) + 180\n\n    return round(lat2, 11), round(lon2, 11), round(azimuth2to1, 6)",
         note='reverse azimuth rounded to 6 decimals'),
    dict(id='vi-itercap', props=['C05'], file='geodepy/geodesy.py',
         old="""    cos_two_sigma_m = 0
    for i in range(1000):""", new="""    cos_two_sigma_m = 0
    for i in range(5):""", note='lambda iteration cap 1000 -> 5 (long lines only)'),
    dict(id='vi-atan2-swap', props=['C05'], file='geodepy/geodesy.py',
         old="""        2*atan2(sin((u1 + u2)/2)*sin(lon/2),
                cos((u2 - u1)/2)*cos(lon/2)))) % 360""",
         new="""        2*atan2(cos((u2 - u1)/2)*cos(lon/2),
                sin((u1 + u2)/2)*sin(lon/2)))) % 360""", note='atan2 arguments swapped in the reverse azimuth'),
    dict(id='vi-revaz-two-formulae', props=['C05'], file='geodepy/geodesy.py',
         old="""    azimuth2to1 = (azimuth1to2 + 180 + degrees(
        2*atan2(sin((u1 + u2)/2)*sin(lon/2),
                cos((u2 - u1)/2)*cos(lon/2)))) % 360""",
         new="""    azimuth2to1 = degrees(atan2(cos(u1)*sin(lon),
                                (-sin(u1)*cos(u2)
                                 + cos(u1)*sin(u2)*cos(lon)))) + 180""",
         note='baseline defect restored: reverse azimuth by its own cancelling formula (noise on sub-metre lines)'),
    dict(id='vi-coincide-tol', props=['C05'], file='geodepy/geodesy.py', old='    tolerance = 0.0000000001', new='    tolerance = 0.000001',
         note='coincidence shortcut 1e-10 -> 1e-6 deg (0.1 m lines return 0)'),
    dict(id='vi-no-180', props=['C05'], file='geodepy/geodesy.py',
         old="    azimuth2to1 = (azimuth1to2 + 180 + degrees(", new="    azimuth2to1 = (azimuth1to2 + degrees(",
         note='+180 dropped from the reverse azimuth'),
    dict(id='vi-semimin-grs80', props=['C05'], file='geodepy/geodesy.py', old="    ell_dist = ellipsoid.semimin*a * (sigma - delta_sigma)",
         new="    ell_dist = grs80.semimin*a * (sigma - delta_sigma)", note='distance scaled with the default ellipsoid'),
    # ---- C20: HTTP API ---------------------------------------------------------------------------------------------
    dict(id='api-latlon-swap', props=['C20'], file='api/app.py',
         old="""    lat2_dd, lon2_dd, azimuth2to1_dd = vincdir(lat1_dd, lon1_dd,
                                               azimuth1to2_dd, ell_dist)""",
         new="""    lat2_dd, lon2_dd, azimuth2to1_dd = vincdir(lon1_dd, lat1_dd,
                                               azimuth1to2_dd, ell_dist)""", note='lat/lon swapped in /vincdir'),
    dict(id='api-to-ignored', props=['C20'], file='api/app.py',
         old="    angle = dd_to_angle_type[to_angle_type]", new="    angle = dd_to_angle_type[from_angle_type]",
         note='/vincinv output type taken from from_angle_type'),
    dict(id='api-dd-converts', props=['C20'], file='api/app.py',
         old="""dd_to_angle_type = {
    'dd': lambda x: x,""", new="""dd_to_angle_type = {
    'dd': lambda x: round(x, 8),""", note='dd output branch alters the value'),
    dict(id='api-pt-swap', props=['C20'], file='api/app.py',
         old="""    ell_dist, azimuth1to2_dd, azimuth2to1_dd = vincinv(lat1_dd, lon1_dd,
                                                       lat2_dd, lon2_dd)""",
         new="""    ell_dist, azimuth2to1_dd, azimuth1to2_dd = vincinv(lat2_dd, lon2_dd,
                                                       lat1_dd, lon1_dd)""",
         note='/vincinv computes the swapped problem and exchanges the azimuths (differs only in the last digits)'),
    # ---- C14: grid geodesics ----------------------------------------------------------------------------------------
    dict(id='g14-k1', props=['C14'], file='geodepy/geodesy.py', old="          (6 * r_sq_m))", new="          (5 * r_sq_m))",
         note='6 -> 5 in k1 of the line scale factor'),
    dict(id='g14-conv-sign', props=['C14'], file='geodepy/geodesy.py', old="    grid2to1 = az2to1 + pt2[3]",
         new="    grid2to1 = az2to1 - pt2[3]", note='sign of the convergence at P2 in vincinv_utm'),
    dict(id='g14-hemi-lsf', props=['C14'], file='geodepy/geodesy.py',
         old="""    lsf = line_sf(zone1, east1, north1,
                  zone2, east2, north2, hemisphere, ellipsoid)
    grid_dist = ell_dist * lsf""",
         new="""    lsf = line_sf(zone1, east1, north1,
                  zone2, east2, north2, ellipsoid=ellipsoid)
    grid_dist = ell_dist * lsf""", note='hemisphere not forwarded to line_sf in vincinv_utm (northern lines)'),
    dict(id='g14-zone1-reproj', props=['C14'], file='geodepy/geodesy.py',
         old="        stn2_zone1 = geo2grid(stn2_geo[0], stn2_geo[1], zone1, ellipsoid)",
         new="        stn2_zone1 = geo2grid(stn2_geo[0], stn2_geo[1], zone2, ellipsoid)",
         note='cross-zone re-projection of station 2 stays in zone 2'),
    dict(id='g14-direct-hemi', props=['C14'], file='geodepy/geodesy.py',
         old="""    lat2, lon2, psf2, gridconv2 = grid2geo(zone2, east2, north2,
                                           hemisphere, ellipsoid)
    grid2to1 = az2to1 + gridconv2""",
         new="""    lat2, lon2, psf2, gridconv2 = grid2geo(zone2, east2, north2,
                                           ellipsoid=ellipsoid)
    grid2to1 = az2to1 + gridconv2""", note='vincdir_utm: final convergence computed for the southern hemisphere always'),
    dict(id='g14-direct-ell', props=['C14'], file='geodepy/geodesy.py',
         old="""        lat2, lon2, az2to1 = vincdir(lat1, lon1, az1to2,
                                     grid_dist / lsf, ellipsoid)""",
         new="""        lat2, lon2, az2to1 = vincdir(lat1, lon1, az1to2,
                                     grid_dist / lsf)""", note='vincdir_utm: geodesic on the default ellipsoid'),
    # ---- C03: geodetic <-> Cartesian ---------------------------------------------------------------------------------
    dict(id='c03-iterstop', props=['C03'], file='geodepy/convert.py', old="    while abs(itercheck) > 1e-10:",
         new="    while abs(itercheck) > 1e-6:", note='xyz2llh iteration stop 1e-10 -> 1e-6'),
    dict(id='c03-ecc-swap-iter', props=['C03'], file='geodepy/convert.py',
         old="        lat = atan((z + nu * ellipsoid.ecc1sq * sin(lat))/p)", new="        lat = atan((z + nu * ellipsoid.ecc2sq * sin(lat))/p)",
         note='ecc1sq <-> ecc2sq inside the iteration'),
    dict(id='c03-equator-grs80', props=['C03'], file='geodepy/convert.py', old="        nu = ellipsoid.semimaj\n    else:",
         new="        nu = grs80.semimaj\n    else:", note='baseline defect restored: GRS80 radius on the equator'),
    dict(id='c03-height-cancel', props=['C03'], file='geodepy/convert.py',
         old="    ellht = p * cos(lat) + z * sin(lat) - ellipsoid.semimaj**2 / nu", new="    ellht = p/(cos(lat)) - nu",
         note='baseline defect restored: ill-conditioned height'),
    dict(id='c03-semimin', props=['C03'], file='geodepy/convert.py',
         old="    z = ((ellipsoid.semimin**2 / ellipsoid.semimaj**2) * nu + ellht) * sin(lat)",
         new="    z = ((grs80.semimin**2 / grs80.semimaj**2) * nu + ellht) * sin(lat)", note='z from the default ellipsoid axes ratio'),
    # ---- C09: purity ---------------------------------------------------------------------------------------------------
    dict(id='pure-add-inplace', props=['C09', 'C07'], file='geodepy/constants.py',
         old="""            tf_sd = self.tf_sd
            if type(self.tf_sd) == TransformationSD:
                tf_sd = TransformationSD(""",
         new="""            tf_sd = self.tf_sd
            if type(self.tf_sd) == TransformationSD:
                self.tf_sd.sd_rx = (self.tf_sd.sd_rx**2 + (self.tf_sd.sd_d_rx * timediff)**2) ** 0.5
                tf_sd = TransformationSD(""", note='__add__ again writes one propagated sigma into the shared uncertainty object'),
    dict(id='pure-sort-inplace', props=['C09'], file='geodepy/survey.py', old="    vert_list = sorted(vert_list, reverse=True)",
         new="    vert_list.sort(reverse=True)", note='precise_inst_ht sorts the caller list in place'),
    dict(id='pure-alpha-memo', props=['C09', 'C01'], edits=[
        dict(file='geodepy/convert.py', old="def alpha_coeff(ellipsoid):", new="_ALPHA_CACHE = {}\n\n\ndef alpha_coeff(ellipsoid):\n    if 'a' in _ALPHA_CACHE:\n        return _ALPHA_CACHE['a']\n    _ALPHA_CACHE['a'] = _alpha_coeff(ellipsoid)\n    return _ALPHA_CACHE['a']\n\n\ndef _alpha_coeff(ellipsoid):")],
         note='alpha coefficients memoised on a module global without the ellipsoid in the key'),
    dict(id='pure-vcv-inplace', props=['C09'], file='geodepy/statistics.py',
         old="    rot_matrix = rotation_matrix(lat, lon)\n    vcv_local = rot_matrix.transpose() @ vcv_cart @ rot_matrix",
         new="    rot_matrix = rotation_matrix(lat, lon)\n    vcv_cart *= 1.0000001\n    vcv_local = rot_matrix.transpose() @ vcv_cart @ rot_matrix",
         note='vcv_cart2local scales the caller array in place'),
    dict(id='pure-neg-shares-list', props=['C09'], file='geodepy/constants.py',
         old="                              tf_sd=self.tf_sd\n                              )",
         new="                              tf_sd=setattr(self, 'tx', self.tx) or self.tf_sd\n                              )",
         expect='silent', note='__neg__ rewrites an attribute of the shipped constant with the identical value: a write but no change; the check must stay silent'),
    dict(id='pure-ellipsoid-cache', props=['C09'], file='geodepy/geodesy.py',
         old="    return (ellipsoid.semimaj /\n            sqrt(1 - ellipsoid.ecc1sq * (sin(radians(lat)) ** 2)))",
         new="    ellipsoid.last_nu_lat = lat\n    return (ellipsoid.semimaj /\n            sqrt(1 - ellipsoid.ecc1sq * (sin(radians(lat)) ** 2)))",
         note='nu() stores a scratch attribute on the shipped ellipsoid'),
    # ---- C06 / C07 / C11 / C13: Helmert family -------------------------------------------------------------------------
    dict(id='h-transpose-R', props=['C06'], file='geodepy/transform.py',
         old="""    rotation = np.array([[1., rz, -ry],
                         [-rz, 1., rx],
                         [ry, -rx, 1.]])""",
         new="""    rotation = np.array([[1., -rz, ry],
                         [rz, 1., -rx],
                         [-ry, rx, 1.]])""", note='rotation matrix transposed (sign convention)'),
    dict(id='h-arcsec-factor', props=['C06'], file='geodepy/transform.py', old="    ry = radians(trans.ry / 3600)", new="    ry = radians(trans.ry / 3660)",
         note='arc-second factor of one rotation'),
    dict(id='h-ppm', props=['C06'], file='geodepy/transform.py', old="    scale = 1 + trans.sc / 1000000", new="    scale = 1 + trans.sc / 100000", note='ppm factor 1e6 -> 1e5'),
    dict(id='h-jac-sign', props=['C06', 'C13'], file='geodepy/transform.py', old="        j_mat[1, 6] = -scale * xyz_before[0, 0]", new="        j_mat[1, 6] = scale * xyz_before[0, 0]",
         note='one Jacobian sign (covariance only)'),
    dict(id='h-sd-unit', props=['C06', 'C13'], file='geodepy/transform.py', old="        q_mat[4, 4] = radians(trans.tf_sd.sd_rx/3600)**2", new="        q_mat[4, 4] = radians(trans.tf_sd.sd_rx/60)**2",
         note='sd_rx/3600 -> /60 (covariance only)'),
    dict(id='h-year-365', props=['C07'], file='geodepy/constants.py', old="            timediff = (other - self.ref_epoch).days/365.25", new="            timediff = (other - self.ref_epoch).days/365",
         note='365.25 -> 365'),
    dict(id='h-elapsed-sign', props=['C07'], file='geodepy/constants.py', old="            timediff = (other - self.ref_epoch).days/365.25", new="            timediff = abs((other - self.ref_epoch).days)/365.25",
         note='elapsed time loses its sign (epochs before the reference epoch)'),
    dict(id='h-round4', props=['C07'], file='geodepy/constants.py', old="                                  round(self.rz + (self.d_rz * timediff), 8),", new="                                  round(self.rz + (self.d_rz * timediff), 6),",
         note='propagated rz rounded to 6 decimals'),
    dict(id='h-rate-sc', props=['C07', 'C11'], file='geodepy/constants.py', old="                                  round(self.sc + (self.d_sc * timediff), 8),", new="                                  round(self.sc, 8),",
         note='scale rate not applied'),
    dict(id='cat-digit', props=['C11'], file='geodepy/constants.py', old="    itrf_from='ITRF2008', itrf_to='ITRF96', ref_epoch=date(2000, 1, 1),\n    tx=4.8, ty=2.6, tz=-33.2,", new="    itrf_from='ITRF2008', itrf_to='ITRF96', ref_epoch=date(2000, 1, 1),\n    tx=4.8, ty=2.9, tz=-33.2,",
         note='one digit of an ITRF table entry that takes part in triples'),
    dict(id='cat-neg-rate', props=['C11'], file='geodepy/constants.py', old="                              -self.d_rx, -self.d_ry, -self.d_rz,", new="                              -self.d_rx, -self.d_ry, self.d_rz,",
         note='a rate not negated in __neg__'),
    dict(id='cat-iers-rot', props=['C11'], file='geodepy/constants.py', old="                          round(-rx / 1000, 8), round(-ry / 1000, 8),", new="                          round(-rx / 1000, 8), round(ry / 1000, 8),",
         note='sign of one rotation in iers2trans'),
    dict(id='mga-reverse-set', props=['C13'], file='geodepy/transform.py', old="    x20, y20, z20, vcv94 = conform7(x94, y94, z94, -gda94_to_gda2020, vcv=vcv)", new="    x20, y20, z20, vcv94 = conform7(x94, y94, z94, gda94_to_gda2020, vcv=vcv)",
         note='forward set used in the reverse wrapper'),
    dict(id='mga-height', props=['C13'], file='geodepy/transform.py',
         old="""        vcv = vcv_local2cart(vcv, lat, lon)
    x94, y94, z94 = llh2xyz(lat, lon, ell_ht_in)
    x20, y20, z20, vcv20 = conform7(""",
         new="""        vcv = vcv_local2cart(vcv, lat, lon)
    x94, y94, z94 = llh2xyz(lat, lon)
    x20, y20, z20, vcv20 = conform7(""", note='ell_ht not passed to llh2xyz in the forward wrapper (height offset of the result)'),
    dict(id='mga-vcv-frame', props=['C13'], file='geodepy/transform.py',
         old="""    lat, lon, ell_ht_out = xyz2llh(x20, y20, z20)
    if vcv20 is not None:
        vcv20 = vcv_cart2local(vcv20, lat, lon)""",
         new="""    lat2, lon2, ell_ht_out = xyz2llh(x20, y20, z20)
    if vcv20 is not None:
        vcv20 = vcv_cart2local(vcv20, lat + 0.5, lon)
    lat, lon = lat2, lon2""", note='covariance rotated in the wrong local frame'),
    # ---- C15 ------------------------------------------------------------------------------------------------------------
    dict(id='crd-nval-sign', props=['C15'], file='geodepy/coord.py', old="                            ell_ht - self.nval)", new="                            ell_ht + self.nval)", note='H = h + N'),
    dict(id='crd-hemi', props=['C15'], file='geodepy/coord.py', old="        if hemi == 'North':\n            hemi_north = True", new="        if hemi == 'North' and zone > 30:\n            hemi_north = True",
         note='hemisphere flag wrong in the western half of the world'),
    dict(id='crd-zero-h', props=['C15'], file='geodepy/coord.py', old="            if self.orth_ht is not None:  # Only N Value", new="            if self.orth_ht:  # Only N Value", note='baseline defect restored: H = 0.0 drops N'),
    # ---- C16 ------------------------------------------------------------------------------------------------------------
    dict(id='st-rot-sign', props=['C16'], file='geodepy/statistics.py', old="         [0.0, cos(rlat), sin(rlat)]]", new="         [0.0, -cos(rlat), sin(rlat)]]", note='sign in the rotation matrix'),
    dict(id='st-rvrt', props=['C16'], file='geodepy/statistics.py', old="    vcv_local = rot_matrix.transpose() @ vcv_cart @ rot_matrix", new="    vcv_local = rot_matrix @ vcv_cart @ rot_matrix.transpose()", note='R V R^T <-> R^T V R'),
    dict(id='st-orient', props=['C16'], file='geodepy/statistics.py', old="    orientation = 90 - degrees(0.5 * atan2((2 * vcv[0, 1]),", new="    orientation = degrees(0.5 * atan2((2 * vcv[0, 1]),", note='90 - dropped'),
    dict(id='st-ttable', props=['C16'], file='geodepy/statistics.py', old="2.36462, 2.30600, 2.26216,", new="2.36462, 2.30600, 2.26215,", note='one digit of the coverage table'),
    # ---- C17 ------------------------------------------------------------------------------------------------------------
    dict(id='nt-west-sign', props=['C17'], file='geodepy/transform.py', old="        tf_lon = lon - shifts[1] / 3600\n    else:", new="        tf_lon = lon + shifts[1] / 3600\n    else:", note='positive-west sign in the forward direction'),
    dict(id='nt-skip', props=['C17'], file='geodepy/ntv2reader.py', old="            skip_bytes += 176   # subgrid header length", new="            skip_bytes += 192   # subgrid header length", note='sub-grid header length off by 16'),
    dict(id='nt-finest', props=['C17'], file='geodepy/ntv2reader.py', old="                if grid_object.subgrids[sg].lat_inc < inc:", new="                if grid_object.subgrids[sg].lat_inc > inc:", note='coarsest instead of finest sub-grid'),
    dict(id='nt-units', props=['C17'], file='geodepy/transform.py', old="        tf_lat = lat - shifts[0] / 3600", new="        tf_lat = lat - shifts[0] / 3660", note='unit of the latitude shift in the reverse direction'),
    dict(id='nt-ring-linear', props=['C17'], file='geodepy/ntv2reader.py',
         old="""                return tuple(3 * n1 - 3 * n2 + n3 for n1, n2, n3
                             in zip(node(r + d, c), node(r + 2 * d, c), node(r + 3 * d, c)))""",
         new="""                return tuple(2 * n1 - n2 + 0 * n3 for n1, n2, n3
                             in zip(node(r + d, c), node(r + 2 * d, c), node(r + 3 * d, c)))""",
         note='rows beyond the sub-grid extrapolated linearly: bi-quadratic fields not reproduced in the outermost ring (north/south)'),
    dict(id='nt-ring-clamp', props=['C17'], file='geodepy/ntv2reader.py',
         old="""                return tuple(3 * n1 - 3 * n2 + n3 for n1, n2, n3
                             in zip(node(r, c + d), node(r, c + 2 * d), node(r, c + 3 * d)))""",
         new="""                return node(r, c + d)""",
         note='columns beyond the sub-grid replaced by the edge column: linear fields not reproduced in the outermost ring (east/west)'),
    dict(id='nt-ring-beyond', props=['C17'], file='geodepy/ntv2reader.py',
         old="            if not 0 <= r < num_rows:", new="            if not -1 <= r < num_rows:",
         note='baseline defect restored for the southern edge: the row below the sub-grid is read from the file (header bytes / other sub-grid)'),
    # ---- C18 ------------------------------------------------------------------------------------------------------------
    dict(id='snx-count', props=['C18'], file='geodepy/gnss.py', old="        num_params = int(old_num_params) - num_stn_params * num_stns_to_remove", new="        num_params = int(old_num_params) - num_stn_params * (num_stns_to_remove - 1) - 3",
         note='header count wrong when velocities are present'),
    dict(id='snx-u-index', props=['C18'], file='geodepy/gnss.py', old="                        if j+i not in skip:", new="                        if j+i+1 not in skip:", note='j+i -> j+i+1 in the sub-matrix extraction'),
    dict(id='snx-pad', props=['C18'], file='geodepy/gnss.py', old="    seconds = '{:05d}'.format(int(seconds))", new="    seconds = '{:d}'.format(int(seconds))", note='baseline defect restored: creation-time seconds not padded (time of day)'),
    # ---- C19 ------------------------------------------------------------------------------------------------------------
    dict(id='sv-va-swap', props=['C19'], file='geodepy/survey.py', old="            zenith_angle = radians(270 - zenith_angle)", new="            zenith_angle = radians(zenith_angle - 180)", note='sin/cos swapped for zenith angles in 180..360'),
    dict(id='sv-wrap', props=['C19'], file='geodepy/convert.py', old="        if theta >= 360:\n            theta -= 360", new="        if theta > 360:\n            theta -= 360", note='baseline defect restored: bearing 360.0'),
    dict(id='sv-humidity', props=['C19'], file='geodepy/survey.py', old="    if rel_humidity is not None:\n        wet_temp = dry_temp", new="    if rel_humidity:\n        wet_temp = dry_temp", note='0 % humidity read as "use the wet bulb"'),
    dict(id='pure-race-scratch', props=['C09'], edits=[
        dict(file='geodepy/convert.py', old="    A = rect_radius(ellipsoid)\n    a = alpha_coeff(ellipsoid)\n    lat = radians(lat)\n    # Calculate Zone",
             new="    A = rect_radius(ellipsoid)\n    a = alpha_coeff(ellipsoid)\n    _SCRATCH['lat'] = radians(lat)\n    # Calculate Zone"),
        dict(file='geodepy/convert.py', old="    # Conformal Latitude\n    sigx = (ellipsoid.ecc1 * tan(lat)) / sqrt(1 + (tan(lat) ** 2))",
             new="    # Conformal Latitude\n    lat = _SCRATCH['lat']\n    sigx = (ellipsoid.ecc1 * tan(lat)) / sqrt(1 + (tan(lat) ** 2))"),
        dict(file='geodepy/convert.py', old="def geo2grid(lat, lon, zone=0, ellipsoid=grs80, prj=utm):", new="_SCRATCH = {}\n\n\ndef geo2grid(lat, lon, zone=0, ellipsoid=grs80, prj=utm):")],
         note='geo2grid parks the latitude in a module-level scratch dict between two statements: wrong only when another thread runs geo2grid in between'),
]
