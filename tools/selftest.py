#!/venv/bin/python
"""Mutation self-test (development tooling, not a MANIFEST check; DESIGN.md section 6).

Each mutant in tools/mutants.py is a textual substitution in one repository file.  For every selected mutant: copy the
working tree of /repo to a scratch directory outside /repo and /verif, apply the substitution, optionally run the
repository's own tests (a realistic mutant still passes them), run the quick check(s) of the properties it should break
with VERIF_REPO_ROOT pointing at the copy, and report whether a VIOLATION was raised.  The scratch copy is removed
immediately afterwards.

usage: tools/selftest.py [--tests] [--only ID[,ID..]] [--prop C12[,C08]] [--tier quick] [--jobs N]
"""
import argparse
import concurrent.futures
import importlib.util
import json
import os
import shutil
import subprocess
import sys
import tempfile

ROOT = os.path.dirname(os.path.dirname(os.path.abspath(__file__)))
REPO = os.environ.get('VERIF_REPO_ROOT', '/repo')
SCRATCH = os.environ.get('VERIF_SCRATCH', '/var/tmp')


def load_mutants():
    spec = importlib.util.spec_from_file_location('mutants', os.path.join(ROOT, 'tools', 'mutants.py'))
    m = importlib.util.module_from_spec(spec)
    spec.loader.exec_module(m)
    return m.MUTANTS


def run_mutant(mu, tier, with_tests, jobs):
    d = tempfile.mkdtemp(prefix='mut-%s-' % mu['id'], dir=SCRATCH)
    out = {'id': mu['id'], 'props': mu['props'], 'note': mu.get('note', ''), 'expect': mu.get('expect', 'violation')}
    try:
        subprocess.run(['rsync', '-a', '--exclude', '.git', '--exclude', '__pycache__', REPO + '/', d + '/'], check=True)
        edits = mu['edits'] if 'edits' in mu else [mu]
        for e in edits:
            p = os.path.join(d, e['file'])
            s = open(p).read()
            n = s.count(e['old'])
            if n != 1:
                out['error'] = 'pattern occurs %d times in %s' % (n, e['file'])
                return out
            open(p, 'w').write(s.replace(e['old'], e['new']))
        if with_tests:
            try:
                r = subprocess.run(['/venv/bin/python', '-m', 'pytest', '-q', '-x', '-p', 'no:cacheprovider', '--timeout=120',
                                    'geodepy/tests', 'api'], cwd=d, capture_output=True, text=True, timeout=400)
                out['repo_tests_pass'] = (r.returncode == 0)
                if r.returncode != 0:
                    out['repo_tests_tail'] = r.stdout.strip().splitlines()[-1:]
            except subprocess.TimeoutExpired:
                out['repo_tests_pass'] = False
                out['repo_tests_tail'] = ['timeout']
        res = {}
        for pid in mu['props']:
            env = dict(os.environ, VERIF_REPO_ROOT=d, VERIF_EVIDENCE_DIR=os.path.join(d, '.verif-evidence'),
                       VERIF_REPLAY_DIR=os.path.join(d, '.verif-replays'), VERIF_JOBS=str(jobs))
            try:
                r = subprocess.run([os.path.join(ROOT, 'check'), pid, '--tier', tier], env=env, capture_output=True, text=True,
                                   timeout=1500)
            except subprocess.TimeoutExpired:
                res[pid] = {'rc': 2, 'mechanisms': ['(check timed out)']}
                continue
            mechs = [l.strip() for l in r.stdout.splitlines() if l.strip().startswith('mechanism=')]
            res[pid] = {'rc': r.returncode, 'mechanisms': [m.split()[0][len('mechanism='):] for m in mechs][:6]}
        out['checks'] = res
        out['caught'] = any(v['rc'] == 1 for v in res.values())
    finally:
        shutil.rmtree(d, ignore_errors=True)
    return out


def main():
    ap = argparse.ArgumentParser()
    ap.add_argument('--tests', action='store_true')
    ap.add_argument('--only')
    ap.add_argument('--prop')
    ap.add_argument('--tier', default='quick')
    ap.add_argument('--jobs', type=int, default=4)
    ap.add_argument('--par', type=int, default=4)
    a = ap.parse_args()
    mus = load_mutants()
    if a.only:
        ids = set(a.only.split(','))
        mus = [m for m in mus if m['id'] in ids]
    if a.prop:
        ps = set(a.prop.split(','))
        mus = [m for m in mus if ps & set(m['props'])]
    results = []
    with concurrent.futures.ThreadPoolExecutor(max_workers=a.par) as ex:
        for r in ex.map(lambda m: run_mutant(m, a.tier, a.tests, a.jobs), mus):
            results.append(r)
            flag = 'CAUGHT' if r.get('caught') else ('ERROR ' + r['error'] if 'error' in r else 'MISSED')
            if r.get('expect') == 'silent':
                flag = 'FALSE-ALARM' if r.get('caught') else 'SILENT(as expected)'
            t = '' if 'repo_tests_pass' not in r else (' repo-tests=' + ('pass' if r['repo_tests_pass'] else 'FAIL'))
            print('%-28s %-8s %s%s  %s' % (r['id'], ','.join(r['props']), flag, t,
                                           json.dumps({k: v['mechanisms'] for k, v in r.get('checks', {}).items()})), flush=True)
    missed = [r['id'] for r in results if (not r.get('caught')) != (r.get('expect') == 'silent')]
    print('mutants: %d, caught: %d, missed: %s' % (len(results), len(results) - len(missed), missed))
    return 0


if __name__ == '__main__':
    sys.exit(main())
