#!/bin/sh
# tools/keep_round.sh <round> <cNN> <slug1> <slug2> [also-list]   -- files the two round-5 changes of one sub-agent (development tooling)
R="$1"; n="$2"; s1="$3"; s2="$4"; also="$5"
out=/tmp/seed${R}-out/$n; wt=/tmp/seed${R}-$n
P=$(echo "$n" | tr c C)
here="$(cd "$(dirname "$0")/.." && pwd)"
cd "$here"
for k in 1 2; do
  eval slug=\$s$k
  [ "$slug" = "-" ] && continue
  needs=$(python3 -c "import json;print(json.load(open('$out/notes.json'))['change$k'].get('needs_to_manifest',''))")
  what=$(python3 -c "import json;d=json.load(open('$out/notes.json'))['change$k'];print(str(d.get('kind',''))+': '+str(d.get('what','')))")
  echo "=== r${R}-$n-$slug"
  tools/keep_seed.py "r${R}-$n-$slug" "$P" "$wt" "$out/change$k.diff" "$out/demo$k.py" --needs "$needs" --what "$what" --no-thorough ${also:+--also $also} > /tmp/keep_r5.$$.log 2>&1; sed -n 1,3p /tmp/keep_r5.$$.log | cut -c1-300; rm -f /tmp/keep_r5.$$.log
  python3 -c "
import json;m=json.load(open('seeded/r${R}-$n-$slug/meta.json'));print('confirmed',m['confirmed_in_scratch_worktree']['ok'],'caught_quick',m['caught_by_quick']);print({k:v.get('mechanisms',v)[:3] for k,v in m['checks_quick'].items()})"
done
